"""C05: a held task that a release pass skips is put at the back of its queue, so after `cylc release` it is
overtaken by tasks that were queued after it ("released in the order they were queued, skipping held ones").

Run with /repo on the path:  /venv/bin/python findings/C05_held_task_loses_its_place.py
Prints the release order; exits 1 if the held-then-released task x (queued first) is released after z (queued last)."""
import sys
from collections import Counter
from unittest.mock import Mock
from cylc.flow.task_proxy import TaskProxy
from cylc.flow.task_queues.independent import IndepQueueManager

mgr = IndepQueueManager({"default": {"limit": 0, "members": []}, "q": {"limit": 1, "members": ["x", "y", "z"]}},
                        ["x", "y", "z"], {"root": ["x", "y", "z"]})
tasks = {}
for name in ("x", "y", "z"):                  # queued in this order
    t = Mock(spec=TaskProxy); t.tdef.name = name; t.state.is_held = (name == "x"); t.identity = "1/" + name
    tasks[name] = t
    mgr.push_task(t)
order = [t.tdef.name for t in mgr.release_tasks(Counter())]          # x is held: y goes (limit 1)
tasks["x"].state.is_held = False                                     # cylc release 1/x
order += [t.tdef.name for t in mgr.release_tasks(Counter())]          # y has finished: next in line
order += [t.tdef.name for t in mgr.release_tasks(Counter())]
print("queued x(held), y, z; released:", order)
sys.exit(0 if order == ["y", "x", "z"] else 1)
