---------------------------------- MODULE Db ----------------------------------
(* C21: database writes are atomic and the public database converges.         *)
(*                                                                            *)
(* State machine of the scheduler's two run databases as the property         *)
(* describes them.  The scheduler queues operations (INSERT OR REPLACE,        *)
(* UPDATE, DELETE on tables with primary keys); process_queued_ops turns       *)
(* everything queued since the previous call into ONE batch, applied to the    *)
(* private database in a single transaction and then to the public database    *)
(* in a single transaction.  Inside a batch all deletes run first, then all    *)
(* inserts, then all updates (each in queue order) - callers rely on that.     *)
(*   * a failure at any statement of the private transaction (or its commit)   *)
(*     leaves the private database untouched; the error is fatal (the          *)
(*     scheduler process dies);                                                *)
(*   * a failure at any statement of the public transaction is tolerated:      *)
(*     the public database is rolled back, the batch is kept and retried       *)
(*     together with later batches, n_tries counts consecutive failures and    *)
(*     at MaxTries the public file is replaced by a copy of the private one;   *)
(*   * the process may be killed at any statement of either transaction;       *)
(*     a restart re-creates the public database from the private one.          *)
(* Intended meaning of "retried" (from the property: "the public database      *)
(* eventually holds the same content as the private one"): the kept batches    *)
(* take effect on the public database in the order in which they took effect   *)
(* on the private one.  `pub`/`pubq` follow that meaning.                      *)
(*                                                                            *)
(* `pubm`/`pubmq` are a second, diagnostic model of the public side, written   *)
(* from the implementation as read in rundb.py: the DAO keeps ONE merged queue *)
(* per table and kind, so a kept batch and later batches are re-partitioned    *)
(* into deletes / inserts / updates as one big batch, and the queue survives   *)
(* recovery.  MC_Db_asis.cfg asks TLC whether that design converges            *)
(* (AsIs_PublicConverges); its counterexample is replayed on the real code.    *)
EXTENDS Naturals, Sequences, FiniteSets, TLC

CONSTANTS OpMenu,     \* the operations that may be queued
          MaxOps,     \* bound on the number of operations queued in a behaviour
          MaxBatch,   \* bound on the size of one batch
          MaxTries    \* recovery threshold (100 in cylc; scaled down)

Tables == {"POOL", "STATES", "BCAST"}
Empty == [k \in {} |-> 0]
NoRows == [t \in Tables |-> Empty]

\* op == [t |-> table, k |-> "ins" | "upd" | "del" | "delall", key |-> primary key, v |-> value]
Ins(t, key, v) == [t |-> t, k |-> "ins", key |-> key, v |-> v]
Upd(t, key, v) == [t |-> t, k |-> "upd", key |-> key, v |-> v]
Del(t, key)    == [t |-> t, k |-> "del", key |-> key, v |-> 0]
DelAll(t)      == [t |-> t, k |-> "delall", key |-> "-", v |-> 0]

\* one SQL statement on one table (rows: primary key -> value)
Apply1(rows, op) ==
  CASE op.k = "ins"    -> TLCEval([x \in DOMAIN rows \cup {op.key} |-> IF x = op.key THEN op.v ELSE rows[x]])
    [] op.k = "upd"    -> IF op.key \in DOMAIN rows THEN [rows EXCEPT ![op.key] = op.v] ELSE rows
    [] op.k = "del"    -> TLCEval([x \in DOMAIN rows \ {op.key} |-> rows[x]])
    [] op.k = "delall" -> Empty
RECURSIVE ApplySeq(_, _)
ApplySeq(db, ops) ==
  IF ops = <<>> THEN db
  ELSE ApplySeq([db EXCEPT ![Head(ops).t] = Apply1(@, Head(ops))], Tail(ops))
IsDel(op) == op.k \in {"del", "delall"}
IsIns(op) == op.k = "ins"
IsUpd(op) == op.k = "upd"
\* a batch: deletes, then inserts, then updates, each in queue order (tables are independent)
ApplyBatch(db, ops) ==
  ApplySeq(ApplySeq(ApplySeq(db, SelectSeq(ops, IsDel)), SelectSeq(ops, IsIns)), SelectSeq(ops, IsUpd))
RECURSIVE ApplyBatches(_, _)
ApplyBatches(db, bs) == IF bs = <<>> THEN db ELSE ApplyBatches(ApplyBatch(db, Head(bs)), Tail(bs))
RECURSIVE Flatten(_)
Flatten(bs) == IF bs = <<>> THEN <<>> ELSE Head(bs) \o Flatten(Tail(bs))

VARIABLES mq,      \* operations queued in the manager since the last process_queued_ops
          pri,     \* committed content of the private database
          pub,     \* committed content of the public database (intended)
          pubq,    \* batches kept for retry on the public database, oldest first (intended)
          pubm,    \* committed content of the public database (merged-queue design)
          pubmq,   \* the public DAO's merged queue (merged-queue design)
          ntries,  \* consecutive failed public writes
          alive,   \* is the scheduler process alive?
          nops,    \* operations queued so far
          act
vars == <<mq, pri, pub, pubq, pubm, pubmq, ntries, alive, nops, act>>

Init == /\ mq = <<>> /\ pri = NoRows /\ pub = NoRows /\ pubq = <<>> /\ pubm = NoRows /\ pubmq = <<>>
        /\ ntries = 0 /\ alive = TRUE /\ nops = 0 /\ act = [name |-> "Init"]

\* Queue: a broadcast cancel (keyed delete on BCAST) withdraws inserts of the same row that are still
\* queued in the manager, because the delete would otherwise run before them (put_broadcast's rule).
Queue(op) ==
  /\ alive /\ nops < MaxOps /\ Len(mq) < MaxBatch
  /\ LET keep(o) == ~(op.t = "BCAST" /\ op.k = "del" /\ o.t = "BCAST" /\ o.k = "ins" /\ o.key = op.key)
     IN mq' = Append(SelectSeq(mq, keep), op)
  /\ nops' = nops + 1
  /\ act' = [name |-> "Queue", op |-> op]
  /\ UNCHANGED <<pri, pub, pubq, pubm, pubmq, ntries, alive>>

CanExec == alive /\ (mq # <<>> \/ pubq # <<>>)
\* number of statements of the private / public transaction; the failure positions are 0..that number
\* (k < n: statement k fails after k statements ran; k = n: the commit fails).  Recorded in `act` as n.
NPri == Len(mq)
NPub == Len(Flatten(pubq)) + Len(mq)

\* both transactions succeed
ExecOK ==
  /\ CanExec
  /\ pri' = ApplyBatch(pri, mq)
  /\ pub' = ApplyBatches(pub, Append(pubq, mq)) /\ pubq' = <<>>
  /\ pubm' = ApplyBatch(pubm, pubmq \o mq) /\ pubmq' = <<>>
  /\ mq' = <<>> /\ ntries' = 0
  /\ act' = [name |-> "ExecOK"]
  /\ UNCHANGED <<alive, nops>>

\* the private transaction succeeds, the public one fails at statement k (k = NPub: at commit)
PubFail(k) ==
  /\ CanExec /\ ntries < MaxTries /\ k \in 0..NPub
  /\ pri' = ApplyBatch(pri, mq)
  /\ pubq' = IF mq = <<>> THEN pubq ELSE Append(pubq, mq)
  /\ pubmq' = pubmq \o mq
  /\ mq' = <<>> /\ ntries' = ntries + 1
  /\ act' = [name |-> "PubFail", k |-> k, n |-> NPub]
  /\ UNCHANGED <<pub, pubm, alive, nops>>

\* the private transaction fails at statement k (k = NPri: at commit): nothing is applied anywhere, fatal
PriFail(k) ==
  /\ CanExec /\ mq # <<>> /\ k \in 0..NPri
  /\ alive' = FALSE
  /\ act' = [name |-> "PriFail", k |-> k, n |-> NPri]
  /\ UNCHANGED <<mq, pri, pub, pubq, pubm, pubmq, ntries, nops>>

\* the process is killed inside the private transaction (before its commit), or after the private
\* commit inside the public transaction
Crash(db, k) ==
  /\ CanExec
  /\ \/ db = "pri" /\ mq # <<>> /\ k \in 0..(NPri - 1) /\ UNCHANGED pri
     \/ db = "pub" /\ k \in 0..(NPub - 1) /\ NPub > 0 /\ pri' = ApplyBatch(pri, mq)
  /\ alive' = FALSE
  /\ act' = [name |-> "Crash", db |-> db, k |-> k, n |-> IF db = "pri" THEN NPri ELSE NPub]
  /\ UNCHANGED <<mq, pub, pubq, pubm, pubmq, ntries, nops>>

\* a new scheduler process on the same files: the public file is re-created from the private one
Restart ==
  /\ ~alive
  /\ alive' = TRUE /\ mq' = <<>>
  /\ pub' = pri /\ pubq' = <<>> /\ pubm' = pri /\ pubmq' = <<>> /\ ntries' = 0
  /\ act' = [name |-> "Restart"]
  /\ UNCHANGED <<pri, nops>>

\* health check at the threshold: the public file is replaced by a copy of the private one
Recover ==
  /\ alive /\ ntries >= MaxTries
  /\ pub' = pri /\ pubq' = <<>>
  /\ pubm' = pri /\ UNCHANGED pubmq
  /\ ntries' = 0
  /\ act' = [name |-> "Recover"]
  /\ UNCHANGED <<mq, pri, alive, nops>>

Next == \/ \E op \in OpMenu : Queue(op)
        \/ ExecOK
        \/ \E k \in 0..(MaxOps + 1) : PubFail(k) \/ PriFail(k)
        \/ \E db \in {"pri", "pub"}, k \in 0..MaxOps : Crash(db, k)
        \/ Restart \/ Recover
Spec == Init /\ [][Next]_vars

-----------------------------------------------------------------------------
TypeOK == /\ ntries \in 0..MaxTries /\ nops \in 0..MaxOps /\ Len(mq) <= MaxBatch
          /\ DOMAIN pri = Tables /\ DOMAIN pub = Tables /\ DOMAIN pubm = Tables

\* C21 clause 1: a failure or crash at any statement of a batch leaves the private database exactly
\* at the previous committed state - unless the private transaction had already committed (public-side crash)
PrivateAtomicStep ==
  /\ act'.name = "PriFail" => pri' = pri
  /\ (act'.name = "Crash" /\ act'.db = "pri") => pri' = pri
  /\ (act'.name \in {"ExecOK", "PubFail"} \/ (act'.name = "Crash" /\ act'.db = "pub")) => pri' = ApplyBatch(pri, mq)
  /\ act'.name \in {"Queue", "Restart", "Recover"} => pri' = pri
C21_PrivateAtomic == [][PrivateAtomicStep]_vars

\* C21 clause 2: after a failed public write the batch is kept (and counted) and the next successful
\* write delivers everything kept
BatchRetriedStep ==
  /\ act'.name = "PubFail" => /\ Flatten(pubq') = Flatten(pubq) \o mq /\ ntries' = ntries + 1 /\ pub' = pub
  /\ act'.name = "ExecOK" => /\ pubq' = <<>> /\ ntries' = 0
C21_BatchRetried == [][BatchRetriedStep]_vars

\* C21 clause 3: whenever nothing is pending for the public database it equals the private one - so once
\* failures stop, the next successful batch (or the recovery at the threshold) makes them equal
C21_PublicConverges == (alive /\ pubq = <<>>) => pub = pri
ConvergeStep == act'.name \in {"ExecOK", "Recover", "Restart"} => pub' = pri'
C21_PublicConvergesStep == [][ConvergeStep]_vars

\* diagnostic (expected to FAIL, see header): does the merged-queue design converge?
AsIs_PublicConverges == (alive /\ pubmq = <<>>) => pubm = pri
=============================================================================
