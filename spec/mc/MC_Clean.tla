------------------------------ MODULE MC_Clean ------------------------------
(* Model of Clean.tla for TLC.  The cfg sets MaxNodes (quick: 3, thorough: 4) *)
EXTENDS Clean
=============================================================================
