SPECIFICATION Spec
CONSTANTS
  W <- MCW1
  Scripts <- MCScripts
  SubmitFail <- MCSubmitFail
  Faults <- MCFaultsCrash
  StopAt <- NoStop
  CmdBudget = 2
  CmdKinds = {"trigger", "stopnow"}
  SetOuts = {"succeeded", "x", "failed", "started"}
INVARIANT TypeOK
INVARIANT C01_SubmitOnlyIfSatisfied
INVARIANT C01_OnSequenceInBounds
INVARIANT C02_RetryBound
INVARIANT C02_FailOutputOnlyWhenNoRetry
INVARIANT C03_ShutdownQuiescent
INVARIANT C03_StallIsReal
INVARIANT C04_ReleasedWithinLimit
INVARIANT C04_CachedLimitNotAhead
INVARIANT C04_MaxFutCacheNotAhead
INVARIANT C05_LimitRespected
INVARIANT C05_QueuedInOwnQueue
INVARIANT C07_PoolWithinBounds
INVARIANT C07_NoSubmitBeyondStop
INVARIANT C11_RetainedOnlyIfIncomplete
INVARIANT C31_NoOverlap
INVARIANT C31_NoClashAtPrepare
INVARIANT C26_QueuedFlagMatchesQueue
INVARIANT C09_ImpliedOutputs
PROPERTY C09_Lifecycle
PROPERTY C04_ReleaseStep
PROPERTY C04_ReleaseWithinFormula
INVARIANT C06_HeldNeverPrepared
INVARIANT C06_HoldListMatchesFlags
INVARIANT C06_BeyondHoldPointHeld
