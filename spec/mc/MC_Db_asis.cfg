\* C21 diagnostic: the merged-queue design of the public DAO (expected to violate AsIs_PublicConverges)
CONSTANTS
  OpMenu <- QMenu
  MaxOps = 4
  MaxBatch = 4
  MaxTries = 3
INIT Init
NEXT Next
INVARIANTS AsIs_PublicConverges
