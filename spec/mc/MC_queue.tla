------------------------------ MODULE MC_queue ------------------------------
(* three parentless tasks on two points, queue q1 (limit 1) = {a, b}, c in the default queue *)
EXTENDS Sched

At(t, off, out) == [k |-> "atom", t |-> t, off |-> off, abs |-> FALSE, out |-> out]
And(x, y) == [k |-> "and", a |-> x, b |-> y]
Or(x, y) == [k |-> "or", a |-> x, b |-> y]
Line(r, l, t) == [rec |-> r, lhs |-> l, rhs |-> t, suicide |-> FALSE]
OK == <<"started", "succeeded">>
KO == <<"started", "failed">>
OKX == <<"started", "x", "succeeded">>
NoStop == NoPoint

MCW == [ tasks |-> {"a", "b", "c"}, icp |-> 1, fcp |-> 2, start |-> 1,
  recs |-> << {1, 2} >>,
  lines |-> << Line(1, NoExpr, "a"),
             Line(1, NoExpr, "b"),
             Line(1, NoExpr, "c") >>,
  seqtasks |-> {}, req |-> [a |-> {"succeeded"}, b |-> {"succeeded"}, c |-> {"succeeded"}], customs |-> [a |-> {}, b |-> {}, c |-> {}],
  optsucc |-> {}, optsubfail |-> {}, optexp |-> {},
  eretry |-> [a |-> 0, b |-> 0, c |-> 0], sretry |-> [a |-> 0, b |-> 0, c |-> 0], queues |-> << [name |-> "q1", limit |-> 1, members |-> {"a", "b"}] >>, rhkind |-> "count", rhn |-> 1, hassuicide |-> FALSE ]
MCScripts == [a |-> {OK}, b |-> {OK, KO}, c |-> {OK}]
MCFaults == [dup |-> 0, reorder |-> FALSE, crash |-> 0, net |-> FALSE]
MCSubmitFail == {}

=============================================================================
