SPECIFICATION Spec
CONSTANTS
  W <- MCW1
  Scripts <- MCScripts
  SubmitFail <- MCSubmitFail
  Faults <- MCFaults
  StopAt <- NoStop
  CmdBudget = 2
  CmdKinds = {"trigger", "set"}
  SetOuts = {"succeeded", "x", "failed", "started"}
INVARIANT C26_QueuedFlagMatchesQueueStrict
