SPECIFICATION LiveSpec
CONSTANTS
  W <- MCW
  Scripts <- MCScripts
  SubmitFail <- MCSubmitFail
  Faults <- MCFaults
  StopAt <- NoStop
  CmdBudget = 0
  CmdKinds = {"hold", "release", "holdpt", "relall", "stoppt", "stopnow"}
  SetOuts = {}
INVARIANT TypeOK
INVARIANT C01_SubmitOnlyIfSatisfied
INVARIANT C01_OnSequenceInBounds
INVARIANT C02_RetryBound
INVARIANT C02_NoDuplicateSubmitNum
INVARIANT C02_FailOutputOnlyWhenNoRetry
INVARIANT C03_ShutdownQuiescent
INVARIANT C03_StallIsReal
INVARIANT C04_ReleasedWithinLimit
INVARIANT C04_CachedLimitNotAhead
INVARIANT C05_LimitRespected
INVARIANT C05_QueuedInOwnQueue
INVARIANT C07_PoolWithinBounds
INVARIANT C07_NoSubmitBeyondStop
INVARIANT C11_RetainedOnlyIfIncomplete
INVARIANT C31_NoOverlap
INVARIANT C31_NoClashAtPrepare
INVARIANT C26_QueuedFlagMatchesQueue
INVARIANT C09_ImpliedOutputsSettled
PROPERTY Terminates
