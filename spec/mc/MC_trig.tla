------------------------------ MODULE MC_trig ------------------------------
(* a => b on two points, both in queue q1 (limit 1), b may fail (retained incomplete, can be re-triggered), b has *)
(* a custom output; operator commands: cylc trigger <pooled task>, cylc set --out=<output> <pooled task>        *)
EXTENDS Sched

At(t, off, out) == [k |-> "atom", t |-> t, off |-> off, abs |-> FALSE, out |-> out]
And(x, y) == [k |-> "and", a |-> x, b |-> y]
Or(x, y) == [k |-> "or", a |-> x, b |-> y]
Line(r, l, t) == [rec |-> r, lhs |-> l, rhs |-> t, suicide |-> FALSE]
OK == <<"started", "succeeded">>
KO == <<"started", "failed">>
OKX == <<"started", "x", "succeeded">>
NoStop == NoPoint

MCW == [ tasks |-> {"a", "b"}, icp |-> 1, fcp |-> 2, start |-> 1,
  recs |-> << {1, 2} >>,
  lines |-> << Line(1, NoExpr, "a"),
             Line(1, At("a", 0, "succeeded"), "b") >>,
  seqtasks |-> {}, req |-> [a |-> {"succeeded"}, b |-> {"succeeded"}], customs |-> [a |-> {}, b |-> {"x"}],
  optsucc |-> {}, optsubfail |-> {}, optexp |-> {},
  eretry |-> [a |-> 0, b |-> 1], sretry |-> [a |-> 0, b |-> 0], queues |-> << [name |-> "q1", limit |-> 1, members |-> {"a", "b"}] >>, rhkind |-> "count", rhn |-> 1, hassuicide |-> FALSE ]
(* the same on a single point, for two commands per behaviour *)
MCW1 == [MCW EXCEPT !.fcp = 1, !.recs = << {1} >>]
MCScripts == [a |-> {OK}, b |-> {OKX, KO}]
MCFaults == [dup |-> 0, reorder |-> FALSE, crash |-> 0, net |-> FALSE]
MCFaultsCrash == [dup |-> 0, reorder |-> FALSE, crash |-> 1, net |-> FALSE]
MCSubmitFail == {}
=============================================================================
