----------------------------- MODULE MC_Install -----------------------------
(* Model of Install.tla for TLC: histories of at most MaxOps operations with *)
(* one (quick) or two (thorough) explicit run names.  The cfg sets MaxOps    *)
(* (quick: 4, thorough: 5) and RunNames.                                     *)
EXTENDS Install
MCRunNames1 == {"a"}
MCRunNames2 == {"a", "b"}
=============================================================================
