----------------------------- MODULE MC_Install -----------------------------
(* Model of Install.tla for TLC: histories of at most MaxOps operations with *)
(* one (quick) or two (thorough) explicit run names.  The cfg sets MaxOps    *)
(* (quick: 4, thorough: 5) and RunNames.                                     *)
EXTENDS Install
MCRunNames1 == {"a"}
MCRunNames2 == {"a", "b"}
\* start states: a fresh directory, and one in which run9, run10, run11 exist (one-digit next to two-digit numbers)
MCPriors == {{}, {9, 10, 11}}
=============================================================================
