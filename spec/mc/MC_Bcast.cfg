\* quick: exhaustive over 3 operations
CONSTANTS
  MaxOps = 3
  PutPoints <- QPutPoints
  PutNS <- QPutNS
  PutSettings <- QPutSettings
  ClrPoints <- QClrPoints
  ClrNS <- QClrNS
  ClrKeys <- QClrKeys
  Cutoffs <- QCutoffs
INIT Init
NEXT Next
INVARIANTS TypeOK C22_Precedence C22_RestartIdentical
PROPERTIES C22_ClearExact C22_ExpireOnlyEarlierCycle C22_RestartIdenticalStep PutExact
