\* thorough: larger menus, 3 operations
CONSTANTS
  MaxOps = 3
  PutPoints <- TPutPoints
  PutNS <- TPutNS
  PutSettings <- TPutSettings
  ClrPoints <- TClrPoints
  ClrNS <- TClrNS
  ClrKeys <- TClrKeys
  Cutoffs <- TCutoffs
INIT Init
NEXT Next
INVARIANTS TypeOK C22_Precedence C22_RestartIdentical
PROPERTIES C22_ClearExact C22_ExpireOnlyEarlierCycle C22_RestartIdenticalStep PutExact
