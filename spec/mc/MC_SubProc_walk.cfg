\* C42 replay model: 2 commands; state graph dumped and edge-covered
CONSTANTS
  NCmds = 2
  Sizes = {1, 2}
INIT Init
NEXT Next
INVARIANTS TypeOK C42_ExactlyOneCallback C42_DrainedAllCalledBack C42_SizeBound
PROPERTIES C42_NoSubmitWhenStopping
