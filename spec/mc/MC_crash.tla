------------------------------ MODULE MC_crash ------------------------------
(* MC_runahead workflow, 3 points: the scheduler process may die once at any moment (nothing committed since the last Commit) and is restarted from the database; polls report what the jobs did meanwhile *)
EXTENDS Sched

At(t, off, out) == [k |-> "atom", t |-> t, off |-> off, abs |-> FALSE, out |-> out]
And(x, y) == [k |-> "and", a |-> x, b |-> y]
Or(x, y) == [k |-> "or", a |-> x, b |-> y]
Line(r, l, t) == [rec |-> r, lhs |-> l, rhs |-> t, suicide |-> FALSE]
OK == <<"started", "succeeded">>
KO == <<"started", "failed">>
OKX == <<"started", "x", "succeeded">>
NoStop == NoPoint

MCW == [ tasks |-> {"a", "b"}, icp |-> 1, fcp |-> 2, start |-> 1,
  recs |-> << {1, 2}, {1} >>,
  lines |-> << Line(1, NoExpr, "a"),
             Line(1, At("a", -1, "succeeded"), "a"),
             Line(2, At("a", 0, "succeeded"), "b") >>,
  seqtasks |-> {}, req |-> [a |-> {"succeeded"}, b |-> {"succeeded"}], customs |-> [a |-> {}, b |-> {}],
  optsucc |-> {}, optsubfail |-> {}, optexp |-> {},
  eretry |-> [a |-> 0, b |-> 0], sretry |-> [a |-> 0, b |-> 0], queues |-> <<>>, rhkind |-> "count", rhn |-> 1, hassuicide |-> FALSE ]
MCScripts == [a |-> {OK}, b |-> {OK}]
MCFaults == [dup |-> 0, reorder |-> FALSE, crash |-> 1, net |-> TRUE]
MCSubmitFail == {}
Stop4 == 4

=============================================================================
