SPECIFICATION Spec
CONSTANTS
  Umasks <- MCUmasks
  Variants <- MCVariants
INVARIANTS
  TypeOK
  C44_PrivateAfterStartup
  C44_KeysNeverLoose
  UmaskRestored
  Terminal
