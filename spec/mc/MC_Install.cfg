SPECIFICATION Spec
CONSTANTS
  MaxOps = 4
  RunNames <- MCRunNames1
  Priors <- MCPriors
INVARIANTS
  TypeOK
  Exclusive
  C48_RunNState
  C48_NextIsFree
PROPERTIES
  C48_NeverOverwrite
  C48_NumberFresh
  C48_RunNIsLatest
  C48_SuccessiveInstalls
