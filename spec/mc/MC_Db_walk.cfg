\* C21 replay model: 2 operations; state graph dumped and edge-covered
CONSTANTS
  OpMenu <- QMenu
  MaxOps = 2
  MaxBatch = 2
  MaxTries = 3
INIT Init
NEXT Next
INVARIANTS TypeOK C21_PublicConverges
PROPERTIES C21_PrivateAtomic C21_BatchRetried C21_PublicConvergesStep
