------------------------------ MODULE MC_cmds ------------------------------
(* MC_runahead workflow (4 points) with operator commands: hold, release, hold point, release all, stop point *)
EXTENDS Sched

At(t, off, out) == [k |-> "atom", t |-> t, off |-> off, abs |-> FALSE, out |-> out]
And(x, y) == [k |-> "and", a |-> x, b |-> y]
Or(x, y) == [k |-> "or", a |-> x, b |-> y]
Line(r, l, t) == [rec |-> r, lhs |-> l, rhs |-> t, suicide |-> FALSE]
OK == <<"started", "succeeded">>
KO == <<"started", "failed">>
OKX == <<"started", "x", "succeeded">>
NoStop == NoPoint

MCW == [ tasks |-> {"a", "b"}, icp |-> 1, fcp |-> 4, start |-> 1,
  recs |-> << {1, 2, 3, 4}, {1, 3} >>,
  lines |-> << Line(1, NoExpr, "a"),
             Line(1, At("a", -1, "succeeded"), "a"),
             Line(2, At("a", 0, "succeeded"), "b") >>,
  seqtasks |-> {}, req |-> [a |-> {"succeeded"}, b |-> {"succeeded"}], customs |-> [a |-> {}, b |-> {}],
  optsucc |-> {}, optsubfail |-> {}, optexp |-> {},
  eretry |-> [a |-> 0, b |-> 0], sretry |-> [a |-> 0, b |-> 0], queues |-> <<>>, rhkind |-> "count", rhn |-> 1, hassuicide |-> FALSE ]
MCScripts == [a |-> {OK}, b |-> {OK}]
MCFaults == [dup |-> 0, reorder |-> FALSE, crash |-> 0, net |-> FALSE]
MCSubmitFail == {}
Stop4 == 4

=============================================================================
