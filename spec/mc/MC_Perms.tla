------------------------------ MODULE MC_Perms ------------------------------
(* Model of Perms.tla for TLC: all 512 umasks x the three start-up variants. *)
EXTENDS Perms
MCUmasks == 0..511
MCVariants == {"fresh", "restart", "restart_loose"}
=============================================================================
