------------------------------ MODULE MC_seq ------------------------------
(* sequential task s on P1 (3 points) with a parentless feeder a; runahead P2 *)
EXTENDS Sched

At(t, off, out) == [k |-> "atom", t |-> t, off |-> off, abs |-> FALSE, out |-> out]
And(x, y) == [k |-> "and", a |-> x, b |-> y]
Or(x, y) == [k |-> "or", a |-> x, b |-> y]
Line(r, l, t) == [rec |-> r, lhs |-> l, rhs |-> t, suicide |-> FALSE]
OK == <<"started", "succeeded">>
KO == <<"started", "failed">>
OKX == <<"started", "x", "succeeded">>
NoStop == NoPoint

MCW == [ tasks |-> {"a", "s"}, icp |-> 1, fcp |-> 3, start |-> 1,
  recs |-> << {1, 2, 3} >>,
  lines |-> << Line(1, NoExpr, "a"),
             Line(1, At("a", 0, "succeeded"), "s") >>,
  seqtasks |-> {"s"}, req |-> [a |-> {"succeeded"}, s |-> {"succeeded"}], customs |-> [a |-> {}, s |-> {}],
  optsucc |-> {}, optsubfail |-> {}, optexp |-> {},
  eretry |-> [a |-> 0, s |-> 1], sretry |-> [a |-> 0, s |-> 0], queues |-> <<>>, rhkind |-> "count", rhn |-> 2, hassuicide |-> FALSE ]
MCScripts == [a |-> {OK}, s |-> {OK, KO}]
MCFaults == [dup |-> 0, reorder |-> FALSE, crash |-> 0, net |-> FALSE]
MCSubmitFail == {}

=============================================================================
