-------------------------------- MODULE MC_Db --------------------------------
(* Model-checking constants for Db.tla (C21).  Three tables as the scheduler  *)
(* uses them: POOL (task_pool: wiped and re-inserted), STATES (task_states:   *)
(* inserted, then updated), BCAST (broadcast_states: inserted, deleted by     *)
(* key).  Keys a, b; values 1, 2.                                             *)
EXTENDS Db

QMenu == { DelAll("POOL"), Ins("POOL", "a", 1), Ins("POOL", "b", 2),
           Ins("STATES", "a", 1), Upd("STATES", "a", 2),
           Ins("BCAST", "a", 1), Del("BCAST", "a") }
TMenu == QMenu \cup { Ins("POOL", "a", 2), Upd("STATES", "b", 2), Ins("STATES", "b", 1),
                      Ins("BCAST", "a", 2), Ins("BCAST", "b", 1), Del("BCAST", "b") }
=============================================================================
