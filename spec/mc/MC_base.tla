------------------------------ MODULE MC_base ------------------------------
(* P1: a => b ; b[-P1] => b ; a:x? | a:fail? ... small graphs covering parentless release at the  *)
(* runahead limit, an inter-cycle dependency, an OR join and an optional-failure branch.          *)
EXTENDS Sched

At(t, off, out) == [k |-> "atom", t |-> t, off |-> off, abs |-> FALSE, out |-> out]
And(x, y) == [k |-> "and", a |-> x, b |-> y]
Or(x, y) == [k |-> "or", a |-> x, b |-> y]
Line(r, l, t) == [rec |-> r, lhs |-> l, rhs |-> t, suicide |-> FALSE]

MCW == [ tasks |-> {"a", "b", "c"}, icp |-> 1, fcp |-> 2, start |-> 1,
         recs |-> << {1, 2} >>,
         lines |-> << Line(1, NoExpr, "a"),
                      Line(1, And(At("a", 0, "succeeded"), At("b", -1, "succeeded")), "b"),
                      Line(1, Or(At("a", 0, "failed"), At("b", 0, "succeeded")), "c") >>,
         seqtasks |-> {},
         req |-> [a |-> {}, b |-> {"succeeded"}, c |-> {"succeeded"}],
         customs |-> [a |-> {}, b |-> {}, c |-> {}],
         optsucc |-> {"a"}, optsubfail |-> {}, optexp |-> {},
         eretry |-> [a |-> 0, b |-> 1, c |-> 0], sretry |-> [a |-> 0, b |-> 0, c |-> 0],
         queues |-> <<>>, rhkind |-> "count", rhn |-> 1, hassuicide |-> FALSE ]

OK == <<"started", "succeeded">>
KO == <<"started", "failed">>
MCScripts == [a |-> {OK, KO}, b |-> {OK, KO}, c |-> {OK}]
MCFaults == [dup |-> 0, reorder |-> FALSE, crash |-> 0, net |-> FALSE]
NoStop == NoPoint
MCSubmitFail == {}
=============================================================================
