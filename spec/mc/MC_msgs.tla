------------------------------ MODULE MC_msgs ------------------------------
(* a => b, one point: every delivery order, duplication (2) and reordering of job messages *)
EXTENDS Sched

At(t, off, out) == [k |-> "atom", t |-> t, off |-> off, abs |-> FALSE, out |-> out]
And(x, y) == [k |-> "and", a |-> x, b |-> y]
Or(x, y) == [k |-> "or", a |-> x, b |-> y]
Line(r, l, t) == [rec |-> r, lhs |-> l, rhs |-> t, suicide |-> FALSE]
OK == <<"started", "succeeded">>
KO == <<"started", "failed">>
OKX == <<"started", "x", "succeeded">>
NoStop == NoPoint

MCW == [ tasks |-> {"a", "b"}, icp |-> 1, fcp |-> 1, start |-> 1,
  recs |-> << {1} >>,
  lines |-> << Line(1, NoExpr, "a"),
             Line(1, At("a", 0, "succeeded"), "b") >>,
  seqtasks |-> {}, req |-> [a |-> {"succeeded"}, b |-> {"succeeded"}], customs |-> [a |-> {}, b |-> {}],
  optsucc |-> {}, optsubfail |-> {}, optexp |-> {},
  eretry |-> [a |-> 1, b |-> 0], sretry |-> [a |-> 0, b |-> 0], queues |-> <<>>, rhkind |-> "count", rhn |-> 1, hassuicide |-> FALSE ]
MCScripts == [a |-> {OK, KO}, b |-> {OK}]
MCFaults == [dup |-> 2, reorder |-> TRUE, crash |-> 0, net |-> TRUE]
MCSubmitFail == {}

=============================================================================
