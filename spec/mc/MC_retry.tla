------------------------------ MODULE MC_retry ------------------------------
(* one task with 2 execution retries and 1 submission retry; submit failures, failures, duplicated and reordered messages *)
EXTENDS Sched

At(t, off, out) == [k |-> "atom", t |-> t, off |-> off, abs |-> FALSE, out |-> out]
And(x, y) == [k |-> "and", a |-> x, b |-> y]
Or(x, y) == [k |-> "or", a |-> x, b |-> y]
Line(r, l, t) == [rec |-> r, lhs |-> l, rhs |-> t, suicide |-> FALSE]
OK == <<"started", "succeeded">>
KO == <<"started", "failed">>
OKX == <<"started", "x", "succeeded">>
NoStop == NoPoint

MCW == [ tasks |-> {"a"}, icp |-> 1, fcp |-> 1, start |-> 1,
  recs |-> << {1} >>,
  lines |-> << Line(1, NoExpr, "a") >>,
  seqtasks |-> {}, req |-> [a |-> {"succeeded"}], customs |-> [a |-> {}],
  optsucc |-> {}, optsubfail |-> {}, optexp |-> {},
  eretry |-> [a |-> 2], sretry |-> [a |-> 1], queues |-> <<>>, rhkind |-> "count", rhn |-> 1, hassuicide |-> FALSE ]
MCScripts == [a |-> {OK, KO}]
MCFaults == [dup |-> 1, reorder |-> TRUE, crash |-> 0, net |-> TRUE]
MCSubmitFail == {"a"}

=============================================================================
