SPECIFICATION Spec
CONSTANTS
  MaxNodes = 3
  WNames = {"work"}
  AllDirOnly = FALSE
  Roots = {"real", "std"}
INVARIANTS
  C38_OnlyInside
  C38_NoFollowOtherLinks
  C38_AllMatchesGone
  WholesaleAll
  NoMatchNothing
  MatchedIsDefinition
