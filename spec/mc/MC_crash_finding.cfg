SPECIFICATION Spec
CONSTANTS
  W <- MCW
  Scripts <- MCScripts
  SubmitFail <- MCSubmitFail
  Faults <- MCFaults
  StopAt <- NoStop
  CmdBudget = 0
  CmdKinds = {"hold", "release", "holdpt", "relall", "stoppt", "stopnow"}
  SetOuts = {}
\* EXPECTED TO FAIL: the known finding C20_NoDuplicateSubmitNum_UncommittedLaunch - a crash after a job was
\* prepared and launched but before the next commit makes the restarted scheduler use the same submit number again
INVARIANT C02_NoDuplicateSubmitNum
