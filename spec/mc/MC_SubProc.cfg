\* C42 quick + replay model: 3 commands of any kind, pool size 1 or 2
CONSTANTS
  NCmds = 3
  Sizes = {1, 2}
SPECIFICATION Spec
INVARIANTS TypeOK C42_ExactlyOneCallback C42_DrainedAllCalledBack C42_SizeBound
PROPERTIES C42_NoSubmitWhenStopping C42_EventuallyCallback
