\* C21 thorough: 13-op menu
CONSTANTS
  OpMenu <- TMenu
  MaxOps = 4
  MaxBatch = 4
  MaxTries = 3
INIT Init
NEXT Next
INVARIANTS TypeOK C21_PublicConverges
PROPERTIES C21_PrivateAtomic C21_BatchRetried C21_PublicConvergesStep
