\* C21 quick: every history of <= 4 queued operations (7-op menu), batches of <= 4, every failure / crash position
CONSTANTS
  OpMenu <- QMenu
  MaxOps = 4
  MaxBatch = 4
  MaxTries = 3
INIT Init
NEXT Next
INVARIANTS TypeOK C21_PublicConverges
PROPERTIES C21_PrivateAtomic C21_BatchRetried C21_PublicConvergesStep
