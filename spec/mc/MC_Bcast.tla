------------------------------ MODULE MC_Bcast ------------------------------
(* Model-checking constants for Bcast.tla (C22).                            *)
(* A setting dictionary is written path -> value; the replay harness sends  *)
(* it as ONE nested dictionary (so a multi-leaf one is a multi-key dict).   *)
EXTENDS Bcast

SCRIPT == <<"script">>
ENVA == <<"environment", "A">>
ENVB == <<"environment", "B">>

S_script_x == << (SCRIPT :> "x") >>
S_script_y == << (SCRIPT :> "y") >>
S_envA_x   == << (ENVA :> "x") >>
S_envB_y   == << (ENVB :> "y") >>
\* one dictionary with two keys at the second level: {environment: {A: y, B: x}} (API form)
S_envAB    == << (ENVA :> "y" @@ ENVB :> "x") >>
\* the same as two single-key dictionaries (CLI form: one -s per item)
S_envA_envB == << (ENVA :> "y"), (ENVB :> "x") >>
\* one dictionary with two keys at the first level: {script: y, environment: {A: x}}
S_script_envA == << (SCRIPT :> "y" @@ ENVA :> "x") >>
\* everything at once
S_all3     == << (SCRIPT :> "x" @@ ENVA :> "x" @@ ENVB :> "y") >>
\* the same leaf twice in one request: the later wins
S_twice    == << (SCRIPT :> "y"), (SCRIPT :> "x") >>

QPutSettings == {S_script_x, S_envA_x, S_envAB, S_envA_envB, S_script_envA}
TPutSettings == QPutSettings \cup {S_script_y, S_envB_y, S_all3, S_twice}

QPutPoints == {{"ALL"}, {"P1"}, {"P1", "P2"}}
TPutPoints == {{"ALL"}, {"P1"}, {"P2"}, {"P1", "P2"}, {"ALL", "P2"}}
QPutNS == {{"root"}, {"t"}, {"FAM", "t"}}
TPutNS == {{"root"}, {"FAM"}, {"t"}, {"FAM", "t"}, {"root", "FAM", "t"}}

QClrPoints == {{}, {"P1"}, {"ALL"}}
TClrPoints == {{}, {"P1"}, {"P2"}, {"ALL"}, {"P1", "ALL"}}
QClrNS == {{}, {"root"}}
TClrNS == {{}, {"root"}, {"t"}, {"FAM", "t"}}
QClrKeys == {{}, {ENVA}, {SCRIPT, ENVB}}
TClrKeys == QClrKeys \cup {{SCRIPT}, {ENVA, ENVB}}
QCutoffs == {2, 3}
TCutoffs == {1, 2, 3}
=============================================================================
