\* C42 thorough: 4 commands (safety only; liveness is checked on the 3-command model)
CONSTANTS
  NCmds = 4
  Sizes = {1, 2}
INIT Init
NEXT Next
INVARIANTS TypeOK C42_ExactlyOneCallback C42_DrainedAllCalledBack C42_SizeBound
PROPERTIES C42_NoSubmitWhenStopping
