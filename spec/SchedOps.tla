------------------------------ MODULE SchedOps ------------------------------
(***************************************************************************)
(* Step functions of the scheduler core, as pure operators over abstract   *)
(* task records.  They are the single source of truth used twice:          *)
(*   - by Sched.tla, whose actions apply them to the model state, and      *)
(*   - by SchedTrace.tla, whose Conf_* clauses compare every logged step   *)
(*     of the real scheduler with the value the operator predicts.         *)
(* Each operator cites the cylc code it mirrors.                           *)
(***************************************************************************)
EXTENDS Graph

(* Order used by cylc for "would move the status backwards" (task_state.py *)
(* TASK_STATUSES_ORDERED).                                                 *)
Rank(s) == CASE s = "waiting" -> 0 [] s = "expired" -> 1 [] s = "preparing" -> 2
             [] s = "submit-failed" -> 3 [] s = "submitted" -> 4 [] s = "running" -> 5
             [] s = "failed" -> 6 [] s = "succeeded" -> 7 [] OTHER -> -1

StdOuts == {"submitted", "started", "succeeded", "failed", "submit-failed", "expired"}

(* Outputs implied by a message (TaskOutputs.get_incomplete_implied).      *)
Implied(m) == CASE m \in {"succeeded", "failed"} -> <<"submitted", "started">>
                [] m = "started" -> <<"submitted">>
                [] OTHER -> <<>>

(* ----- abstract task record used by the step functions:                   *)
(*   [st, outs, sub, efail, sfail]   efail/sfail = retries already consumed *)

(* TaskEventsManager._process_message_check: is the message processed at all? *)
Accepted(r, m, flag, msub) ==
  /\ ~(flag = "received" /\ msub # r.sub)                  \* message of an older job
  /\ ~(r.st = "waiting" /\ m # "expired" /\ (r.efail > 0 \/ r.sfail > 0))   \* a retry is lined up

(* The by-message branch of process_message (the output itself was already *)
(* marked complete by the caller, except failed / submit-failed).           *)
(* Returns [r, ret, fired]; fired = outputs whose children are spawned.     *)
Branch(W, nm, r, m, flag, newly) ==
  CASE m = "started" ->
            IF flag = "received" /\ Rank(r.st) > Rank("running")
            THEN [r |-> r, ret |-> "poll", fired |-> {}]
            ELSE [r |-> [r EXCEPT !.st = "running", !.sfail = 0], ret |-> "done", fired |-> {"started"}]
       [] m = "succeeded" ->
            [r |-> [r EXCEPT !.st = "succeeded"], ret |-> "done", fired |-> {"succeeded"}]
       [] m = "failed" ->
            IF flag = "received" /\ Rank(r.st) > Rank("failed")
            THEN [r |-> r, ret |-> "poll", fired |-> {}]
            ELSE IF r.efail < W.eretry[nm]
                 THEN [r |-> [r EXCEPT !.st = "waiting", !.efail = @ + 1], ret |-> "done", fired |-> {}]
                 ELSE [r |-> [r EXCEPT !.st = "failed", !.outs = @ \cup {"failed"}], ret |-> "done", fired |-> {"failed"}]
       [] m = "submit-failed" ->
            IF flag = "received" /\ Rank(r.st) > Rank("submit-failed")
            THEN [r |-> r, ret |-> "poll", fired |-> {}]
            ELSE IF r.sfail < W.sretry[nm]
                 THEN [r |-> [r EXCEPT !.st = "waiting", !.sfail = @ + 1], ret |-> "done", fired |-> {}]
                 ELSE [r |-> [r EXCEPT !.st = "submit-failed", !.outs = @ \cup {"submit-failed"}],
                       ret |-> "done", fired |-> {"submit-failed"}]
       [] m = "submitted" ->
            IF flag = "received" /\ Rank(r.st) >= Rank("submitted")
            THEN [r |-> r, ret |-> "poll", fired |-> {}]
            ELSE [r |-> [r EXCEPT !.st = IF @ = "preparing" THEN "submitted" ELSE @],
                  ret |-> "done", fired |-> {"submitted"}]
       [] OTHER ->   \* custom output message (or a non-output message: logged only)
            [r |-> r, ret |-> "done", fired |-> IF newly /\ m \in W.customs[nm] THEN {m} ELSE {}]

IsOutput(W, nm, m) == m \in StdOuts \/ m \in W.customs[nm]
Mark(W, nm, r, m) == IF m \notin {"failed", "submit-failed"} /\ IsOutput(W, nm, m)
                     THEN [r EXCEPT !.outs = @ \cup {m}] ELSE r

(* implied outputs are processed first, as internal messages, in order      *)
RECURSIVE ApplyImplied(_, _, _, _, _)
ApplyImplied(W, nm, acc, ms, k) ==
  IF k > Len(ms) THEN acc
  ELSE IF ms[k] \in acc.r.outs THEN ApplyImplied(W, nm, acc, ms, k + 1)
  ELSE LET s == Branch(W, nm, Mark(W, nm, acc.r, ms[k]), ms[k], "internal", TRUE)
       IN ApplyImplied(W, nm, [r |-> s.r, fired |-> acc.fired \cup s.fired], ms, k + 1)

(* TaskEventsManager.process_message for a pooled, non-forced message       *)
MsgEffect(W, nm, r, m, flag, msub) ==
  IF ~Accepted(r, m, flag, msub) THEN [r |-> r, ret |-> "done", fired |-> {}, accepted |-> FALSE]
  ELSE LET newly == m \notin r.outs
           imp == ApplyImplied(W, nm, [r |-> Mark(W, nm, r, m), fired |-> {}], Implied(m), 1)
           s == Branch(W, nm, imp.r, m, flag, newly)
       IN [r |-> s.r, ret |-> s.ret, fired |-> imp.fired \cup s.fired, accepted |-> TRUE]

(* process_message(..., forced=True), as "cylc set --out" calls it: no acceptance check, no job bookkeeping; *)
(* a forced change to submitted / running is refused by TaskState.reset (there is no job), failure is final  *)
(* whatever retries remain, "submitted" and "submit-failed" only spawn the children of the output.            *)
ForcedBranch(W, nm, r, m, newly) ==
  CASE m = "started"       -> [r |-> [r EXCEPT !.sfail = 0], fired |-> {"started"}]
    [] m = "succeeded"     -> [r |-> [r EXCEPT !.st = "succeeded"], fired |-> {"succeeded"}]
    [] m = "failed"        -> [r |-> [r EXCEPT !.st = "failed", !.outs = @ \cup {"failed"}], fired |-> {"failed"}]
    [] m = "expired"       -> [r |-> [r EXCEPT !.st = "expired"], fired |-> {"expired"}]
    [] m = "submitted"     -> [r |-> r, fired |-> {"submitted"}]
    [] m = "submit-failed" -> [r |-> r, fired |-> {"submit-failed"}]
    [] OTHER               -> [r |-> r, fired |-> IF newly /\ m \in W.customs[nm] THEN {m} ELSE {}]
RECURSIVE ApplyImpliedForced(_, _, _, _, _)
ApplyImpliedForced(W, nm, acc, ms, k) ==
  IF k > Len(ms) THEN acc
  ELSE IF ms[k] \in acc.r.outs THEN ApplyImpliedForced(W, nm, acc, ms, k + 1)
  ELSE LET s == ForcedBranch(W, nm, Mark(W, nm, acc.r, ms[k]), ms[k], TRUE)
       IN ApplyImpliedForced(W, nm, [r |-> s.r, fired |-> acc.fired \cup s.fired], ms, k + 1)
ForcedEffect(W, nm, r, m) ==
  LET newly == m \notin r.outs
      imp == ApplyImpliedForced(W, nm, [r |-> Mark(W, nm, r, m), fired |-> {}], Implied(m), 1)
      s == ForcedBranch(W, nm, imp.r, m, newly)
  IN [r |-> s.r, fired |-> imp.fired \cup s.fired]

(* ----- queue release (IndepQueueManager.release_tasks / LimitedTaskQueue.release) *)
(* qseq: Seq(id) in FIFO order; nActive: active members now; held: set of held ids *)
RECURSIVE QRel(_, _, _, _, _)
QRel(qseq, k, room, held, acc) ==
  IF k > Len(qseq) \/ room <= 0 THEN acc
  ELSE IF qseq[k] \in held THEN QRel(qseq, k + 1, room, held, acc)
  ELSE QRel(qseq, k + 1, room - 1, held, Append(acc, qseq[k]))
QueueRelease(qseq, limit, nActive, held) ==
  IF limit = 0 THEN SelectSeq(qseq, LAMBDA i : i \notin held)
  ELSE QRel(qseq, 1, limit - nActive, held, <<>>)

(* ----- a new proxy (TaskPool.spawn_task / TaskState._add_prerequisites)   *)
AllAtomKeys(W, t, p) == {AtomKey(W, a, p) : a \in UNION {Atoms(L.lhs) : L \in Deps(W, t, p)}}
InitSatKeys(W, t, p) ==
  {AtomKey(W, a, p) : a \in {b \in UNION {Atoms(L.lhs) : L \in Deps(W, t, p)} : InitSat(W, b, p)}}
  \cup (IF t \in W.seqtasks /\ PrevPoint(W, t, p) # NoPoint /\ PrevPoint(W, t, p) < W.start
        THEN {<<t, PrevPoint(W, t, p), "succeeded">>} ELSE {})

(* prerequisites of t at p all satisfied, given the set of satisfied atom keys *)
PrereqsOK(W, t, p, sat) ==
  /\ \A L \in Deps(W, t, p) : Eval(L.lhs, {a \in Atoms(L.lhs) : AtomKey(W, a, p) \in sat})
  /\ (t \in W.seqtasks /\ PrevPoint(W, t, p) # NoPoint) => <<t, PrevPoint(W, t, p), "succeeded">> \in sat
=============================================================================
