SPECIFICATION Spec
CONSTANTS
  FullOps = FALSE
INVARIANT Coherent
INVARIANT NoCalls
