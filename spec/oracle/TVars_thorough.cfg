SPECIFICATION Spec
CONSTANT StrLen = 3
CONSTANT Deep = TRUE
INVARIANT Sane
