----------------------------- MODULE Platforms -----------------------------
(* C47 oracle: platform name resolution, host selection and platform-group   *)
(* selection in the presence of unreachable ("bad") hosts.                   *)
(*                                                                           *)
(* Documented meaning (global.cylc [platforms] / [platform groups]):         *)
(*  - a platform name resolves to the LAST-defined platform whose name       *)
(*    pattern (regular expression, or comma separated list of such) FULLY    *)
(*    matches it; if none matches, the lookup fails;                         *)
(*  - a platform with no "hosts" has the platform name as its only host;     *)
(*  - host selection returns a host of the platform that is not known to be  *)
(*    unreachable ("random": any such host, "definition order": the first    *)
(*    such host); only if none remains a no-hosts error is raised;           *)
(*  - group selection returns a member platform that still has a reachable   *)
(*    host ("random": any, "definition order": the first such member); only  *)
(*    if none remains a no-platforms error is raised.                        *)
(*                                                                           *)
(* Name patterns are modelled by the set of query names they match (PatMatch *)
(* is written from the regex / comma-list semantics, not computed by `re`).  *)
EXTENDS Naturals, Sequences, FiniteSets, TLC

Hosts == {"h1", "h2", "h3"}
Q     == {"p1", "p2", "p3", "p12", "q"}        \* names that are looked up
Methods == {"random", "definition order"}

\* pattern text (as written in the section heading)  ->  names in Q it fully matches
PatMatch(p) ==
  CASE p = "p1"          -> {"p1"}
    [] p = "p2"          -> {"p2"}
    [] p = "p3"          -> {"p3"}
    [] p = "p1, p2"      -> {"p1", "p2"}                 \* comma list
    [] p = "p2 ,p3"      -> {"p2", "p3"}                 \* comma list, odd spacing
    [] p = "p\\d"        -> {"p1", "p2", "p3"}           \* one digit
    [] p = "p\\d+"       -> {"p1", "p2", "p3", "p12"}
    [] p = "p1.+"        -> {"p12"}                      \* p1 followed by something: not p1 itself
    [] p = "p(1|3)"      -> {"p1", "p3"}
    [] p = "p(2|3)"      -> {"p2", "p3"}
    [] p = "p.*"         -> {"p1", "p2", "p3", "p12"}
    [] p = "p\\d{1,2}"   -> {"p1", "p2", "p3", "p12"}    \* the comma is part of the quantifier
    [] p = "q, p1\\d"    -> {"q", "p12"}                 \* list mixing a literal and a regex
    [] p = "p"           -> {}                           \* prefix of every p-name: full match required

ResolvePats == {"p1", "p2", "p1, p2", "p2 ,p3", "p\\d", "p\\d+", "p1.+", "p(1|3)", "p.*", "p\\d{1,2}",
                "q, p1\\d", "p"}

Range(s) == {s[i] : i \in 1..Len(s)}
Max(S) == CHOOSE x \in S : \A y \in S : y <= x
Min(S) == CHOOSE x \in S : \A y \in S : x <= y

InjSeqs(S, maxlen) ==
  UNION { {s \in [1..k -> S] : \A i, j \in 1..k : i # j => s[i] # s[j]} : k \in 1..maxlen }

\* ------------------------------------------------------------ semantics
\* index of the definition a name resolves to (0 = no matching platform)
Resolve(name, defs) ==
  LET M == {i \in 1..Len(defs) : name \in PatMatch(defs[i].pat)}
  IN IF M = {} THEN 0 ELSE Max(M)

HostList(name, defs) ==
  LET d == defs[Resolve(name, defs)] IN IF d.hosts = <<>> THEN <<name>> ELSE d.hosts

AllowedHosts(hosts, bad) == {h \in Range(hosts) : h \notin bad}
FirstAllowed(hosts, bad) == hosts[Min({i \in 1..Len(hosts) : hosts[i] \notin bad})]

AllowedPlatforms(members, defs, bad) ==
  {m \in Range(members) : AllowedHosts(HostList(m, defs), bad) # {}}
FirstAllowedPlatform(members, defs, bad) ==
  members[Min({i \in 1..Len(members) : AllowedHosts(HostList(members[i], defs), bad) # {}})]

\* what host selection on platform `name` may return
HostSel(name, defs, bad) ==
  LET hl == HostList(name, defs)
      d  == defs[Resolve(name, defs)]
      ok == AllowedHosts(hl, bad)
  IN [def   |-> Resolve(name, defs),
      hosts |-> hl,
      allowed |-> ok,
      herr  |-> ok = {},
      first |-> IF ok # {} /\ d.method = "definition order" THEN FirstAllowed(hl, bad) ELSE ""]

NoGroup == [members |-> <<>>, method |-> "random"]

Expected(c) ==
  IF c.query = "g" THEN
     LET ok == AllowedPlatforms(c.group.members, c.defs, c.bad) IN
     [perr   |-> IF ok = {} THEN "NoPlatformsError" ELSE "none",
      plats  |-> ok,
      pfirst |-> IF ok # {} /\ c.group.method = "definition order"
                 THEN FirstAllowedPlatform(c.group.members, c.defs, c.bad) ELSE "",
      sel    |-> [m \in ok |-> HostSel(m, c.defs, c.bad)]]
  ELSE IF Resolve(c.query, c.defs) = 0 THEN
     [perr |-> "PlatformLookupError", plats |-> {}, pfirst |-> "", sel |-> <<>>]
  ELSE
     [perr |-> "none", plats |-> {c.query}, pfirst |-> "",
      sel |-> [m \in {c.query} |-> HostSel(m, c.defs, c.bad)]]

\* ------------------------------------------------------------ cases
Def(p, h, m) == [pat |-> p, hosts |-> h, method |-> m]

\* (1) host selection on one platform
HostCases ==
  { [kind |-> "host", defs |-> << Def("p1", h, m) >>, group |-> NoGroup, bad |-> b, query |-> "p1"] :
      h \in InjSeqs(Hosts, 3) \cup {<<>>}, m \in Methods, b \in SUBSET (Hosts \cup {"p1"}) }

\* (2) name resolution: 1..3 definitions with distinct patterns; definition i is recognisable by its host "d<i>"
Marker(i) == CASE i = 1 -> "d1" [] i = 2 -> "d2" [] i = 3 -> "d3"
ResolveCases ==
  { [kind |-> "resolve", defs |-> [i \in 1..Len(ps) |-> Def(ps[i], <<Marker(i)>>, "random")],
     group |-> NoGroup, bad |-> {}, query |-> q] :
      ps \in InjSeqs(ResolvePats, 3), q \in Q }

\* (3) platform groups over members p1..p3 defined in several ways
GroupDefs ==
  { << Def("p1", <<"h1">>, "random"), Def("p2", <<"h2">>, "random"), Def("p3", <<"h3">>, "random") >>,
    << Def("p1", <<"h1", "h2">>, "definition order"), Def("p2", <<"h1">>, "random"), Def("p3", <<>>, "random") >>,
    << Def("p1", <<"h1">>, "random"), Def("p(2|3)", <<"h2", "h3">>, "definition order") >>,
    << Def("p1", <<"h1", "h2">>, "random"), Def("p\\d", <<"h3">>, "random"), Def("p2", <<"h2", "h1">>, "random") >> }
GroupCases ==
  { [kind |-> "group", defs |-> d, group |-> [members |-> ms, method |-> m], bad |-> b, query |-> "g"] :
      d \in GroupDefs, ms \in InjSeqs({"p1", "p2", "p3"}, 3), m \in Methods,
      b \in SUBSET (Hosts \cup {"p3"}) }

Cases == HostCases \cup ResolveCases \cup GroupCases

\* every group member must be a defined platform (cylc fails the lookup otherwise)
Legal(c) == c.query = "g" => \A i \in 1..Len(c.group.members) : Resolve(c.group.members[i], c.defs) # 0

VARIABLES c, exp
vars == <<c, exp>>
Init == /\ c \in {k \in Cases : Legal(k)}
        /\ exp = Expected(c)
Next == UNCHANGED vars
Spec == Init /\ [][Next]_vars

\* ------------------------------------------- sanity invariants of the oracle
\* the property statement itself, on the oracle: nothing allowed is bad; error iff nothing is left
NeverBad == \A m \in exp.plats : /\ exp.sel[m].allowed \cap c.bad = {}
                                 /\ exp.sel[m].herr <=> (Range(exp.sel[m].hosts) \subseteq c.bad)
GroupNeverDead == c.query = "g" =>
    /\ \A m \in exp.plats : ~exp.sel[m].herr
    /\ (exp.perr = "NoPlatformsError") <=>
         \A i \in 1..Len(c.group.members) : Range(HostList(c.group.members[i], c.defs)) \subseteq c.bad
\* with nothing unreachable, every member / every host is allowed
NoBadAllAllowed == c.bad = {} =>
    /\ (c.query = "g" => exp.plats = Range(c.group.members))
    /\ \A m \in exp.plats : exp.sel[m].allowed = Range(exp.sel[m].hosts)
\* the resolved definition matches the name, and no later one does
LastMatchWins == \A m \in exp.plats :
    /\ m \in PatMatch(c.defs[exp.sel[m].def].pat)
    /\ \A j \in (exp.sel[m].def + 1)..Len(c.defs) : m \notin PatMatch(c.defs[j].pat)
=============================================================================
