SPECIFICATION BSpec
CONSTANTS
  Family = "tree"
  MinLeaves = 4
  MaxLeaves = 4
  Pools = {1, 2}
  WithDecls = FALSE
  BothStyles = FALSE
