----------------------------- MODULE Completion -----------------------------
(* C11 (function half) oracle: when are a task's outputs complete?           *)
(*                                                                           *)
(* A task definition is  (a) what the graph declares about the outputs       *)
(* succeeded, failed, x, y, expired, submit-failed, submitted - each         *)
(* required / optional (?) / not mentioned - and  (b) optionally a user      *)
(* completion expression.  For every task definition the module gives the    *)
(* set of subsets S of completed outputs for which the task is complete:     *)
(*   - with a user expression: the expression is true over S;                *)
(*   - without: DefaultComplete, transcribed from the documented rules       *)
(*     (statement of C11 + [runtime][X]completion reference):                *)
(*       "requires every required output, tolerates failure only when        *)
(*        succeeded or failed is optional, and tolerates submit-failure and  *)
(*        expiry only when those are optional";  "success is presumed to be  *)
(*        required unless explicitly stated otherwise".                      *)
(* Nothing here is derived from cylc's get_completion_expression().          *)
(* Expression machinery (Eval, Src, TreesN, Decls, StrictOK ...) comes from  *)
(* BoolExpr.tla; its state variables are reused:                             *)
(*   pool = 0, key = text naming the batch, legal = {}, batch = set of cases *)
EXTENDS BoolExpr

CONSTANTS UserAllLeaves,   \* user expressions with 1..UserAllLeaves leaves over UserVars: every strictly consistent declaration
          UserOneLeaves,   \* user expressions with up to UserOneLeaves leaves over SmallVars: one declaration each
          UserVars, SmallVars

\* Subsets of completed outputs are encoded as bit sets over DeclSeq (bit i-1 <=> DeclSeq[i] completed).
RECURSIVE CodeUp(_, _)
CodeUp(S, i) == IF i = 0 THEN 0 ELSE CodeUp(S, i - 1) + (IF DeclSeq[i] \in S THEN 2 ^ (i - 1) ELSE 0)
Code(S) == CodeUp(S, Len(DeclSeq))
Subsets == SUBSET DeclVars

(* ---------------------- the documented default rule ---------------------- *)
\* outputs the task must produce when it runs to success
MustHave(d) == {v \in DeclVars : d[v] = "req"}
               \cup (IF d["succeeded"] = "unset" /\ d["failed"] = "unset" THEN {"succeeded"} ELSE {})
FailTolerated(d)       == d["succeeded"] = "opt" \/ d["failed"] = "opt"
\* `a:submit? => b` says that submission is optional, i.e. that submit-failure is tolerated
SubmitFailTolerated(d) == d["submit_failed"] = "opt" \/ d["submitted"] = "opt"
ExpiryTolerated(d)     == d["expired"] = "opt"
DefaultComplete(d, S) ==
  \/ /\ MustHave(d) \subseteq S                      \* every required output ...
     /\ (FailTolerated(d) => "succeeded" \in S)       \* ... of a task that ran to success
  \/ FailTolerated(d) /\ "failed" \in S
  \/ SubmitFailTolerated(d) /\ "submit_failed" \in S
  \/ ExpiryTolerated(d) /\ "expired" \in S

DefaultTruth(d) == {Code(S) : S \in {T \in Subsets : DefaultComplete(d, T)}}
UserTruth(e)    == {Code(S) : S \in {T \in Subsets : Eval(e, T)}}

(* --------------------------------- cases --------------------------------- *)
\* default family: one batch per declaration of succeeded / failed
SFPairs == {sf \in Marks \X Marks : (sf[1] # "unset" /\ sf[2] # "unset") => (sf[1] = "opt" /\ sf[2] = "opt")}
DefaultDecls(sf) == {d \in Decls(DeclVars) : d["succeeded"] = sf[1] /\ d["failed"] = sf[2]}
\* <<"default", declaration, "", {}, complete-on>>
DefaultCase(d) == <<"default", DeclCode(d), "", {}, DefaultTruth(d)>>

\* user family: declarations under which the documentation leaves no doubt that the expression is valid
\* (StrictOK), mentioning only the variables of the expression and succeeded / failed; if there is none, the
\* weakly consistent ones are offered as candidates (used by the harness only if cylc accepts them).
DeclDomain(e) == (Vars(e) \cup {"succeeded", "failed"}) \cap DeclVars
StrictDecls(e) == LET cm == ClassRec(e) IN {d \in Decls(DeclDomain(e)) : StrictOKc(cm, d)}
WeakDecls(e)   == LET cm == ClassRec(e) IN {d \in Decls(DeclDomain(e)) : WeakOKc(cm, d)}
One(S) == IF S = {} THEN {} ELSE {CHOOSE d \in S : TRUE}
\* <<"user", {strict declarations}, text, {candidate declarations}, complete-on>>
UserCase(e, st, all) ==
  LET sd == StrictDecls(e)
      wd == IF sd = {} THEN One(WeakDecls(e)) ELSE {}
  IN <<"user", {DeclCode(d) : d \in (IF all THEN sd ELSE One(sd))}, Src(e, st), {DeclCode(d) : d \in wd}, UserTruth(e)>>

UserSkeletons(n) == UNION {TreesN(k, {"_"}) : k \in 1..n}
UserBatch(sk, V, all) ==
  UNION { {UserCase(Fill(sk, a), st, all) : st \in Styles(sk)} : a \in [1..Leaves(sk) -> V] }

CKeys == {<<"default", sf>> : sf \in SFPairs}
         \cup {<<"userall", sk>> : sk \in UserSkeletons(UserAllLeaves)}
         \cup {<<"userone", sk>> : sk \in {s \in UserSkeletons(UserOneLeaves) : Leaves(s) > UserAllLeaves}}

CInit == \E k \in CKeys :
           /\ pool = 0
           /\ legal = {}
           /\ key = IF k[1] = "default" THEN "default " \o Letter(k[2][1]) \o Letter(k[2][2])
                    ELSE k[1] \o " " \o Src(k[2], "full")
           /\ batch = CASE k[1] = "default" -> {DefaultCase(d) : d \in DefaultDecls(k[2])}
                        [] k[1] = "userall" -> UserBatch(k[2], UserVars, TRUE)
                        [] k[1] = "userone" -> UserBatch(k[2], SmallVars, FALSE)
CSpec == CInit /\ [][BNext]_bvars

(* sanity of the oracle: completion is monotone in the completed outputs, an all-required task needs
   everything, and a task that tolerates nothing is complete only by succeeding with its outputs *)
Monotone == \A c \in batch : \A a \in c[5] : \A i \in 0..6 :
              (a \div (2 ^ i)) % 2 = 0 => (a + 2 ^ i) \in c[5]
ASSUME LET d == [v \in DeclVars |-> IF v \in {"succeeded", "x", "y", "submitted"} THEN "req" ELSE "unset"]
       IN \A S \in Subsets : DefaultComplete(d, S) <=> {"succeeded", "x", "y", "submitted"} \subseteq S
ASSUME LET d == [v \in DeclVars |-> "unset"]
       IN \A S \in Subsets : DefaultComplete(d, S) <=> "succeeded" \in S
ASSUME LET d == [v \in DeclVars |-> IF v = "succeeded" THEN "opt" ELSE IF v = "x" THEN "req" ELSE "unset"]
       IN /\ DefaultComplete(d, {"failed"}) /\ DefaultComplete(d, {"succeeded", "x"})
          /\ ~DefaultComplete(d, {"succeeded"}) /\ ~DefaultComplete(d, {"x"}) /\ ~DefaultComplete(d, {"expired"})
=============================================================================
