--------------------------------- MODULE Ids ---------------------------------
(* C23 oracle: the Cylc universal identifier grammar as a formatting function. *)
(*                                                                             *)
(*   ~user/workflow:sel//cycle:sel/task:sel/job:sel          (absolute)        *)
(*   //cycle:sel/task:sel/job:sel                            (relative)        *)
(*   task.cycle[:sel]   and   cycle/task[:sel]               (legacy, Cylc 7)  *)
(*                                                                             *)
(* A case is a tokens record; "" means "token absent".  The field alphabets    *)
(* contain the separator-adjacent characters that are legal inside each field  *)
(* ('.', '-', '+', '/', '~', '*', '%', '@' where the grammar allows them).     *)
(* Format/FormatPlain/RelFormat/Legacy* transcribe the documented grammar      *)
(* ("cylc help id"); job numbers are zero-padded to two digits.  TLC           *)
(* enumerates every legal token combination; the harness checks round trips    *)
(* on cylc.flow.id.  (TLA+'s role here is the grammar-as-oracle and the        *)
(* exhaustive enumeration; string round-tripping itself is plain replay.)      *)
EXTENDS Naturals, Sequences, FiniteSets, TLC

CONSTANT Big      \* TRUE: full alphabets (thorough), FALSE: reduced alphabets (quick)

Users     == IF Big THEN {"", "u", "u.x-1"}                          ELSE {"", "u.x-1"}
Workflows == IF Big THEN {"", "w", "w/run1", "a.b/c-d"}              ELSE {"", "w", "a.b/c-d"}
WSels     == {"", "ws"}
Cycles    == IF Big THEN {"", "1", "10", "20000101T00Z", "2000-01-01T00+05", "*", "c.d"}
                    ELSE {"", "1", "10", "2000-01-01T00+05", "c.d"}
CSels     == {"", "cs"}
Tasks     == IF Big THEN {"", "t", "t.x", "t-1+%@", "*", "~t"}       ELSE {"", "t.x", "t-1+%@", "~t"}
TSels     == IF Big THEN {"", "ts", "s.1"}                           ELSE {"", "s.1"}
Jobs      == IF Big THEN {"", "01", "1", "12", "NN", "123", "007"}   ELSE {"", "1", "12", "NN", "123", "007"}
JSels     == {"", "js"}

\* job numbers are shown zero-padded to (at least) two digits; NN is the "latest job" alias
Pad(j) == CASE j = "1" -> "01" [] j = "007" -> "07" [] OTHER -> j

\* facts about the alphabet needed by the legacy grammar
StartsWithDigit(c) == c \in {"1", "10", "20000101T00Z", "2000-01-01T00+05"}
HasDot(c)   == c \in {"c.d"}
HasTilde(s) == s \in {"~t"}

Tokens == [user : Users, workflow : Workflows, workflow_sel : WSels, cycle : Cycles, cycle_sel : CSels,
           task : Tasks, task_sel : TSels, job : Jobs, job_sel : JSels]

\* the hierarchy must be contiguous and selectors need their token
Legal(t) ==
  /\ (t.workflow_sel # "" => t.workflow # "")
  /\ (t.cycle_sel # "" => t.cycle # "")
  /\ (t.task_sel # "" => t.task # "")
  /\ (t.job_sel # "" => t.job # "")
  /\ (t.job # "" => t.task # "")
  /\ (t.task # "" => t.cycle # "")
  /\ (t.cycle # "" /\ t.user # "" => t.workflow # "")        \* ~user//cycle is not an ID
  /\ (t.user # "" \/ t.workflow # "" \/ t.cycle # "")        \* not empty

WithSel(v, s, sels) == IF sels /\ s # "" THEN v \o ":" \o s ELSE v

\* cycle[:sel][/task[:sel][/job[:sel]]]
TaskPart(t, sels) ==
  WithSel(t.cycle, t.cycle_sel, sels)
  \o (IF t.task = "" THEN ""
      ELSE "/" \o WithSel(t.task, t.task_sel, sels)
           \o (IF t.job = "" THEN "" ELSE "/" \o WithSel(Pad(t.job), t.job_sel, sels)))

WorkflowPart(t, sels) ==
  (IF t.user = "" THEN "" ELSE "~" \o t.user \o (IF t.workflow = "" THEN "" ELSE "/"))
  \o WithSel(t.workflow, t.workflow_sel, sels)

IsRelative(t) == t.user = "" /\ t.workflow = ""

FormatWith(t, sels) ==
  IF IsRelative(t) THEN "//" \o TaskPart(t, sels)
  ELSE WorkflowPart(t, sels) \o (IF t.cycle = "" THEN "" ELSE "//" \o TaskPart(t, sels))

Format(t)      == FormatWith(t, TRUE)     \* canonical ID with selectors
FormatPlain(t) == FormatWith(t, FALSE)    \* canonical ID without selectors

Padded(t) == [t EXCEPT !.job = Pad(t.job)]
TaskOnly(t) == [t EXCEPT !.user = "", !.workflow = "", !.workflow_sel = ""]

\* legacy forms exist for cycle+task (no job), cycle starting with a digit and containing no '.', task without '~'
HasLegacy(t) == /\ t.cycle # "" /\ t.task # "" /\ t.job = "" /\ t.cycle_sel = "" /\ IsRelative(t)
                /\ StartsWithDigit(t.cycle) /\ ~HasDot(t.cycle) /\ ~HasTilde(t.task)
LegacyDot(t)   == WithSel(t.task \o "." \o t.cycle, t.task_sel, TRUE)       \* task.cycle[:sel]
LegacySlash(t) == t.cycle \o "/" \o WithSel(t.task, t.task_sel, TRUE)       \* cycle/task[:sel]

VARIABLES t, padded, full, plain, rel, relplain, legacy
vars == <<t, padded, full, plain, rel, relplain, legacy>>

Init == /\ t \in {k \in Tokens : Legal(k)}
        /\ padded = Padded(t)
        /\ full = Format(t)
        /\ plain = FormatPlain(t)
        /\ rel = (IF t.cycle = "" THEN "" ELSE "//" \o TaskPart(t, TRUE))          \* relative form of the task part
        /\ relplain = (IF t.cycle = "" THEN "" ELSE TaskPart(t, FALSE))            \* relative_id (no //, no selectors)
        /\ legacy = IF HasLegacy(t)
                    THEN [has |-> TRUE, dot |-> LegacyDot(t), slash |-> LegacySlash(t),
                          up |-> "//" \o TaskPart(t, TRUE), uprel |-> TaskPart(t, TRUE)]
                    ELSE [has |-> FALSE, dot |-> "", slash |-> "", up |-> "", uprel |-> ""]
Next == UNCHANGED vars
Spec == Init /\ [][Next]_vars

\* ------------------------------------------- sanity invariants of the oracle
\* the absolute form ends with the relative form of its task part
AbsEndsWithRel == (~IsRelative(t) /\ t.cycle # "") => full = WorkflowPart(t, TRUE) \o rel
\* without selectors in the tokens both formats coincide
NoSelSame == (t.workflow_sel = "" /\ t.cycle_sel = "" /\ t.task_sel = "" /\ t.job_sel = "") => full = plain
\* padding is idempotent
PadIdem == Pad(Pad(t.job)) = Pad(t.job)
=============================================================================
