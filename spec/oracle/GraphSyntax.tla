----------------------------- MODULE GraphSyntax -----------------------------
(* C14 oracle: what a graph string means, independently of how it is written. *)
(*                                                                           *)
(* A graph AST is a sequence of chains; a chain is a sequence of node groups *)
(* (g1 => g2 => g3); a group is an AND/OR expression over nodes              *)
(* NAME[offset]:qualifier? (suicide mark ! allowed on the last group).       *)
(* Denote(ast) is                                                            *)
(*   trig : for every task on the right of an arrow, the boolean function    *)
(*          of upstream outputs that triggers it (conjunction of all the     *)
(*          left-hand groups pointing at it), separately for normal and      *)
(*          suicide triggers, as <<atoms, truth set>>;                       *)
(*   opt  : which task outputs the graph declares required / optional, with  *)
(*          the rule that a plain NAME means NAME:succeeded (required)       *)
(*          except at the end of a chain of length > 1, where it declares    *)
(*          nothing.                                                         *)
(* Denote does not depend on the presentation (chains or separate pairs,     *)
(* white space, comments, line continuation, duplicated lines, line order),  *)
(* so the case space LegalASTs x Presentations is dumped as its two factors  *)
(* (kind "ast" and kind "pres") and the harness forms the product, renders   *)
(* each <<ast, presentation>> and compares GraphParser's result with         *)
(* Denote(ast).  Kind "bad" states are malformed lines at a given position   *)
(* of a multi-line graph: the expected result is GraphParseError.            *)
(* Written from the user guide's description of graph syntax.                *)
EXTENDS Integers, Sequences, FiniteSets, TLC

CONSTANTS SecondChains,   \* the chains that may accompany a first chain in two-chain graphs (see .cfg)
          TwoChainMaxLen  \* longest first chain used in two-chain graphs

\* ---------------------------------------------------------------- nodes, groups
Nd(n, off, q, o, s) == [n |-> n, off |-> off, q |-> q, o |-> o, s |-> s]
L(nd) == <<"n", nd>>
P(n) == L(Nd(n, "", "", FALSE, FALSE))                 \* plain name
Q(n, q, o) == L(Nd(n, "", q, o, FALSE))                \* name:qualifier / name:qualifier?
And(l, r) == <<"&", l, r>>
Or(l, r) == <<"|", l, r>>

GroupPool == <<
  P("a"),                                                       \*  1  a
  Q("a", "", TRUE),                                             \*  2  a?
  Q("a", "fail", TRUE),                                         \*  3  a:fail?
  Q("a", "x", FALSE),                                           \*  4  a:x
  Q("a", "x", TRUE),                                            \*  5  a:x?
  Q("a", "finish", FALSE),                                      \*  6  a:finish
  And(P("a"), P("b")),                                          \*  7  a & b
  Or(P("a"), P("b")),                                           \*  8  a | b
  Or(Q("a", "", TRUE), Q("b", "fail", TRUE)),                   \*  9  a? | b:fail?
  And(Q("a", "x", FALSE), Or(P("b"), P("c"))),                  \* 10  a:x & (b | c)
  Or(P("a"), And(P("b"), P("c"))),                              \* 11  a | b & c
  P("b"),                                                       \* 12  b
  Q("b", "start", FALSE),                                       \* 13  b:start
  Q("b", "fail", FALSE),                                        \* 14  b:fail
  P("c"),                                                       \* 15  c
  And(P("c"), P("d")),                                          \* 16  c & d
  Q("c", "x", TRUE),                                            \* 17  c:x?
  P("d"),                                                       \* 18  d
  L(Nd("d", "", "", FALSE, TRUE)),                              \* 19  !d
  And(L(Nd("d", "", "", FALSE, TRUE)), P("c")),                 \* 20  !d & c
  Or(L(Nd("a", "[-P1]", "", FALSE, FALSE)), P("b")),            \* 21  a[-P1] | b
  And(L(Nd("a", "[-P1]", "fail", TRUE, FALSE)), P("b")),        \* 22  a[-P1]:fail? & b
  Or(And(L(Nd("a", "[-P1]", "fail", TRUE, FALSE)), P("b")),
     And(L(Nd("a", "[-P1]", "fail", TRUE, FALSE)), P("c"))),    \* 23  a[-P1]:fail? & b | a[-P1]:fail? & c
  Or(P("a"), P("a-b")),                                         \* 24  a | a-b
  Q("a", "succeeded", FALSE)                                    \* 25  a:succeeded
>>
NG == Len(GroupPool)

RECURSIVE Leaves(_)
Leaves(g) == IF g[1] = "n" THEN {g[2]} ELSE Leaves(g[2]) \cup Leaves(g[3])
Names(g) == {nd.n : nd \in Leaves(g)}
RECURSIVE HasOr(_)
HasOr(g) == IF g[1] = "n" THEN FALSE ELSE g[1] = "|" \/ HasOr(g[2]) \/ HasOr(g[3])
HasSuicide(g) == \E nd \in Leaves(g) : nd.s
HasOffset(g) == \E nd \in Leaves(g) : nd.off # ""

\* standard output name of a qualifier
Std(q) == CASE q = "" -> "succeeded" [] q = "fail" -> "failed" [] q = "start" -> "started" [] OTHER -> q
\* upstream outputs a node stands for on the left of an arrow (":finish" = succeeded or failed)
NodeAtoms(nd) == IF nd.q = "finish" THEN {nd.n \o nd.off \o ":succeeded", nd.n \o nd.off \o ":failed"}
                 ELSE {nd.n \o nd.off \o ":" \o Std(nd.q)}
RECURSIVE GAtoms(_)
GAtoms(g) == IF g[1] = "n" THEN NodeAtoms(g[2]) ELSE GAtoms(g[2]) \cup GAtoms(g[3])
RECURSIVE GTrue(_, _)
GTrue(g, S) == CASE g[1] = "n" -> (NodeAtoms(g[2]) \cap S # {})
                 [] g[1] = "&" -> (GTrue(g[2], S) /\ GTrue(g[3], S))
                 [] g[1] = "|" -> (GTrue(g[2], S) \/ GTrue(g[3], S))

\* canonical text of a group ("&" binds tighter than "|": parentheses only for | under &)
NodeTxt(nd) == (IF nd.s THEN "!" ELSE "") \o nd.n \o nd.off \o (IF nd.q = "" THEN "" ELSE ":" \o nd.q)
               \o (IF nd.o THEN "?" ELSE "")
RECURSIVE GTxt(_, _)
GTxt(g, ctx) == IF g[1] = "n" THEN NodeTxt(g[2])
                ELSE LET body == GTxt(g[2], g[1]) \o " " \o g[1] \o " " \o GTxt(g[3], g[1])
                     IN IF g[1] = "|" /\ ctx = "&" THEN "(" \o body \o ")" ELSE body

\* ---------------------------------------------------------------- chains, ASTs
G(i) == GroupPool[i]
RightOK(i) == ~HasOr(G(i)) /\ ~HasOffset(G(i))          \* may stand on the right of an arrow
SeqNames(ch) == UNION {Names(G(ch[k])) : k \in 1..Len(ch)}
ChainOK(ch) ==
  /\ \A k \in 2..Len(ch) : RightOK(ch[k])
  /\ \A k \in 1..Len(ch) : HasSuicide(G(ch[k])) => (k = Len(ch) /\ k > 1)
  /\ \A j, k \in 1..Len(ch) : j < k => Names(G(ch[j])) \cap Names(G(ch[k])) = {}
FirstChains == {ch \in UNION {[1..m -> 1..NG] : m \in 2..3} : ChainOK(ch)}

\* output declarations made by a chain: <<task, output, optional>>
NodeDecl(nd, endOfChain) ==
  IF nd.s THEN {}
  ELSE IF nd.q = "finish" THEN {<<nd.n, "succeeded", TRUE>>, <<nd.n, "failed", TRUE>>}
  ELSE IF nd.q # "" THEN {<<nd.n, Std(nd.q), nd.o>>}
  ELSE IF nd.o THEN {<<nd.n, "succeeded", TRUE>>}
  ELSE IF endOfChain THEN {}
  ELSE {<<nd.n, "succeeded", FALSE>>}
ChainDecl(ch) == UNION {UNION {NodeDecl(nd, k = Len(ch) /\ Len(ch) > 1) : nd \in Leaves(G(ch[k]))} : k \in 1..Len(ch)}
Decl(ast) == UNION {ChainDecl(ast[i]) : i \in 1..Len(ast)}

\* <<left group, right node>> for every arrow
Arrows(ast) == UNION {UNION {{<<ast[i][k], nd>> : nd \in Leaves(G(ast[i][k + 1]))} : k \in 1..(Len(ast[i]) - 1)}
                      : i \in 1..Len(ast)}
Targets(ast) == {<<ar[2].n, ar[2].s>> : ar \in Arrows(ast)}
Incoming(ast, t) == {ar[1] : ar \in {x \in Arrows(ast) : x[2].n = t[1] /\ x[2].s = t[2]}}
TAtoms(ast, t) == UNION {GAtoms(G(i)) : i \in Incoming(ast, t)}
TTruth(ast, t) == {S \in SUBSET TAtoms(ast, t) : \A i \in Incoming(ast, t) : GTrue(G(i), S)}

DeclOK(D) ==
  /\ \A x, y \in D : (x[1] = y[1] /\ x[2] = y[2]) => x[3] = y[3]
  /\ \A x, y \in D : (x[1] = y[1] /\ x[2] = "succeeded" /\ y[2] = "failed") => (x[3] /\ y[3])
Legal(ast) ==
  /\ DeclOK(Decl(ast))
  /\ \A t \in Targets(ast) : Cardinality(TAtoms(ast, t)) <= 5
  \* a node cannot trigger and suicide-trigger the same task from the same expression
  /\ \A ar1, ar2 \in Arrows(ast) : (ar1[1] = ar2[1] /\ ar1[2].n = ar2[2].n) => ar1[2].s = ar2[2].s
ASTs == {<<ch>> : ch \in FirstChains}
        \cup {<<c1, c2>> : c1 \in {c \in FirstChains : Len(c) <= TwoChainMaxLen},
                            c2 \in {c \in SecondChains : ChainOK(c)}}
LegalASTs == {ast \in ASTs : Legal(ast)}

AllTasks(ast) == UNION {SeqNames(ast[i]) : i \in 1..Len(ast)}
NonSuicideTasks(ast) == {nd.n : nd \in {x \in UNION {UNION {Leaves(G(ast[i][k])) : k \in 1..Len(ast[i])}
                                                     : i \in 1..Len(ast)} : ~x.s}}
\* task-level edges and their transitive closure (at most 5 task names: three squarings are enough)
Edges(ast) == UNION {{<<u, ar[2].n>> : u \in Names(G(ar[1]))} : ar \in Arrows(ast)}
Step(R) == R \cup {<<p[1][1], p[2][2]>> : p \in {q \in R \X R : q[1][2] = q[2][1]}}
Closure(R) == Step(Step(Step(R)))
Acyclic(ast) == \A e \in Closure(Edges(ast)) : e[1] # e[2]
\* can be loaded as a whole workflow: every task is cycled somewhere as a normal node without offset, no cycle
Loadable(ast) == /\ AllTasks(ast) \subseteq NonSuicideTasks(ast)
                 /\ \A i \in 1..Len(ast) : \A k \in 1..Len(ast[i]) : ~HasOffset(G(ast[i][k]))
                 /\ Acyclic(ast)

\* ---------------------------------------------------------------- presentations
Presentations ==
  [ form : {"chains", "pairs"},                       \* a => b => c   |   a => b ; b => c
    ws : {"normal", "tight", "wide"},                 \* a & b => c | a&b=>c | tabs, runs of blanks, indentation
    comment : BOOLEAN,                                \* trailing comments, comment-only and blank lines
    cont : {"none", "arrow-trail", "arrow-lead", "and-trail", "and-lead", "or-trail", "or-lead"},
    dup : BOOLEAN,                                    \* first line repeated at the end
    perm : {"id", "reverse", "rotate"} ]              \* order of the lines

\* ---------------------------------------------------------------- malformed lines
BadKinds == {"and2", "or2", "dangling-arrow", "leading-arrow", "space", "qualifier-order", "arrow2",
             "or-right", "paren", "suicide-left", "offset-after-qualifier", "double-offset", "double-colon",
             "adjacent-operators", "juxtaposed-paren"}
BadLine(k) ==
  CASE k = "and2" -> "a && b => c"
    [] k = "or2" -> "a || b => c"
    [] k = "dangling-arrow" -> "a => b =>"
    [] k = "leading-arrow" -> "=> a => b"
    [] k = "space" -> "a b => c"
    [] k = "qualifier-order" -> "a:b:c => d"
    [] k = "arrow2" -> "a => => b"
    [] k = "or-right" -> "a => b | c"
    [] k = "paren" -> "(a & b => c"
    [] k = "suicide-left" -> "!a => b"
    [] k = "offset-after-qualifier" -> "a:x[-P1] => b"
    [] k = "double-offset" -> "a[-P1][-P2] => b"
    [] k = "double-colon" -> "a::x => b"
    [] k = "adjacent-operators" -> "a & | b => c"
    [] k = "juxtaposed-paren" -> "a ( b ) => c"
\* a trailing arrow is a continuation unless it ends the graph; a leading one unless it starts it
PosOK(k, pos, n) == (k = "dangling-arrow" => pos = n) /\ (k = "leading-arrow" => pos = 1)
BadCases == {bc \in [kind : BadKinds, pos : 1..3, n : 1..3] : bc.pos <= bc.n /\ PosOK(bc.kind, bc.pos, bc.n)}
GoodLines == <<"e => f", "g:x? => h & i", "j | k => l">>

\* ---------------------------------------------------------------- states
VARIABLES kind, chains, trig, opt, loadable, pres, bad
vars == <<kind, chains, trig, opt, loadable, pres, bad>>

NoPres == [form |-> "chains", ws |-> "normal", comment |-> FALSE, cont |-> "none", dup |-> FALSE, perm |-> "id"]
NoBad == [kind |-> "none", pos |-> 0, lines |-> <<>>]
ChainTxt(ch) == [k \in 1..Len(ch) |-> GTxt(G(ch[k]), "")]

Init ==
  \/ /\ kind = "ast"
     /\ \E ast \in LegalASTs :
          /\ chains = [i \in 1..Len(ast) |-> ChainTxt(ast[i])]
          /\ trig = {<<t[1], t[2], TAtoms(ast, t), TTruth(ast, t)>> : t \in Targets(ast)}
          /\ opt = Decl(ast)
          /\ loadable = Loadable(ast)
     /\ pres = NoPres /\ bad = NoBad
  \/ /\ kind = "pres"
     /\ pres \in Presentations
     /\ chains = <<>> /\ trig = {} /\ opt = {} /\ loadable = FALSE /\ bad = NoBad
  \/ /\ kind = "bad"
     /\ \E bc \in BadCases :
          bad = [kind |-> bc.kind, pos |-> bc.pos,
                 lines |-> [k \in 1..bc.n |-> IF k = bc.pos THEN BadLine(bc.kind) ELSE GoodLines[k]]]
     /\ pres = NoPres
     /\ chains = <<>> /\ trig = {} /\ opt = {} /\ loadable = FALSE
Next == UNCHANGED vars
Spec == Init /\ [][Next]_vars

\* chain sets selected by the .cfg files (group numbers refer to GroupPool)
SecondQuick == {<<2>>, <<15, 1>>, <<18, 4>>, <<3, 18>>, <<8, 18>>, <<15, 19>>}
SecondFull == SecondQuick \cup {<<12>>, <<12, 15>>, <<18, 12, 1>>, <<9, 15>>, <<11, 18>>, <<16, 25>>, <<13, 20>>, <<17, 7>>, <<6, 16>>,
                                <<21, 15>>, <<18>>, <<14, 1>>}

\* sanity of the oracle: triggers are monotone
Monotone == \A t \in trig : \A S \in t[4] : \A T \in SUBSET t[3] : S \subseteq T => T \in t[4]
=============================================================================
