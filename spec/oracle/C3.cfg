SPECIFICATION Spec
CONSTANTS
  MinN = 1
  MaxN = 5
  MaxPar = 4
INVARIANT ExactlyAncestors
INVARIANT LocalPrecedence
INVARIANT Monotonic
INVARIANT FailurePropagates
INVARIANT ChainsOk
