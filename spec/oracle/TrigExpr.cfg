SPECIFICATION Spec
CONSTANT Runs <- QuickRuns
INVARIANT Monotone
