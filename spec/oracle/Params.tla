------------------------------- MODULE Params -------------------------------
(* C34 oracle: parameter expansion of graph lines and runtime headings.      *)
(*                                                                           *)
(* A line (or heading) that uses parameters stands for one instance per      *)
(* combination of values of the parameters it loops over (those written      *)
(* plain "<p>" or with an offset "<p-1>" anywhere in the line); "<p=v>"      *)
(* selects the value v only (and does not loop); "<p-k>" refers to the value *)
(* k places before the current one in the parameter's value list, and where  *)
(* there is none the node is dropped from the line.                          *)
(*                                                                           *)
(* TLC enumerates parameter sets (integer and string values, default and     *)
(* custom name templates, padded widths, non-contiguous and unsorted values) x line       *)
(* shapes x parameter groups (every ordered selection of <= 2 parameters,    *)
(* each plain / fixed value / offset) and computes the expected set of       *)
(* instances; the harness compares with GraphExpander.expand (as a set),     *)
(* with GraphParser(parameters=...) and with NameExpander.expand.            *)
(* Written from the property statement and the user guide's description of   *)
(* task parameters, not from param_expand.py.                                *)
EXTENDS Integers, Sequences, FiniteSets, TLC

CONSTANT SetIds      \* which parameter sets to enumerate (see .cfg)

\* a parameter: name, kind, list of values, cylc name template, and the pieces needed to spell an expanded name
Par(name, kind, vals, tmpl, pre, width) ==
  [name |-> name, kind |-> kind, vals |-> vals, tmpl |-> tmpl, pre |-> pre, width |-> width]

ParamSet(id) ==
  CASE id = "mp"  -> << Par("m", "int", <<0, 1, 2>>, "_m%(m)01d", "_m", 1),
                        Par("p", "str", <<"cat", "dog">>, "_%(p)s", "_", 0) >>
    [] id = "iq"  -> << Par("i", "int", <<8, 9, 10>>, "_i%(i)02d", "_i", 2),            \* padded to two digits
                        Par("q", "int", <<1, 3>>, "_Q%(q)s", "_Q", 1) >>                \* custom template, gaps
    [] id = "rs"  -> << Par("r", "int", <<40, 12, 4>>, "_r%(r)02d", "_r", 2),           \* listed in processing order, not sorted:
                        Par("s", "int", <<3, 1>>, "_s%(s)01d", "_s", 1) >>               \* "<r-1>" is the previous value *in the list*
    [] id = "mpq" -> << Par("m", "int", <<1, 3, 5>>, "_m%(m)01d", "_m", 1),
                        Par("p", "str", <<"a", "b", "c">>, "_%(p)s", "_", 0),
                        Par("q", "int", <<0, 1>>, "_q%(q)01d", "_q", 1) >>

ValTxt(par, v) == IF par.kind = "str" THEN v
                  ELSE IF par.width = 2 /\ v < 10 THEN "0" \o ToString(v) ELSE ToString(v)
Frag(par, vi) == par.pre \o ValTxt(par, par.vals[vi])            \* name fragment for the vi-th value
RawTxt(par, v) == IF par.kind = "str" THEN v ELSE ToString(v)     \* as written after "="

\* an item of a parameter group:  p  |  p=v  |  p-k      (p = index of the parameter in the set, arg = value index / k)
Item(p, mode, arg) == [p |-> p, mode |-> mode, arg |-> arg]
ItemsOf(ps, p, withOffsets) ==
  {Item(p, "all", 0)} \cup {Item(p, "val", k) : k \in {1, Len(ps[p].vals)}}
  \cup (IF withOffsets THEN {Item(p, "off", k) : k \in {1, 2}} ELSE {})
\* groups: one item, or two items on distinct parameters, in either order
Groups(ps, withOffsets) ==
  LET its == UNION {ItemsOf(ps, p, withOffsets) : p \in 1..Len(ps)}
  IN {<<i>> : i \in its} \cup {<<q[1], q[2]>> : q \in {x \in its \X its : x[1].p # x[2].p}}
HasOff(g) == \E k \in 1..Len(g) : g[k].mode = "off"

ItemTxt(ps, it) == ps[it.p].name \o (CASE it.mode = "all" -> ""
                                       [] it.mode = "val" -> "=" \o RawTxt(ps[it.p], ps[it.p].vals[it.arg])
                                       [] it.mode = "off" -> "-" \o ToString(it.arg))
GroupTxt(ps, g) == "<" \o ItemTxt(ps, g[1]) \o (IF Len(g) = 2 THEN "," \o ItemTxt(ps, g[2]) ELSE "") \o ">"

\* ---- lines
\* shape "pair":  foo<l> => bar<r>     "and":  foo<l> & baz => bar<r>     "pre":  pre => foo<l> => bar<r>
\* shape "lone":  foo<l>               (offset nodes stand first in the line, as the user guide requires)
Lines(ps) ==
  LET GL == Groups(ps, TRUE)  GR == Groups(ps, FALSE)
  IN [shape : {"pair"}, l : GL, r : GR]
     \cup [shape : {"and"}, l : {g \in GL : HasOff(g)}, r : GR]
     \cup [shape : {"pre"}, l : GR, r : GR]
     \cup [shape : {"lone"}, l : GL, r : {<<>>}]
LineTxt(ps, ln) ==
  CASE ln.shape = "pair" -> "foo" \o GroupTxt(ps, ln.l) \o " => bar" \o GroupTxt(ps, ln.r)
    [] ln.shape = "and"  -> "foo" \o GroupTxt(ps, ln.l) \o " & baz => bar" \o GroupTxt(ps, ln.r)
    [] ln.shape = "pre"  -> "pre => foo" \o GroupTxt(ps, ln.l) \o " => bar" \o GroupTxt(ps, ln.r)
    [] ln.shape = "lone" -> "foo" \o GroupTxt(ps, ln.l)

\* ---- meaning
Looped(g) == {g[k].p : k \in {j \in 1..Len(g) : g[j].mode # "val"}}
Used(ln) == Looped(ln.l) \cup Looped(ln.r)
Assignments(ps, U) == {f \in [U -> 1..3] : \A p \in U : f[p] <= Len(ps[p].vals)}
\* value index an item denotes under assignment f; 0 = no such value
ItemIdx(it, f) == CASE it.mode = "all" -> f[it.p]
                    [] it.mode = "val" -> it.arg
                    [] it.mode = "off" -> IF f[it.p] - it.arg >= 1 THEN f[it.p] - it.arg ELSE 0
Dropped(g, f) == \E k \in 1..Len(g) : ItemIdx(g[k], f) = 0
NodeName(ps, base, g, f) ==
  base \o Frag(ps[g[1].p], ItemIdx(g[1], f)) \o (IF Len(g) = 2 THEN Frag(ps[g[2].p], ItemIdx(g[2], f)) ELSE "")
\* an instance = the chain of groups (sets of node names) that remains after dropping
Instance(ps, ln, f) ==
  LET foo == IF Dropped(ln.l, f) THEN {} ELSE {NodeName(ps, "foo", ln.l, f)}
      bar == IF ln.shape = "lone" THEN {} ELSE {NodeName(ps, "bar", ln.r, f)}
  IN CASE ln.shape = "pair" -> IF foo = {} THEN <<bar>> ELSE <<foo, bar>>
       [] ln.shape = "and"  -> <<foo \cup {"baz"}, bar>>
       [] ln.shape = "pre"  -> <<{"pre"}, foo, bar>>
       [] ln.shape = "lone" -> IF foo = {} THEN <<>> ELSE <<foo>>
Instances(ps, ln) == {Instance(ps, ln, f) : f \in Assignments(ps, Used(ln))} \ {<<>>}

\* ---- runtime headings:  foo<g>   and   foo<g>, baz     (no offsets)
\* expected: one <<name, {<<parameter, value index>>}>> per combination; fixed values are passed to the task as well
HeadInstances(ps, g) ==
  {<<NodeName(ps, "foo", g, f), {<<ps[g[k].p].name, ItemIdx(g[k], f)>> : k \in 1..Len(g)}>>
   : f \in Assignments(ps, Looped(g))}

VARIABLES kind, set, params, text, used, expected, ninst
vars == <<kind, set, params, text, used, expected, ninst>>

Init == \E id \in SetIds : LET ps == ParamSet(id) IN
          /\ set = id
          /\ params = ps
          /\ \/ /\ kind = "graph"
                /\ \E ln \in Lines(ps) :
                     /\ text = LineTxt(ps, ln)
                     /\ used = {ps[p].name : p \in Used(ln)}
                     /\ expected = Instances(ps, ln)
                     /\ ninst = Cardinality(Assignments(ps, Used(ln)))
             \/ /\ kind = "heading"
                /\ \E g \in Groups(ps, FALSE) : \E extra \in {"", ", baz"} :
                     /\ text = "foo" \o GroupTxt(ps, g) \o extra
                     /\ used = {ps[p].name : p \in Looped(g)}
                     /\ expected = HeadInstances(ps, g) \cup (IF extra = "" THEN {} ELSE {<<"baz", {}>>})
                     /\ ninst = Cardinality(Assignments(ps, Looped(g)))
Next == UNCHANGED vars
Spec == Init /\ [][Next]_vars

QuickSets == {"mp", "iq", "rs"}
FullSets == {"mp", "iq", "rs", "mpq"}

\* sanity of the oracle: never more instances than combinations; exactly as many when nothing is dropped or merged
AtMostProduct == Cardinality(expected) <= ninst + 1
=============================================================================
