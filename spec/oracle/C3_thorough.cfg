SPECIFICATION Spec
CONSTANTS
  MinN = 6
  MaxN = 6
  MaxPar = 3
INVARIANT ExactlyAncestors
INVARIANT LocalPrecedence
INVARIANT Monotonic
INVARIANT FailurePropagates
INVARIANT ChainsOk
