SPECIFICATION Spec
INVARIANT NeverBad
INVARIANT GroupNeverDead
INVARIANT NoBadAllAllowed
INVARIANT LastMatchWins
