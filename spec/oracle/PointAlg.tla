------------------------------ MODULE PointAlg ------------------------------
(* C18 oracle: cycle points are totally ordered by their value, equality and *)
(* hashing agree with the value, standardising preserves the value, and      *)
(* (p + i) - i = p for fixed-length intervals.                               *)
(*                                                                           *)
(* A point is abstracted to its value: the integer itself for integer        *)
(* cycling, an instant (whole hours after a base instant chosen by the       *)
(* harness) for datetime cycling.  An interval is abstracted to its length   *)
(* in the same unit; datetime intervals come in three fixed-length classes   *)
(* (hours, days = 24 h, weeks = 168 h).  A case is a pair of points (a, b);  *)
(* the state carries what the property requires of comparison, equality,     *)
(* difference and of adding / subtracting every interval of the box.  The    *)
(* harness realises every abstract point in several spellings, calendars and *)
(* time zones and compares the real objects' behaviour with these values.    *)
EXTENDS Integers, Sequences, FiniteSets, TLC

CONSTANTS
  IntLo, IntHi,      \* integer points
  IvLo, IvHi,        \* integer intervals
  DtHi,              \* datetime instants 0..DtHi (hours after the base)
  DkLo, DkHi         \* multipliers of the datetime interval classes

\* boxes with negative bounds (a cfg file cannot contain negative numbers): X <- Q_X / T_X
Q_IntLo == -12
Q_IvLo == -4
Q_DkLo == -2
T_IntLo == -60
T_IvLo == -9
T_DkLo == -3

Sign(x) == IF x < 0 THEN -1 ELSE IF x = 0 THEN 0 ELSE 1

\* the order required of points: the order of their values
Cmp(a, b) == Sign(a - b)

IntIntervals == [cls : {"P"}, k : IvLo..IvHi]
DtIntervals  == [cls : {"H", "D", "W"}, k : DkLo..DkHi]
Length(iv) == CASE iv.cls = "P" -> iv.k
                [] iv.cls = "H" -> iv.k
                [] iv.cls = "D" -> 24 * iv.k
                [] iv.cls = "W" -> 168 * iv.k

Cases == [kind : {"int"}, a : IntLo..IntHi, b : IntLo..IntHi]
         \cup [kind : {"dt"}, a : 0..DtHi, b : 0..DtHi]

Intervals(kind) == IF kind = "int" THEN IntIntervals ELSE DtIntervals

\* a set as a sequence (deterministic order is irrelevant: every element carries its own key)
RECURSIVE SeqOf(_)
SeqOf(S) == IF S = {} THEN <<>> ELSE LET x == CHOOSE y \in S : TRUE IN <<x>> \o SeqOf(S \ {x})

Arith(c) ==
  SeqOf({ [cls |-> iv.cls, k |-> iv.k,
           plus  |-> c.a + Length(iv),                    \* value of a + i
           minus |-> c.a - Length(iv),                    \* value of a - i
           back  |-> (c.a + Length(iv)) - Length(iv)]     \* value of (a + i) - i
          : iv \in Intervals(c.kind) })

VARIABLES c, cmp, eq, diff, arith
vars == <<c, cmp, eq, diff, arith>>

Init == /\ c \in Cases
        /\ cmp = Cmp(c.a, c.b)
        /\ eq = (c.a = c.b)
        /\ diff = c.a - c.b           \* value of the interval a - b
        /\ arith = Arith(c)
Next == UNCHANGED vars
Spec == Init /\ [][Next]_vars

\* The required order is a total order on the enumerated values, and the arithmetic clause holds in the model
\* (checked by TLC when the constants are bound).
Vals == (IntLo..IntHi) \cup (0..DtHi)
ASSUME TotalOrder ==
  /\ \A x, y \in Vals : Cmp(x, y) = -Cmp(y, x)                                      \* antisymmetric, total
  /\ \A x, y \in Vals : (Cmp(x, y) = 0) <=> (x = y)                                 \* equality = same value
  /\ \A x, y, z \in Vals : (Cmp(x, y) <= 0 /\ Cmp(y, z) <= 0) => Cmp(x, z) <= 0     \* transitive
RoundTrip == \A i \in 1..Len(arith) : arith[i].back = c.a
EqIffCmp == eq <=> (cmp = 0)
=============================================================================
