SPECIFICATION Spec
CONSTANT Big = FALSE
INVARIANT AbsEndsWithRel
INVARIANT NoSelSame
INVARIANT PadIdem
