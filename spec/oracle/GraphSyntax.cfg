SPECIFICATION Spec
CONSTANT SecondChains <- SecondQuick
CONSTANT TwoChainMaxLen = 2
INVARIANT Monotone
