--------------------------------- MODULE C3 ---------------------------------
(* C35 oracle: C3 linearization of a multiple-inheritance hierarchy.         *)
(* Transcribed from the published definition (Barrett et al. 1996 / the      *)
(* Python 2.3 MRO note):                                                     *)
(*    L[C(B1..Bn)] = C + merge(L[B1], ..., L[Bn], B1..Bn)                    *)
(*    merge: take the head of the first list that is not in the tail of any  *)
(*    list, append it, remove it from all lists, repeat; if no such head     *)
(*    exists the hierarchy has no consistent linearization.                  *)
(* A case is an inheritance DAG over namespaces 1..n (1 = root, the parents  *)
(* of i are an ordered, repetition-free, non-empty list over 1..i-1, i.e.    *)
(* every DAG up to renaming in a topological order).  TLC enumerates all     *)
(* DAGs as initial states and computes the expected linearization of every   *)
(* namespace, or "inconsistent".                                             *)
EXTENDS Naturals, Sequences, FiniteSets, TLC

CONSTANTS MaxN,      \* maximum number of namespaces (including root)
          MinN,      \* minimum number of namespaces
          MaxPar     \* maximum length of a parent list

NameOf == <<"root", "a", "b", "c", "d", "e">>

\* ---------------------------------------------------------------- cases
\* all repetition-free sequences of length 1..MaxPar over S
InjSeqs(S) ==
  UNION { {s \in [1..k -> S] : \A i, j \in 1..k : i # j => s[i] # s[j]} :
          k \in 1..(IF Cardinality(S) < MaxPar THEN Cardinality(S) ELSE MaxPar) }

ParentLists(i) == IF i = 1 THEN {<<>>} ELSE InjSeqs(1..(i-1))

RECURSIVE Dags(_)
Dags(n) == IF n = 1 THEN {<< <<>> >>}
           ELSE {Append(d, pl) : d \in Dags(n-1), pl \in ParentLists(n)}

\* ---------------------------------------------------------------- C3
Fail == [ok |-> FALSE, seq |-> <<>>]
InTail(x, s) == \E i \in 2..Len(s) : s[i] = x
Min(S) == CHOOSE x \in S : \A y \in S : x <= y

RECURSIVE Merge(_)
Merge(seqs) ==
  LET ne == SelectSeq(seqs, LAMBDA s : Len(s) > 0) IN
  IF Len(ne) = 0 THEN [ok |-> TRUE, seq |-> <<>>]
  ELSE LET good == {k \in 1..Len(ne) : \A j \in 1..Len(ne) : ~InTail(Head(ne[k]), ne[j])} IN
       IF good = {} THEN Fail
       ELSE LET c    == Head(ne[Min(good)])
                rest == [i \in 1..Len(ne) |-> IF Head(ne[i]) = c THEN Tail(ne[i]) ELSE ne[i]]
                r    == Merge(rest)
            IN IF r.ok THEN [ok |-> TRUE, seq |-> <<c>> \o r.seq] ELSE Fail

RECURSIVE Mro(_, _)
Mro(par, i) ==
  LET ps  == par[i]
      sub == [k \in 1..Len(ps) |-> Mro(par, ps[k])]
  IN IF \E k \in 1..Len(ps) : ~sub[k].ok THEN Fail
     ELSE LET m == Merge([k \in 1..Len(ps) |-> sub[k].seq] \o << ps >>)
          IN IF m.ok THEN [ok |-> TRUE, seq |-> <<i>> \o m.seq] ELSE Fail

\* ---------------------------------------------------------------- output
Named(s) == [k \in 1..Len(s) |-> NameOf[s[k]]]
Expected(par) == [i \in 1..Len(par) |->
                    LET m == Mro(par, i) IN [ok |-> m.ok, seq |-> Named(m.seq)]]

VARIABLES n, par, exp
vars == <<n, par, exp>>

Init == /\ n \in MinN..MaxN
        /\ \E d \in Dags(n) : /\ par = [i \in 1..n |-> Named(d[i])]
                              /\ exp = Expected(d)
Next == UNCHANGED vars
Spec == Init /\ [][Next]_vars

\* ------------------------------------------- sanity theorems of the oracle
Idx(nm) == CHOOSE i \in 1..Len(NameOf) : NameOf[i] = nm
RECURSIVE Anc(_, _)
Anc(p, nm) == {nm} \cup UNION {Anc(p, p[Idx(nm)][k]) : k \in 1..Len(p[Idx(nm)])}
Pos(s, x) == CHOOSE i \in 1..Len(s) : s[i] = x
Before(s, x, y) == Pos(s, x) < Pos(s, y)
Range(s) == {s[i] : i \in 1..Len(s)}

\* a linearization lists the namespace first, then exactly its ancestors, once each
ExactlyAncestors == \A i \in 1..n : exp[i].ok =>
    /\ exp[i].seq[1] = NameOf[i]
    /\ Range(exp[i].seq) = Anc(par, NameOf[i])
    /\ Len(exp[i].seq) = Cardinality(Anc(par, NameOf[i]))
\* local precedence: declared parent order is preserved
LocalPrecedence == \A i \in 1..n : exp[i].ok =>
    \A k1, k2 \in 1..Len(par[i]) : k1 < k2 => Before(exp[i].seq, par[i][k1], par[i][k2])
\* monotonicity: each parent's linearization is an order-preserving sub-sequence
Monotonic == \A i \in 1..n : exp[i].ok =>
    \A k \in 1..Len(par[i]) :
       LET pm == exp[Idx(par[i][k])].seq IN
       \A x, y \in Range(pm) : Before(pm, x, y) => Before(exp[i].seq, x, y)
\* a namespace is inconsistent whenever one of its parents is
FailurePropagates == \A i \in 1..n : \A k \in 1..Len(par[i]) :
    ~exp[Idx(par[i][k])].ok => ~exp[i].ok
\* single inheritance is always consistent
ChainsOk == (\A i \in 1..n : Len(par[i]) <= 1) => \A i \in 1..n : exp[i].ok
=============================================================================
