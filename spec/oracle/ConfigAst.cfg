SPECIFICATION Spec
CONSTANT K = 2
INVARIANT Bounded
