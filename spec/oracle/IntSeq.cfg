SPECIFICATION Spec
INVARIANT WindowWideEnough
INVARIANT Consistent
CONSTANTS
  AbsPts = {0, 1, 4, 9}
  RelOffs <- Q_RelOffs
  Steps = {1, 2, 3}
  Reps = {1, 2, 3}
  Icps = {2}
  Fcps <- Q_Fcps
  ExPts = {2, 8}
  ExSteps = {2}
  ExAbs = {3}
  ExRel = {1}
  QLo <- Q_QLo
  QHi = 11
  WLo <- Q_WLo
  WHi = 24
  ExtraCases = {}
  UseBox = TRUE
