SPECIFICATION Spec
INVARIANT HistoryIndependent
INVARIANT Sane
CONSTANTS
  Ns = {1, 2, 3, 4}
  MaxLen = 2
  FirstCalls = {"valid", "on_sequence", "next", "first", "next_on_sequence", "nearest_prev", "stop"}
  AllowUnbounded = TRUE
