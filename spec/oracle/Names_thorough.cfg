SPECIFICATION Spec
CONSTANTS
  MaxLen = 4
  CoreLen = 5
  MiniLens = {6}
  MicroLens = {8, 9}
INVARIANT ValidImpliesInside
INVARIANT ValidRImpliesSafe
INVARIANT DepthWalkAgrees
INVARIANT NormKeepsReservedFree
