------------------------------- MODULE TVars --------------------------------
(* C37 oracle: template variables survive restart unchanged, command-line    *)
(* values given at restart win.                                              *)
(*                                                                           *)
(* A value is an abstract syntax tree of a Python literal:                   *)
(*   leaves   [t |-> "int"|"float"|"complex"|"bool"|"none"|"ellipsis"|"bytes", src, v]   *)
(*            src = the text typed on the command line, v = canonical value  *)
(*            (decimal text for int, float.hex() text for float, ...)        *)
(*            [t |-> "str", cps |-> <<code points>>]                         *)
(*   nodes    [t |-> "list"|"tuple"|"set", items |-> <<ast, ...>>]           *)
(*            [t |-> "dict", items |-> << <<key ast, value ast>>, ... >>]    *)
(* Src(ast) is the text given to `-s KEY=<text>` at the first start.         *)
(* A case gives the variables of the first start and those repeated on the   *)
(* command line of the restart; Expected(c) is the documented outcome: every *)
(* first-start variable has the identical value (= the same tree: same type, *)
(* same content) unless it is given again at restart, in which case the      *)
(* restart value wins; variables only given at restart are present too.      *)
(*                                                                           *)
(* THIN ORACLE (DESIGN section 7): "restored unchanged" is the identity on   *)
(* trees, so TLA+ contributes the enumeration of trees, their source text,   *)
(* the accepted-domain (Legal) and the override semantics; the comparison of *)
(* a restored Python object with a tree (type-strict) is done by the harness.*)
EXTENDS Naturals, Sequences, FiniteSets, TLC

CONSTANTS StrLen,      \* strings of 0..StrLen characters from Chars
          Deep         \* TRUE: also containers of containers

----------------------------------------------------------------------------
(* Leaves                                                                    *)
L(t, src, v) == [t |-> t, src |-> src, v |-> v]

Ints ==
  { L("int", "0", "0"), L("int", "-1", "-1"), L("int", "7", "7"),
    L("int", "2147483648", "2147483648"),                       \* > 32 bit
    L("int", "-9223372036854775809", "-9223372036854775809"),   \* < -2^63
    L("int", "18446744073709551616", "18446744073709551616"),   \* 2^64
    L("int", "100000000000000000000000000000000000000000", "100000000000000000000000000000000000000000"),
    L("int", "0xff", "255"), L("int", "1_000_000", "1000000"), L("int", "-0", "0") }

\* v = float.hex() of the value the source text denotes (IEEE-754 double)
Floats ==
  { L("float", "1.5", "0x1.8000000000000p+0"), L("float", "1.0", "0x1.0000000000000p+0"),
    L("float", "-0.0", "-0x0.0p+0"), L("float", "0.1", "0x1.999999999999ap-4"),
    L("float", "1e100", "0x1.249ad2594c37dp+332"), L("float", "1e16", "0x1.1c37937e08000p+53"),
    L("float", "1e23", "0x1.52d02c7e14af6p+76"), L("float", "1e-7", "0x1.ad7f29abcaf48p-24"),
    L("float", "5e-324", "0x0.0000000000001p-1022"),                   \* smallest denormal
    L("float", "1.7976931348623157e308", "0x1.fffffffffffffp+1023"),   \* largest finite
    L("float", "123456789.123456789", "0x1.d6f34547e6b75p+26"),
    L("float", "1e999", "inf"), L("float", "-1e999", "-inf") }         \* overflow to infinity is accepted

Complexes ==   \* v = real.hex() "," imag.hex()
  { L("complex", "2j", "0x0.0p+0,0x1.0000000000000p+1"),
    L("complex", "1+2j", "0x1.0000000000000p+0,0x1.0000000000000p+1"),
    L("complex", "1e999j", "0x0.0p+0,inf") }

Consts == { L("bool", "True", "True"), L("bool", "False", "False"), L("none", "None", "None"),
            L("ellipsis", "...", "Ellipsis") }
Bytes  == { L("bytes", "b'a\\xff\\x00\\''", "97,255,0,39") }

\* Characters: code point and the escape used in a double-quoted Python source literal
Chars ==
  { [cp |-> 97, esc |-> "a"], [cp |-> 32, esc |-> " "], [cp |-> 34, esc |-> "\\\""], [cp |-> 39, esc |-> "'"],
    [cp |-> 92, esc |-> "\\\\"], [cp |-> 10, esc |-> "\\n"], [cp |-> 9, esc |-> "\\t"], [cp |-> 13, esc |-> "\\r"],
    [cp |-> 0, esc |-> "\\x00"], [cp |-> 35, esc |-> "#"], [cp |-> 61, esc |-> "="], [cp |-> 123, esc |-> "{"],
    [cp |-> 233, esc |-> "\\xe9"], [cp |-> 26085, esc |-> "\\u65e5"], [cp |-> 128512, esc |-> "\\U0001f600"],
    [cp |-> 55296, esc |-> "\\ud800"], [cp |-> 127, esc |-> "\\x7f"], [cp |-> 133, esc |-> "\\x85"] }
\* plain characters used only in the look-alike strings below
Plain == { [cp |-> 78, esc |-> "N"], [cp |-> 111, esc |-> "o"], [cp |-> 110, esc |-> "n"], [cp |-> 101, esc |-> "e"],
           [cp |-> 49, esc |-> "1"], [cp |-> 105, esc |-> "i"], [cp |-> 102, esc |-> "f"], [cp |-> 91, esc |-> "["],
           [cp |-> 93, esc |-> "]"] }
EscOf(cp) == (CHOOSE ch \in Chars \cup Plain : ch.cp = cp).esc

RECURSIVE SeqsUpTo(_, _)
SeqsUpTo(S, n) == IF n = 0 THEN {<<>>}
                  ELSE LET P == SeqsUpTo(S, n - 1)
                       IN P \cup {Append(p, x) : p \in {q \in P : Len(q) = n - 1}, x \in S}

Str(cps) == [t |-> "str", cps |-> cps]
Strings == {Str(q) : q \in SeqsUpTo({ch.cp : ch \in Chars}, StrLen)}
\* strings that look like other literals
Lookalikes == { Str(<<78, 111, 110, 101>>) (* "None" *), Str(<<49>>) (* "1" *), Str(<<105, 110, 102>>) (* "inf" *),
                Str(<<91, 49, 93>>) (* "[1]" *) }

Leaves == Ints \cup Floats \cup Complexes \cup Consts \cup Bytes \cup Strings \cup Lookalikes

----------------------------------------------------------------------------
(* Containers                                                                *)
Node(t, items) == [t |-> t, items |-> items]
Hashable(a) == a.t \notin {"list", "dict", "set"} /\ (a.t = "tuple" => \A i \in 1..Len(a.items) : a.items[i].t \notin {"list", "dict", "set"})
Distinct(s) == \A i, j \in 1..Len(s) : i # j => s[i] # s[j]

\* a small palette of elements: one of each kind, with the awkward string  a"\'<newline>
Pal == { L("int", "18446744073709551616", "18446744073709551616"), L("float", "0.1", "0x1.999999999999ap-4"),
         L("float", "1.0", "0x1.0000000000000p+0"), L("int", "1", "1"), L("bool", "True", "True"),
         L("none", "None", "None"), Str(<<97, 34, 92, 39, 10>>), Str(<<>>) }
\* In Python 1 == 1.0 == True: as set members / dict keys they collapse; keep at most one of them per container
OneLike(a) == a \in {L("float", "1.0", "0x1.0000000000000p+0"), L("int", "1", "1"), L("bool", "True", "True")}
NoCollapse(s) == Cardinality({i \in 1..Len(s) : OneLike(s[i])}) <= 1

Flat ==
  {Node(t, q) : t \in {"list", "tuple"}, q \in SeqsUpTo(Pal, 2)}
  \cup {Node("set", q) : q \in {r \in SeqsUpTo(Pal, 2) : Distinct(r) /\ NoCollapse(r)}}
  \cup {Node("dict", q) : q \in {r \in SeqsUpTo({<<k, v>> : k \in Pal, v \in {L("int", "1", "1"), Str(<<97, 34, 92, 39, 10>>)}}, 2) :
                                  Distinct([i \in 1..Len(r) |-> r[i][1]]) /\ NoCollapse([i \in 1..Len(r) |-> r[i][1]])}}

\* containers of containers (and a 3-deep one), a modest selection
Inner == { Node("list", <<>>), Node("tuple", <<L("int", "1", "1")>>), Node("dict", << <<Str(<<97>>), L("float", "1e999", "inf")>> >>),
           Node("set", <<L("int", "7", "7")>>), Node("list", <<Str(<<97, 34, 92, 39, 10>>), L("none", "None", "None")>>),
           Node("tuple", <<Node("list", <<L("float", "-0.0", "-0x0.0p+0")>>)>>) }
Nested ==
  {Node(t, q) : t \in {"list", "tuple"}, q \in SeqsUpTo(Inner \cup {L("int", "1", "1")}, 2) \ {<<>>}}
  \cup {Node("dict", << <<k, v>> >>) : k \in {Str(<<97>>), L("int", "7", "7"), Node("tuple", <<L("int", "1", "1"), Str(<<97>>)>>)}, v \in Inner}
  \cup {Node("set", <<k>>) : k \in {a \in Inner : Hashable(a)}}

Values == Leaves \cup Flat \cup (IF Deep THEN Nested ELSE {})

----------------------------------------------------------------------------
(* Source text                                                               *)
RECURSIVE Join(_, _), Src(_), SrcSeq(_), SrcPairs(_), StrBody(_)
Join(ss, sep) == IF ss = <<>> THEN "" ELSE IF Len(ss) = 1 THEN ss[1] ELSE ss[1] \o sep \o Join(Tail(ss), sep)
StrBody(cps) == IF cps = <<>> THEN "" ELSE EscOf(Head(cps)) \o StrBody(Tail(cps))
SrcSeq(items) == [i \in 1..Len(items) |-> Src(items[i])]
SrcPairs(items) == [i \in 1..Len(items) |-> Src(items[i][1]) \o ": " \o Src(items[i][2])]
Src(a) ==
  CASE a.t = "str"   -> "\"" \o StrBody(a.cps) \o "\""
    [] a.t = "list"  -> "[" \o Join(SrcSeq(a.items), ", ") \o "]"
    [] a.t = "tuple" -> IF Len(a.items) = 1 THEN "(" \o Src(a.items[1]) \o ",)" ELSE "(" \o Join(SrcSeq(a.items), ", ") \o ")"
    [] a.t = "set"   -> IF a.items = <<>> THEN "set()" ELSE "{" \o Join(SrcSeq(a.items), ", ") \o "}"
    [] a.t = "dict"  -> "{" \o Join(SrcPairs(a.items), ", ") \o "}"
    [] OTHER         -> a.src

----------------------------------------------------------------------------
(* Cases                                                                     *)
Def(k, a) == [key |-> k, ast |-> a, src |-> Src(a)]

\* V: one variable, every value; nothing on the restart command line
CasesV == {[fam |-> "V", first |-> <<Def("X", a)>>, again |-> <<>>] : a \in Values}

\* O: overrides.  A, B first; at restart A is (maybe) given again with a value of another type / another string,
\* C is (maybe) new, B is never touched.
OPal == { L("int", "1", "1"), Str(<<49>>), Node("list", <<Str(<<97, 34, 92, 39, 10>>)>>), L("none", "None", "None"),
          L("float", "1.0", "0x1.0000000000000p+0") }
Opt(S) == {<<>>} \cup {<<x>> : x \in S}
CasesO == {[fam |-> "O", first |-> <<Def("A", a1), Def("B", b1)>>,
            again |-> [i \in 1..Len(a2) |-> Def("A", a2[i])] \o [i \in 1..Len(c2) |-> Def("C", c2[i])]]
           : a1 \in OPal, b1 \in {Str(<<49>>), Node("list", <<Str(<<97, 34, 92, 39, 10>>)>>)}, a2 \in Opt(OPal), c2 \in Opt({L("bool", "True", "True")})}

Cases == CasesV \cup CasesO

\* Domain: everything enumerated is accepted at first start by the documented rule "values must be valid Python
\* literals" (the harness asserts acceptance); no further restriction.
Legal(c) == TRUE

----------------------------------------------------------------------------
(* Denotation: variables after the restart                                   *)
Keys(defs) == {defs[i].key : i \in 1..Len(defs)}
Lookup(defs, k) == defs[CHOOSE i \in 1..Len(defs) : defs[i].key = k].ast
Expected(c) == [k \in Keys(c.first) \cup Keys(c.again) |->
                  IF k \in Keys(c.again) THEN Lookup(c.again, k) ELSE Lookup(c.first, k)]

VARIABLES c, exp
vars == <<c, exp>>
Init == /\ c \in {k \in Cases : Legal(k)}
        /\ exp = Expected(c)
Next == UNCHANGED vars
Spec == Init /\ [][Next]_vars

\* sanity of the oracle: untouched variables keep their first value; restart values win
Sane == /\ \A i \in 1..Len(c.first) : c.first[i].key \notin Keys(c.again) => exp[c.first[i].key] = c.first[i].ast
        /\ \A i \in 1..Len(c.again) : exp[c.again[i].key] = c.again[i].ast
=============================================================================
