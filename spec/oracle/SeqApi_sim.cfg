SPECIFICATION Spec
INVARIANT HistoryIndependent
INVARIANT Sane
CONSTANTS
  Ns = {4, 5}
  MaxLen = 16
  FirstCalls = {"valid", "on_sequence", "next", "next_on_sequence", "prev", "nearest_prev", "first", "start", "stop"}
  AllowUnbounded = TRUE
