SPECIFICATION BSpec
CONSTANTS
  Family = "tree"
  MinLeaves = 1
  MaxLeaves = 3
  Pools = {1, 2, 3}
  WithDecls = TRUE
  BothStyles = TRUE
INVARIANT AcceptRejectDisjoint
