SPECIFICATION Spec
CONSTANT Runs <- FullRuns
INVARIANT Monotone
