SPECIFICATION Spec
CONSTANT MaxLen = 2
CONSTANT TailLen = 2
INVARIANT DefinedAll
