SPECIFICATION Spec
INVARIANT RoundTrip
INVARIANT EqIffCmp
CONSTANTS
  IntLo <- T_IntLo
  IntHi = 60
  IvLo <- T_IvLo
  IvHi = 9
  DtHi = 60
  DkLo <- T_DkLo
  DkHi = 4
