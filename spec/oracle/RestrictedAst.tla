---------------------------- MODULE RestrictedAst ----------------------------
(* C24 oracle: which Python expressions may a restricted evaluator run?      *)
(*                                                                           *)
(* A case is a Python expression tree.  For every tree the module gives      *)
(*   - its source text,                                                      *)
(*   - the set of Python AST node classes the text parses to (Python's       *)
(*     documented abstract grammar: operators, contexts Load/Store and the   *)
(*     helper nodes arguments/arg/keyword/comprehension/FormattedValue/Slice *)
(*     are nodes too),                                                       *)
(*   - for each restricted evaluator under test whether the expression is    *)
(*     Allowed - every node class is on the evaluator's documented whitelist *)
(*     (an abstract class such as `operator` whitelists all its members) -   *)
(*     and otherwise the set of offending classes.                           *)
(* C24: an expression is rejected, before any part of it is evaluated, iff   *)
(* it is not Allowed.  The harness (harness/engines/restricted.py) renders   *)
(* nothing itself: it evaluates the text given here with side-effect         *)
(* canaries bound to the names c / touch / v.                                *)
EXTENDS Naturals, Sequences, FiniteSets, TLC

CONSTANTS FullOps      \* BOOLEAN: use every operator at depth 3 too (thorough) or one or two representatives (quick)

(* ----------------------------- whitelists -------------------------------- *)
EvalSeq == <<"completion", "ranking", "docexample">>
\* cylc.flow.task_outputs.CompletionEvaluator / cylc.flow.host_select.RankingExpressionEvaluator, as documented
\* there, and the evaluator built in the documentation of cylc.flow.util.restricted_evaluator itself
Whitelist(ev) ==
  CASE ev = "completion" -> {"Expression", "Name", "Load", "BoolOp", "And", "Or", "BinOp"}
    [] ev = "ranking"    -> {"Expression", "Name", "Load", "Attribute", "Subscript", "BinOp", "operator", "UnaryOp",
                             "unaryop", "Constant", "Compare", "cmpop", "List", "Tuple"}
    [] ev = "docexample" -> {"Expression", "BinOp", "Add", "Constant", "Name", "Load"}

(* ------------------------- Python's abstract grammar --------------------- *)
BinOps == {<<"|", "BitOr">>, <<"&", "BitAnd">>, <<"+", "Add">>, <<"-", "Sub">>, <<"*", "Mult">>, <<"/", "Div">>,
           <<"//", "FloorDiv">>, <<"%", "Mod">>, <<"**", "Pow">>, <<"<<", "LShift">>, <<">>", "RShift">>,
           <<"^", "BitXor">>, <<"@", "MatMult">>}
UnOps  == {<<"not ", "Not">>, <<"-", "USub">>, <<"~", "Invert">>, <<"+", "UAdd">>}
CmpOps == {<<"==", "Eq">>, <<"!=", "NotEq">>, <<"<", "Lt">>, <<"<=", "LtE">>, <<">", "Gt">>, <<">=", "GtE">>,
           <<"is", "Is">>, <<"is not", "IsNot">>, <<"in", "In">>, <<"not in", "NotIn">>}
BoolOps == {<<"and", "And">>, <<"or", "Or">>}
ClassOf(S, sym) == (CHOOSE p \in S : p[1] = sym)[2]
\* abstract base class of a node class (ast module): only the ones a whitelist can name
Abstract(k) ==
  IF k \in {p[2] : p \in BinOps} THEN "operator"
  ELSE IF k \in {p[2] : p \in UnOps} THEN "unaryop"
  ELSE IF k \in {p[2] : p \in CmpOps} THEN "cmpop"
  ELSE IF k \in {p[2] : p \in BoolOps} THEN "boolop"
  ELSE IF k \in {"Load", "Store", "Del"} THEN "expr_context"
  ELSE "expr"
Covered(ev, k) == k \in Whitelist(ev) \/ Abstract(k) \in Whitelist(ev)

\* a node is <<form, op, children>>;  Own(f, o) = the AST classes the node itself contributes
Own(f, o) ==
  CASE f = "Name"      -> {"Name", "Load"}
    [] f = "Constant"  -> {"Constant"}
    [] f = "UnaryOp"   -> {"UnaryOp", ClassOf(UnOps, o)}
    [] f = "Attribute" -> {"Attribute", "Load"}
    [] f = "Call0"     -> {"Call"}
    [] f = "StarList"  -> {"List", "Starred", "Load"}
    [] f = "Lambda"    -> IF o = "" THEN {"Lambda", "arguments"} ELSE {"Lambda", "arguments", "arg"}
    [] f = "JoinedStr" -> {"JoinedStr", "FormattedValue"}
    [] f = "NamedExpr" -> {"NamedExpr", "Name", "Store"}
    [] f = "Await"     -> {"Await"}
    [] f = "Yield"     -> {"Yield"}
    [] f = "YieldFrom" -> {"YieldFrom"}
    [] f = "List1"     -> {"List", "Load"}
    [] f = "Tuple1"    -> {"Tuple", "Load"}
    [] f = "Set1"      -> {"Set"}
    [] f = "BoolOp"    -> {"BoolOp", ClassOf(BoolOps, o)}
    [] f = "BinOp"     -> {"BinOp", ClassOf(BinOps, o)}
    [] f = "Compare"   -> {"Compare", ClassOf(CmpOps, o)}
    [] f = "Subscript" -> IF o = "slice" THEN {"Subscript", "Load", "Slice"} ELSE {"Subscript", "Load"}
    [] f = "Call"      -> (CASE o = "pos" -> {"Call"} [] o = "kw" -> {"Call", "keyword"}
                             [] o = "star" -> {"Call", "Starred", "Load"} [] o = "dstar" -> {"Call", "keyword"})
    [] f = "Comp"      -> {(CASE o = "list" -> "ListComp" [] o = "gen" -> "GeneratorExp" [] o = "set" -> "SetComp"
                              [] o = "dict" -> "DictComp")} \cup {"comprehension", "Name", "Store"}
    [] f = "Dict"      -> {"Dict"}
    [] f = "IfExp"     -> {"IfExp"}

\* source text; s = sequence of the children's texts (children are always parenthesised, which adds no node)
P(t) == "(" \o t \o ")"
Text(f, o, s) ==
  CASE f = "Name"      -> o
    [] f = "Constant"  -> o
    [] f = "UnaryOp"   -> P(o \o P(s[1]))
    [] f = "Attribute" -> P(P(s[1]) \o "." \o o)
    [] f = "Call0"     -> P(P(s[1]) \o "()")
    [] f = "StarList"  -> "[*" \o P(s[1]) \o "]"
    [] f = "Lambda"    -> P("lambda " \o o \o ": " \o P(s[1]))
    [] f = "JoinedStr" -> "f'{" \o P(s[1]) \o "}'"
    [] f = "NamedExpr" -> P("w := " \o P(s[1]))
    [] f = "Await"     -> P("await " \o P(s[1]))
    [] f = "Yield"     -> P("yield " \o P(s[1]))
    [] f = "YieldFrom" -> P("yield from " \o P(s[1]))
    [] f = "List1"     -> "[" \o P(s[1]) \o "]"
    [] f = "Tuple1"    -> P(P(s[1]) \o ",")
    [] f = "Set1"      -> "{" \o P(s[1]) \o "}"
    [] f \in {"BoolOp", "BinOp", "Compare"} -> P(P(s[1]) \o " " \o o \o " " \o P(s[2]))
    [] f = "Subscript" -> P(P(s[1]) \o "[" \o P(s[2]) \o (IF o = "slice" THEN ":" ELSE "") \o "]")
    [] f = "Call"      -> P(P(s[1]) \o "(" \o (CASE o = "pos" -> "" [] o = "kw" -> "k=" [] o = "star" -> "*"
                                                 [] o = "dstar" -> "**") \o P(s[2]) \o ")")
    [] f = "Comp"      -> (CASE o = "list" -> "[" \o P(s[1]) \o " for q in " \o P(s[2]) \o "]"
                             [] o = "gen"  -> "(" \o P(s[1]) \o " for q in " \o P(s[2]) \o ")"
                             [] o = "set"  -> "{" \o P(s[1]) \o " for q in " \o P(s[2]) \o "}"
                             [] o = "dict" -> "{" \o P(s[1]) \o ": " \o P(s[1]) \o " for q in " \o P(s[2]) \o "}")
    [] f = "Dict"      -> "{" \o P(s[1]) \o ": " \o P(s[2]) \o "}"
    [] f = "IfExp"     -> P(P(s[1]) \o " if " \o P(s[2]) \o " else " \o P(s[3]))

RECURSIVE Src(_)
Src(n) == Text(n[1], n[2], [i \in 1..Len(n[3]) |-> Src(n[3][i])])
RECURSIVE Kinds(_)
Kinds(n) == Own(n[1], n[2]) \cup UNION {Kinds(n[3][i]) : i \in 1..Len(n[3])}
RECURSIVE Depth(_)
Max(S) == CHOOSE m \in S : \A k \in S : k <= m
Depth(n) == IF Len(n[3]) = 0 THEN 1 ELSE 1 + Max({Depth(n[3][i]) : i \in 1..Len(n[3])})

AllKinds(n) == Kinds(n) \cup {"Expression"}         \* the root of a parsed expression
Allowed(ev, n) == \A k \in AllKinds(n) : Covered(ev, k)
Offending(ev, n) == {k \in AllKinds(n) : ~Covered(ev, k)}

(* --------------------------------- forms --------------------------------- *)
\* <<form, op, arity>>
LeafForms == {<<"Name", "c", 0>>, <<"Name", "touch", 0>>, <<"Name", "v", 0>>, <<"Constant", "1", 0>>, <<"Constant", "'s'", 0>>}
UnaryFormsAll ==
  {<<"UnaryOp", p[1], 1>> : p \in UnOps} \cup
  {<<"Attribute", "attr", 1>>, <<"Attribute", "__class__", 1>>, <<"Call0", "", 1>>, <<"StarList", "", 1>>,
   <<"Lambda", "", 1>>, <<"Lambda", "a", 1>>, <<"JoinedStr", "", 1>>, <<"NamedExpr", "", 1>>, <<"Await", "", 1>>,
   <<"Yield", "", 1>>, <<"YieldFrom", "", 1>>, <<"List1", "", 1>>, <<"Tuple1", "", 1>>, <<"Set1", "", 1>>}
BinaryFormsAll ==
  {<<"BoolOp", p[1], 2>> : p \in BoolOps} \cup {<<"BinOp", p[1], 2>> : p \in BinOps} \cup
  {<<"Compare", p[1], 2>> : p \in CmpOps} \cup
  {<<"Subscript", "idx", 2>>, <<"Subscript", "slice", 2>>, <<"Call", "pos", 2>>, <<"Call", "kw", 2>>, <<"Call", "star", 2>>,
   <<"Call", "dstar", 2>>, <<"Comp", "list", 2>>, <<"Comp", "gen", 2>>, <<"Comp", "set", 2>>, <<"Comp", "dict", 2>>,
   <<"Dict", "", 2>>}
TernaryForms == {<<"IfExp", "", 3>>}
FormsAll == UnaryFormsAll \cup BinaryFormsAll \cup TernaryForms
\* representatives: one or two operators per class
CoreOps == {"not ", "-", "and", "or", "|", "+", "==", "in", "attr", "idx", "slice", "pos", "star", "list", "gen", "", "a"}
FormsCore == {f \in FormsAll : f[2] \in CoreOps}
CoreLeaves == {<<"Name", "c", 0>>, <<"Name", "touch", 0>>, <<"Constant", "1", 0>>}

Mk(f, kids) == <<f[1], f[2], kids>>
LeafNode(f) == Mk(f, <<>>)
Vleaf == LeafNode(<<"Name", "v", 0>>)

\* every tree of the form f over children drawn from C
Over(f, C) == {Mk(f, kids) : kids \in [1..f[3] -> C]}
\* the form f with one child from C in slot i and the plain name v elsewhere
Spine(f, i, C) == {Mk(f, [j \in 1..f[3] |-> IF j = i THEN ch ELSE Vleaf]) : ch \in C}

Depth1 == {LeafNode(f) : f \in LeafForms}
Depth2Core == UNION {Over(f, {LeafNode(g) : g \in CoreLeaves}) : f \in FormsCore}
Forms3 == IF FullOps THEN FormsAll ELSE FormsCore

\* batches: <<"d1">> | <<"d2", form>> | <<"d3", form, slot>>
Keys == {<<"d1">>} \cup {<<"d2", f>> : f \in FormsAll}
        \cup UNION { {<<"d3", f, i>> : i \in 1..f[3]} : f \in Forms3 }
TreesOf(k) == CASE k[1] = "d1" -> Depth1
                [] k[1] = "d2" -> Over(k[2], Depth1)
                [] k[1] = "d3" -> Spine(k[2], k[3], Depth2Core)
KeyText(k) == CASE k[1] = "d1" -> "leaves"
                [] k[1] = "d2" -> "d2 " \o k[2][1] \o " " \o k[2][2]
                [] k[1] = "d3" -> "d3 " \o k[2][1] \o " " \o k[2][2] \o " slot " \o ToString(k[3])

\* one case: <<text, depth, node classes, <<allowed?, offending classes>> for each evaluator of EvalSeq>>
CaseRec(n) == << Src(n), Depth(n), AllKinds(n),
                 [i \in 1..Len(EvalSeq) |-> <<Allowed(EvalSeq[i], n), Offending(EvalSeq[i], n)>>] >>

VARIABLES key, batch
vars == <<key, batch>>
Init == \E k \in Keys : key = KeyText(k) /\ batch = {CaseRec(n) : n \in TreesOf(k)}
Next == UNCHANGED vars
Spec == Init /\ [][Next]_vars

\* sanity of the oracle: allowed <=> nothing offending; every call / lambda / comprehension / walrus is refused by both
Coherent == \A c \in batch : \A i \in 1..Len(EvalSeq) : c[4][i][1] <=> (c[4][i][2] = {})
NoCalls == \A c \in batch :
   (c[3] \cap {"Call", "Lambda", "ListComp", "GeneratorExp", "SetComp", "DictComp", "NamedExpr", "Starred", "JoinedStr",
               "IfExp", "Await", "Yield", "YieldFrom"} # {}) => (\A i \in 1..Len(EvalSeq) : ~c[4][i][1])
\* the completion evaluator whitelists BinOp but no binary operator: no BinOp expression is allowed
ASSUME \A p \in BinOps : ~Covered("completion", p[2])
=============================================================================
