------------------------------- MODULE SeqApi -------------------------------
(* C17 oracle: the meaning of the sequence API, and its independence of the  *)
(* query history.                                                            *)
(*                                                                           *)
(* A recurrence is abstracted to the finite ordered list of the points of    *)
(* the underlying (exclusion-free) recurrence, numbered 1..n, with a flag    *)
(* per point saying whether it is excluded.  "bounded" says whether the list *)
(* is the whole recurrence or only the first n points of an unbounded one.   *)
(* Time is abstracted to the integers 1..2n+1:                               *)
(*      2i    = the i-th point of the underlying recurrence,                 *)
(*      2i+1  = some instant strictly between point i and point i+1          *)
(*      1     = an instant before the first point, 2n+1 = after the last.    *)
(* The valid points are V = {2i : i not excluded}.  Every API method is a    *)
(* pure function of the list (operator Answer); 0 stands for None.           *)
(*                                                                           *)
(* The behaviours of the spec are query histories: sequences of calls        *)
(* <<method, argument>> together with the answer the property requires.  The *)
(* answer of a call is Answer(lst, m, t) whatever was asked before - that is *)
(* the history-independence clause (HistoryIndependent).  The harness binds  *)
(* every abstract list to concrete ISO 8601 recurrences and replays the      *)
(* histories on one ISO8601Sequence object per history.                      *)
EXTENDS Integers, Sequences, FiniteSets, FiniteSetsExt, TLC

CONSTANTS
  Ns,          \* list lengths
  MaxLen,      \* maximal history length
  FirstCalls,  \* methods allowed as non-final calls of an enumerated history (cache-filling ones)
  AllowUnbounded

Lists ==
  { l \in [n : Ns, excl : SUBSET (1..Max(Ns)), bounded : BOOLEAN] :
      /\ l.excl \subseteq 1..l.n
      /\ (~l.bounded => AllowUnbounded)
      \* of an unbounded recurrence only a prefix is listed: its last listed point must be valid,
      \* so that every query inside the prefix has its answer inside the prefix
      /\ (~l.bounded => l.n \notin l.excl /\ l.n > 1) }

V(l) == {2 * i : i \in (1..l.n) \ l.excl}
NONE == 0
MinOrNone(S) == IF S = {} THEN NONE ELSE Min(S)
MaxOrNone(S) == IF S = {} THEN NONE ELSE Max(S)

Methods == {"valid", "on_sequence", "next", "next_on_sequence", "prev", "nearest_prev", "first", "start", "stop"}

\* arguments a method may be asked with
Args(l, m) ==
  LET top == IF l.bounded THEN 2 * l.n + 1 ELSE 2 * l.n - 1
      all == 1..top
      onrec == {t \in all : t % 2 = 0}            \* on the underlying recurrence (excluded or not)
  IN CASE m \in {"start", "stop"} -> {0}
       [] m \in {"next_on_sequence", "prev"} -> onrec    \* contract: argument is on the recurrence
       [] OTHER -> all

Answer(l, m, t) ==
  CASE m = "valid"            -> IF t \in V(l) THEN 1 ELSE 0
    [] m = "on_sequence"      -> IF t \in V(l) THEN 1 ELSE 0
    [] m = "next"             -> MinOrNone({v \in V(l) : v > t})
    [] m = "next_on_sequence" -> MinOrNone({v \in V(l) : v > t})
    [] m = "prev"             -> MaxOrNone({v \in V(l) : v < t})
    [] m = "nearest_prev"     -> MaxOrNone({v \in V(l) : v < t})
    [] m = "first"            -> MinOrNone({v \in V(l) : v >= t})
    [] m = "start"            -> MinOrNone(V(l))
    [] m = "stop"             -> IF l.bounded THEN MaxOrNone(V(l)) ELSE NONE

Call(l, m, t) == [m |-> m, t |-> t, ans |-> Answer(l, m, t)]

VARIABLES lst, hist
vars == <<lst, hist>>

Init == lst \in Lists /\ hist = <<>>

\* Ask one more question.  Enumerated histories: every call but the last is one of FirstCalls
\* (the methods that fill caches), the last call is any method.
Ask(m, t) ==
  /\ Len(hist) < MaxLen
  /\ \A i \in 1..Len(hist) : hist[i].m \in FirstCalls
  /\ t \in Args(lst, m)
  /\ hist' = Append(hist, Call(lst, m, t))
  /\ UNCHANGED lst

Next == \E m \in Methods : \E t \in 0..(2 * lst.n + 1) : Ask(m, t)
Spec == Init /\ [][Next]_vars

\* The required answers are a function of the list and the call only.
HistoryIndependent ==
  \A i \in 1..Len(hist) : hist[i].ans = Answer(lst, hist[i].m, hist[i].t)
\* sanity of the definitions
Sane ==
  /\ \A i \in 1..Len(hist) :
       LET c == hist[i] IN
       /\ (c.m \in {"next", "next_on_sequence"} /\ c.ans # NONE) => c.ans \in V(lst) /\ c.ans > c.t
       /\ (c.m \in {"prev", "nearest_prev"} /\ c.ans # NONE) => c.ans \in V(lst) /\ c.ans < c.t
       /\ (c.m = "first" /\ c.ans # NONE) => c.ans \in V(lst) /\ c.ans >= c.t
       /\ (~lst.bounded /\ c.m \in {"next", "next_on_sequence", "first"}) => c.ans # NONE
=============================================================================
