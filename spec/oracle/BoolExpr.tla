------------------------------ MODULE BoolExpr ------------------------------
(* C12 oracle (and expression library for Completion.tla / C11).             *)
(*                                                                           *)
(* A completion expression is a tree over output variables joined by `and`   *)
(* and `or`.  This module defines - from the statement of C12 and the user   *)
(* documentation of [runtime][X]completion, NOT from cylc's code -           *)
(*   Eval      truth of an expression over a set of completed outputs,       *)
(*   Class     required / optional / unreferenced classification,            *)
(*   Verdict   whether validation must accept / must reject the expression   *)
(*             against an optionality declaration made in the graph,         *)
(*   Src       the text of the expression as a user would write it.          *)
(* TLC enumerates expression families as initial states (one batch of cases   *)
(* per state, to keep the state count small); the harness                     *)
(* (harness/engines/boolexpr.py) replays every case on the real code.        *)
EXTENDS Naturals, Sequences, FiniteSets, TLC

CONSTANTS Family,     \* "canon": every monotone boolean function of a pool, as DNF and as CNF
                      \* "tree" : every binary and/or tree with MinLeaves..MaxLeaves leaves
                      \* "none" : no BoolExpr cases (module used as a library by Completion.tla)
          MinLeaves, MaxLeaves,
          Pools,      \* subset of 1..3: which variable pools to use
          WithDecls,  \* BOOLEAN: also compute the accept / reject sets over all legal graph declarations
          BothStyles  \* BOOLEAN: render trees in both parenthesisation styles (else only the minimal one)

(* ------------------------------------------------------------------------ *)
(* Variables of a task as they appear in completion expressions ("compvars": *)
(* the output name with hyphens replaced by underscores).                    *)
AllVars  == {"succeeded", "failed", "submitted", "submit_failed", "expired", "started", "x", "y"}
\* Outcomes that happen instead of execution; C12: "treating expired and submit-failed as absent".
PreExec  == {"expired", "submit_failed"}
\* Variables whose optionality a graph can declare in this model (started is left alone).
DeclSeq  == <<"succeeded", "failed", "x", "y", "expired", "submit_failed", "submitted">>
DeclVars == {DeclSeq[i] : i \in 1..Len(DeclSeq)}

Pool(p) == CASE p = 1 -> <<"succeeded", "failed", "x", "y">>
             [] p = 2 -> <<"succeeded", "x", "expired", "submit_failed">>
             [] p = 3 -> <<"succeeded", "failed", "x", "expired">>
PoolSet(p) == {Pool(p)[i] : i \in 1..4}

(* ------------------------------ expressions ------------------------------ *)
\* <<"v", name>>  |  <<"and", l, r>>  |  <<"or", l, r>>
Leaf(v) == <<"v", v>>
Node(op, l, r) == <<op, l, r>>
IsLeaf(e) == e[1] = "v"

RECURSIVE TreesN(_, _)
TreesN(n, V) ==
  IF n = 1 THEN {Leaf(v) : v \in V}
  ELSE UNION { {Node(op, l, r) : op \in {"and", "or"}, l \in TreesN(i, V), r \in TreesN(n - i, V)}
               : i \in 1..(n - 1) }

RECURSIVE Eval(_, _)
Eval(e, S) == CASE e[1] = "v"   -> e[2] \in S
                [] e[1] = "and" -> Eval(e[2], S) /\ Eval(e[3], S)
                [] e[1] = "or"  -> Eval(e[2], S) \/ Eval(e[3], S)

RECURSIVE Vars(_)
Vars(e) == IF IsLeaf(e) THEN {e[2]} ELSE Vars(e[2]) \cup Vars(e[3])

RECURSIVE Depth(_)
Depth(e) == IF IsLeaf(e) THEN 0
            ELSE 1 + (IF Depth(e[2]) > Depth(e[3]) THEN Depth(e[2]) ELSE Depth(e[3]))

\* Text.  style "full": every operator child is parenthesised.
\*        style "min" : parentheses only where Python needs them to keep this tree
\*                      (`and` binds tighter than `or`; both associate to the left).
RECURSIVE Src(_, _)
Wrap(child, parent, isRight, style) ==
  IF IsLeaf(child) THEN Src(child, style)
  ELSE IF style = "min" /\ ( (child[1] = "and" /\ parent[1] = "or")
                             \/ (child[1] = parent[1] /\ ~isRight) )
       THEN Src(child, style)
       ELSE "(" \o Src(child, style) \o ")"
Src(e, style) ==
  IF IsLeaf(e) THEN e[2]
  ELSE Wrap(e[2], e, FALSE, style) \o " " \o e[1] \o " " \o Wrap(e[3], e, TRUE, style)

(* --------------------------- classification (C12) ------------------------ *)
\* "an output is classified required exactly when the expression is false whenever that
\*  output alone is missing (treating expired and submit-failed as absent)"
Present == AllVars \ PreExec
Required(e, o) == ~Eval(e, Present \ {o})
\* "optional when it is referenced but not required, and unreferenced otherwise"
Class(e, o) == IF o \notin Vars(e) THEN "unref"
               ELSE IF Required(e, o) THEN "req" ELSE "opt"
ReqSet(e)   == {o \in AllVars : Class(e, o) = "req"}
\* the whole classification as a record (a record constructor is evaluated once, eagerly)
ClassV(e, vs, o) == IF o \notin vs THEN "unref" ELSE IF Required(e, o) THEN "req" ELSE "opt"
ClassRec(e) == LET vs == Vars(e)
               IN [succeeded |-> ClassV(e, vs, "succeeded"), failed |-> ClassV(e, vs, "failed"),
                   x |-> ClassV(e, vs, "x"), y |-> ClassV(e, vs, "y"), expired |-> ClassV(e, vs, "expired"),
                   submit_failed |-> ClassV(e, vs, "submit_failed"), submitted |-> ClassV(e, vs, "submitted"),
                   started |-> ClassV(e, vs, "started")]
\* compact form: one letter per variable of ClsSeq, r(equired) / o(ptional) / - (unreferenced)
ClsSeq == <<"succeeded", "failed", "x", "y", "expired", "submit_failed", "submitted", "started">>
ClsLetter(c) == CASE c = "req" -> "r" [] c = "opt" -> "o" [] c = "unref" -> "-"
RECURSIVE ClsUpTo(_, _)
ClsUpTo(cm, i) == IF i = 0 THEN "" ELSE ClsUpTo(cm, i - 1) \o ClsLetter(cm[ClsSeq[i]])
ClsCode(cm) == ClsUpTo(cm, Len(ClsSeq))

(* ------------------------------- skip mode ------------------------------- *)
\* "the outputs that skip mode generates by default include every required output plus exactly one
\*  of succeeded/failed".  The clause can only be met (and only makes sense for a task that runs) when
\* the expression does not require both succeeded and failed, nor a pre-execution outcome.
SkipDomainC(cm) == /\ ~(cm["succeeded"] = "req" /\ cm["failed"] = "req")
                   /\ \A v \in PreExec : cm[v] # "req"
SkipOK(e, out) == /\ ReqSet(e) \subseteq out
                  /\ Cardinality(out \cap {"succeeded", "failed"}) = 1

(* ------------------- graph declarations and consistency ------------------ *)
Marks == {"req", "opt", "unset"}
\* What a graph can declare (documented parser rules): :expire and :submit-fail must carry "?";
\* opposite outputs (succeed/fail, submit/submit-fail) must both be optional if both are used.
Opposites == {<<"succeeded", "failed">>, <<"submitted", "submit_failed">>}
LegalDecl(d) ==
  /\ \A v \in PreExec : d[v] # "req"
  /\ \A p \in Opposites : (d[p[1]] # "unset" /\ d[p[2]] # "unset") => (d[p[1]] = "opt" /\ d[p[2]] = "opt")
\* every legal declaration that only mentions variables of V
Decls(V) == {d \in {[v \in DeclVars |-> IF v \in V THEN f[v] ELSE "unset"] : f \in [V \cap DeclVars -> Marks]} : LegalDecl(d)}

Letter(m) == CASE m = "req" -> "r" [] m = "opt" -> "o" [] m = "unset" -> "u"
RECURSIVE CodeUpTo(_, _)
CodeUpTo(d, i) == IF i = 0 THEN "" ELSE CodeUpTo(d, i - 1) \o Letter(d[DeclSeq[i]])
DeclCode(d) == CodeUpTo(d, Len(DeclSeq))      \* e.g. "ruouuuu", positions as in DeclSeq
\* compact index of a declaration over a pool: base-3 number, digit j = mark of pool[j]
Digit(m) == CASE m = "unset" -> 0 [] m = "req" -> 1 [] m = "opt" -> 2
DeclIdx(d, pool) == Digit(d[pool[1]]) + 3 * Digit(d[pool[2]]) + 9 * Digit(d[pool[3]]) + 27 * Digit(d[pool[4]])

\* Documented rule ("If task outputs are optional in the graph they must also be optional in the
\* completion condition and vice versa"), weakest reading: what any accepted expression must satisfy.
\*  - declared required  => required by the expression
\*  - declared optional  => not required by the expression; the pre-execution outcomes expired /
\*    submit-failed must in addition be referenced (else a task that expires could never complete)
\* (cm is the classification of the expression, see ClassRec)
WeakOKc(cm, d) ==
  \A v \in DeclVars :
     /\ (d[v] = "req" => cm[v] = "req")
     /\ (d[v] = "opt" => cm[v] # "req" /\ (v \in PreExec => cm[v] = "opt"))
WeakOK(e, d) == WeakOKc(ClassRec(e), d)
\* Strongest reading: declared optional => classified optional exactly, and the implied declarations
\* count as well (success presumed required when neither succeeded nor failed is declared;
\* failed implicitly optional when succeeded is optional).
Eff(d, v) ==
  IF v = "succeeded" /\ d["succeeded"] = "unset" /\ d["failed"] = "unset" THEN "req"
  ELSE IF v = "failed" /\ d["failed"] = "unset" /\ d["succeeded"] = "opt" THEN "opt"
  ELSE d[v]
StrictOKc(cm, d) ==
  \A v \in DeclVars :
     /\ (Eff(d, v) = "req" => cm[v] = "req")
     /\ (Eff(d, v) = "opt" => cm[v] = "opt")
StrictOK(e, d) == StrictOKc(ClassRec(e), d)
\* C12: "Validation accepts a user completion expression only if it is consistent":
\*   ~WeakOK  => must be rejected;  StrictOK => consistent under every reading, must be accepted;
\*   in between the documentation does not decide ("either").
VerdictC(cm, d) == IF ~WeakOKc(cm, d) THEN "reject" ELSE IF StrictOKc(cm, d) THEN "accept" ELSE "either"
Verdict(e, d) == VerdictC(ClassRec(e), d)

(* ------------------------------ canonical forms -------------------------- *)
\* Every non-constant monotone boolean function of 4 variables is the OR of an antichain of
\* AND-terms (and dually the AND of an antichain of OR-clauses); a term is a bit mask 1..15 over
\* the pool.  Monotone functions are built as up-sets of masks: a function of n variables is a pair
\* f0 <= f1 of functions of n-1 variables (value with variable n false / true).
Bit(m, i) == (m \div (2 ^ (i - 1))) % 2 = 1
SubMask(a, b) == \A i \in 1..4 : Bit(a, i) => Bit(b, i)
RECURSIVE UpSets(_)
UpSets(n) == IF n = 0 THEN {{}, {0}}
             ELSE LET M == UpSets(n - 1)
                  IN {pr[1] \cup {m + 2 ^ (n - 1) : m \in pr[2]} : pr \in {q \in M \X M : q[1] \subseteq q[2]}}
MinTerms(U) == {m \in U : \A k \in U : SubMask(k, m) => k = m}
Antichains == {MinTerms(U) : U \in {W \in UpSets(4) : W # {} /\ 0 \notin W}}
ASSUME Cardinality(UpSets(4)) = 168     \* the Dedekind number M(4)
RECURSIVE Chain(_, _)
Chain(s, op) == IF Len(s) = 1 THEN s[1] ELSE Node(op, Chain(SubSeq(s, 1, Len(s) - 1), op), s[Len(s)])
NotNone(t) == t[1] # "none"
MaskLeaves(m, pool) == SelectSeq([i \in 1..4 |-> IF Bit(m, i) THEN Leaf(pool[i]) ELSE <<"none">>], NotNone)
TermSeq(A, pool, inner) ==
  SelectSeq([m \in 1..15 |-> IF m \in A THEN Chain(MaskLeaves(m, pool), inner) ELSE <<"none">>], NotNone)
Canon(A, pool, form) == IF form = "dnf" THEN Chain(TermSeq(A, pool, "and"), "or")
                                        ELSE Chain(TermSeq(A, pool, "or"), "and")

(* --------------------------------- cases --------------------------------- *)
\* To keep the number of TLC states small every state carries a batch of cases:
\*   canon: key = <<pool, form>>,            batch = one case per antichain (monotone function)
\*   tree : key = <<pool, skeleton text>>,   batch = the skeleton (shape + operators) filled with every
\*                                                   assignment of pool variables to its leaves, both styles
RECURSIVE Leaves(_)
Leaves(e) == IF IsLeaf(e) THEN 1 ELSE Leaves(e[2]) + Leaves(e[3])
RECURSIVE Fill(_, _)
Fill(sk, s) == IF IsLeaf(sk) THEN Leaf(s[1])
               ELSE LET nl == Leaves(sk[2])
                    IN Node(sk[1], Fill(sk[2], SubSeq(s, 1, nl)), Fill(sk[3], SubSeq(s, nl + 1, Len(s))))
Skeletons == UNION {TreesN(n, {"_"}) : n \in MinLeaves..MaxLeaves}
Styles(e) == IF BothStyles /\ Depth(e) >= 2 THEN {"full", "min"} ELSE {"min"}   \* the styles differ only with an operator child

Keys == IF Family = "canon" THEN {<<p, f>> : p \in Pools, f \in {"dnf", "cnf"}}
        ELSE IF Family = "tree" THEN {<<p, sk>> : p \in Pools, sk \in Skeletons}
        ELSE {}
KeyText(k) == IF Family = "canon" THEN k[2] ELSE Src(k[2], "full")
ExprsOf(k) == IF Family = "canon" THEN {<<Canon(A, Pool(k[1]), k[2]), "min">> : A \in Antichains}
              ELSE UNION { {<<Fill(k[2], a), st>> : st \in Styles(k[2])} : a \in [1..Leaves(k[2]) -> PoolSet(k[1])] }

\* one case: <<text, classification, depth, must-accept declarations, must-reject declarations,
\*             is the skip-mode clause applicable>>
CaseRec(e, st, D) ==
  LET cm == ClassRec(e)
      vs == {<<dd[2], VerdictC(cm, dd[1])>> : dd \in D}
  IN << Src(e, st), ClsCode(cm), Depth(e),
        {q[1] : q \in {r \in vs : r[2] = "accept"}},
        {q[1] : q \in {r \in vs : r[2] = "reject"}},
        SkipDomainC(cm) >>

VARIABLES pool, key, legal, batch
bvars == <<pool, key, legal, batch>>

BInit == \E k \in Keys :
           \* D: the legal declarations over the pool, each paired with its index
           LET D == IF WithDecls THEN {<<d, DeclIdx(d, Pool(k[1]))>> : d \in Decls(PoolSet(k[1]))} ELSE {}
           IN /\ pool = k[1]
              /\ key = KeyText(k)
              /\ legal = {dd[2] : dd \in D}
              /\ batch = {CaseRec(c[1], c[2], D) : c \in ExprsOf(k)}
BNext == UNCHANGED bvars
BSpec == BInit /\ [][BNext]_bvars

\* sanity of the oracle itself
AcceptRejectDisjoint == \A c \in batch : c[4] \cap c[5] = {} /\ (c[4] \cup c[5]) \subseteq legal
\* and/or expressions are monotone, so for a referenced output "false when it alone is missing" is the
\* same as "every way of completing the task (without expiring / submit-failing) contains the output"
ASSUME \A e \in TreesN(1, PoolSet(2)) \cup TreesN(2, PoolSet(2)) \cup TreesN(3, PoolSet(2)) :
         \A o \in Vars(e) : Required(e, o) <=> (\A S \in SUBSET Present : Eval(e, S) => o \in S)
\* the strict reading implies the weak one
ASSUME \A p \in 1..3 : \A e \in TreesN(1, PoolSet(p)) \cup TreesN(2, PoolSet(p)) :
         \A d \in Decls(PoolSet(p)) : StrictOK(e, d) => WeakOK(e, d)
=============================================================================
