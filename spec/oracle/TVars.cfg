SPECIFICATION Spec
CONSTANT StrLen = 2
CONSTANT Deep = TRUE
INVARIANT Sane
