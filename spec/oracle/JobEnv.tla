------------------------------- MODULE JobEnv -------------------------------
(* C41 oracle: literal task-environment values reach the job unchanged and   *)
(* are defined in configuration order.                                       *)
(*                                                                           *)
(* A case is an ordered list of definitions  NAME = value.  A value is a     *)
(* sequence of items; an item is a literal atom (a short piece of text) or a *)
(* reference $NAME / ${NAME} to a variable.  The expected job environment is *)
(* computed here by left-to-right substitution (the documented meaning: "the *)
(* order of definition is preserved so that each variable can refer to       *)
(* previously defined variables", values are otherwise passed through        *)
(* unchanged).  The only non-literal forms in the domain are the documented  *)
(* leading-tilde forms  ~  and  ~/rest  which mean $HOME and $HOME/rest.     *)
(*                                                                           *)
(* THIN ORACLE (DESIGN section 7): the meaning of a literal is the identity; *)
(* TLA+ contributes the case enumeration, the Legal domain and the ordering/ *)
(* substitution semantics.  The real judge of quoting is bash.               *)
(*                                                                           *)
(* Atoms are ASCII strings; the names TAB, NL, U+XXXX and <HOME> are decoded *)
(* by the harness (TLC cannot print non-ASCII strings).                      *)
EXTENDS Naturals, Sequences, FiniteSets, TLC

CONSTANTS MaxLen,     \* maximum number of atoms in a family-A value
          TailLen     \* maximum number of atoms after a leading ~/

\* Characters bash treats specially inside an assignment word / double quotes.
\* Values containing them are, by the documentation, shell expressions that
\* are evaluated by the job shell - outside the "literal value" domain:
\*     $   `   \   "
\* Every other printable character is claimed to be literal:
LitAtoms ==
  { "a", "B7", "_", " ", "  ", "'", "#", "=", "~", ",", ":", "/", "%", "!", "*", "?",
    "[", "]", "{", "}", "(", ")", ";", "&", "|", "<", ">", "^", "@", "+", "-", ".",
    "U+00E9", "U+65E5", "TAB", "NL" }

\* atoms that would extend an identifier when written directly after $NAME
IdentLike == {"a", "B7", "_", "x", "lit", "pre", "p", "q"}

Lit(s)  == [k |-> "lit",  s |-> s]
Ref(n)  == [k |-> "ref",  s |-> n]     \* $NAME
BRef(n) == [k |-> "bref", s |-> n]     \* ${NAME}

RECURSIVE SeqsUpTo(_, _)
SeqsUpTo(S, n) == IF n = 0 THEN {<<>>}
                  ELSE LET P == SeqsUpTo(S, n - 1)
                       IN P \cup {Append(p, x) : p \in {q \in P : Len(q) = n - 1}, x \in S}

----------------------------------------------------------------------------
(* Family A: one variable, every atom sequence of length 1..MaxLen.         *)
AValues == {[i \in 1..Len(q) |-> Lit(q[i])] : q \in SeqsUpTo(LitAtoms, MaxLen) \ {<<>>}}

\* A leading "~" is the shell's tilde-expansion character.  In the domain only
\* as the documented forms "~" alone and "~/rest" (meaning $HOME, $HOME/rest);
\* "~user" depends on the password database and "~<other>" is not documented.
\* The documented tilde forms are single-line paths ("~/filename with spaces"); a multi-line value that starts
\* with ~/ is not documented either way and is left out.
TildeOK(v) == v[1].s = "~" => /\ (Len(v) = 1 \/ v[2].s = "/")
                              /\ \A i \in 1..Len(v) : v[i].s # "NL"

\* "Leading or trailing whitespace will be stripped" by the config parser (documented), so such values can never
\* reach the job file from a configuration.
White == {" ", "  ", "TAB", "NL"}
Stripped(v) == v[1].s \notin White /\ v[Len(v)].s \notin White

\* ... plus the ~/rest form with every rest of 1..TailLen atoms (rest must stay one word: ~/"rest")
TValues == {[i \in 1..(Len(q) + 2) |-> IF i = 1 THEN Lit("~") ELSE IF i = 2 THEN Lit("/") ELSE Lit(q[i - 2])]
              : q \in SeqsUpTo(LitAtoms, TailLen) \ {<<>>}}

CasesA == {[fam |-> "A", filter |-> "none", defs |-> <<[name |-> "V", val |-> v]>>] : v \in {w \in AValues \cup TValues : TildeOK(w) /\ Stripped(w)}}

----------------------------------------------------------------------------
(* Family B: three variables whose configuration order is every permutation *)
(* of names chosen so that neither alphabetical nor reverse order coincides  *)
(* with all of them; later values refer to earlier ones and to a variable    *)
(* PRE that is already in the job environment.                               *)
Names == {"ZED", "ALPHA", "MID"}
Perms == {p \in [1..3 -> Names] : \A i, j \in 1..3 : i # j => p[i] # p[j]}

Val1 == { <<Lit("x")>>, <<Lit("p"), Lit(" "), Lit("#"), Lit("q")>>, <<BRef("PRE"), Lit("'"), Lit("=")>> }
Val2(n1) ==
  { <<Ref(n1)>>, <<BRef(n1)>>,
    <<Lit("pre"), Lit("="), BRef(n1), Lit("a")>>,
    <<Ref(n1), Lit(" "), Ref(n1)>>,
    <<Lit("-"), Lit("~"), Ref(n1)>>,
    <<Lit("lit")>>,
    <<Ref(n1), Lit(":"), Lit("~"), Lit("/"), Ref("PRE")>> }
Val3(n1, n2) ==
  { <<Ref(n2)>>, <<BRef(n2), BRef(n1)>>,
    <<Ref(n1), Lit("/"), Ref(n2), Lit("#"), Lit("a")>>,
    <<Lit("U+00E9"), BRef(n2), Lit("B7"), Lit("  "), Ref(n1)>>,
    <<Ref(n1)>>,
    <<Lit("x")>> }

CasesBx ==
  UNION { UNION { UNION { { [fam |-> "B", filter |-> "none",
                              defs |-> << [name |-> p[1], val |-> v1], [name |-> p[2], val |-> v2],
                                          [name |-> p[3], val |-> v3] >>] : v3 \in Val3(p[1], p[2]) }
                          : v2 \in Val2(p[1]) }
                  : v1 \in Val1 }
          : p \in Perms }

\* Family F: the family-B definitions (plus one more variable, UNUSED, defined second) are inherited from a parent
\* family and selected by the task's [environment filter]: "incl" lists the three names in the reverse of their
\* configuration order, "excl" excludes UNUSED.  A filter selects variables; it is not a re-ordering request, so the
\* job environment is that of the same definitions without a filter (and UNUSED is not defined).
CasesF == {[fam |-> "F", filter |-> f, defs |-> b.defs] : b \in CasesBx, f \in {"incl", "excl"}}

\* a plain $NAME must not be followed directly by an identifier character
RefsDelimited(v) ==
  \A i \in 1..Len(v) : v[i].k = "ref" /\ i < Len(v) => (v[i + 1].k # "lit" \/ v[i + 1].s \notin IdentLike)
\* references only to variables defined earlier (or to PRE)
RefsEarlier(defs) ==
  \A i \in 1..Len(defs) : \A j \in 1..Len(defs[i].val) :
     defs[i].val[j].k \in {"ref", "bref"} =>
        (defs[i].val[j].s = "PRE" \/ \E h \in 1..(i - 1) : defs[h].name = defs[i].val[j].s)

Legal(c) == /\ \A i \in 1..Len(c.defs) : RefsDelimited(c.defs[i].val)
            /\ RefsEarlier(c.defs)

----------------------------------------------------------------------------
(* Denotation                                                                *)
PreEnv == [n \in {"PRE"} |-> <<"o", " ", "v">>]      \* PRE='o v' is in the environment before

RECURSIVE Subst(_, _)
Subst(v, env) ==
  IF v = <<>> THEN <<>>
  ELSE (IF Head(v).k = "lit" THEN <<Head(v).s>>
        ELSE IF Head(v).s \in DOMAIN env THEN env[Head(v).s] ELSE <<>>)
       \o Subst(Tail(v), env)

\* the documented tilde forms: a value that is exactly "~" or starts "~/"
Meaning(v, env) ==
  IF v[1].k = "lit" /\ v[1].s = "~" /\ (Len(v) = 1 \/ (v[2].k = "lit" /\ v[2].s = "/"))
  THEN <<"<HOME>">> \o Subst(Tail(v), env)
  ELSE Subst(v, env)

Extend(env, n, x) == [m \in DOMAIN env \cup {n} |-> IF m = n THEN x ELSE env[m]]

RECURSIVE Run(_, _)
Run(defs, env) == IF defs = <<>> THEN env
                  ELSE Run(Tail(defs), Extend(env, Head(defs).name, Meaning(Head(defs).val, env)))

Expected(c) == Run(c.defs, PreEnv)

VARIABLES c, exp
vars == <<c, exp>>
Init == /\ c \in {k \in CasesA \cup CasesBx \cup CasesF : Legal(k)}
        /\ exp = Expected(c)
Next == UNCHANGED vars
Spec == Init /\ [][Next]_vars

\* sanity of the oracle: every defined name is in the result, PRE is untouched
DefinedAll == /\ \A i \in 1..Len(c.defs) : c.defs[i].name \in DOMAIN exp
              /\ exp["PRE"] = PreEnv["PRE"]
=============================================================================
