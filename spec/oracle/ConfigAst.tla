----------------------------- MODULE ConfigAst ------------------------------
(* C36 oracle: configuration processing is idempotent.                       *)
(*                                                                           *)
(* A case is a small workflow configuration described by feature choices:    *)
(* how each value is written (bare, quoted, triple quoted, trailing comment, *)
(* line continuation, Jinja2 variable / loop / include, %include file,       *)
(* duplicate section or item).  This module defines, for every case,         *)
(*   files   the source text (main file and include files, as lines),        *)
(*   tvars   template variables given from outside,                          *)
(*   exp     Denote(case): the configuration the source means, as an ordered *)
(*           tree of sections and items with the *validated* values          *)
(*           (strings unquoted, comment-stripped, dedented; lists split),    *)
(* written from the documented syntax rules, independently of the parser.    *)
(* TLC enumerates every case with at most K non-default features.            *)
(* The harness writes the files, parses the source, lets cylc write the      *)
(* processed file, parses that, and checks  source = processed  (the         *)
(* property) and  = exp  (guard that both are not wrong in the same way).    *)
(*                                                                           *)
(* THIN ORACLE (DESIGN section 7): TLA+ is the case enumerator plus the      *)
(* denotation of the syntax features; no state machine is explored.          *)
EXTENDS Naturals, Sequences, FiniteSets, TLC

CONSTANT K        \* maximum number of features that differ from the default

I1 == "    "
I2 == "        "
I3 == "            "
RECURSIVE Spaces(_)
Spaces(n) == IF n = 0 THEN "" ELSE " " \o Spaces(n - 1)
TQ == "\"\"\""
TS == "'''"

----------------------------------------------------------------------------
(* Features                                                                  *)
Feats == {"title", "desc", "inherit", "graph", "place", "env", "shebang"}
Dom(f) ==
  CASE f = "title"   -> {"bare", "dq", "sq", "tdq", "comment", "dqhash", "cont", "jvar", "tvar", "jraw", "contws", "jcont"}
    [] f = "desc"    -> {"none", "tdq", "tsq", "closecomment", "hashline", "blank", "cont", "include", "jfor",
                         "jinclude", "indent", "oneline", "inlinefirst"}
    [] f = "inherit" -> {"none", "bare", "quoted", "comment", "cont"}
    [] f = "graph"   -> {"single", "multi", "contbs", "contarrow", "dup", "dupsec", "jfor", "comment"}
    [] f = "place"   -> {"inline", "include", "nested", "keys", "dupsec", "jfor"}
    [] f = "env"     -> {"bare", "dq", "sq", "comment", "eq", "cont", "dqhash"}
    [] f = "shebang" -> {"no", "yes"}      \* "#!jinja2" although (maybe) nothing needs it
Default == [title |-> "bare", desc |-> "none", inherit |-> "none", graph |-> "single", place |-> "inline",
            env |-> "bare", shebang |-> "no"]

RECURSIVE Within(_)
Within(k) == IF k = 0 THEN {Default}
             ELSE LET P == Within(k - 1)
                  IN P \cup UNION { { [c EXCEPT ![f] = v] : v \in Dom(f) } : c \in P, f \in Feats }
Cases == Within(K)

JinjaOn(c) == \/ c.title \in {"jvar", "tvar", "jraw", "jcont"} \/ c.desc \in {"jfor", "jinclude"} \/ c.graph = "jfor"
              \/ c.place = "jfor" \/ c.shebang = "yes"

\* Domain restrictions (documented behaviour that is not a defect):
\*  - with Jinja2 every blank line of the rendered text is dropped (statements leave blank lines behind), also
\*    inside a multi-line string, so a blank line in a multi-line value is only in the domain without Jinja2.
Legal(c) == ~(c.desc = "blank" /\ JinjaOn(c))

\* "contws": white space after the continuation character on a *continued* line.  Documented as a syntax error
\* ("Whitespace after the line continuation character"); if the parser nevertheless accepts the source, only the
\* property itself (source = processed) is checked, not the denotation.
Strict(c) == c.title # "contws"

----------------------------------------------------------------------------
(* Multi-line values: a sequence of [ind, text] lines; the meaning is the    *)
(* text with the common indentation of the non-blank lines removed and       *)
(* leading / trailing white space stripped, lines joined by a newline.       *)
Ln(i, t) == [ind |-> i, text |-> t]
Min(S) == CHOOSE x \in S : \A y \in S : x <= y
Margin(ls) == LET S == {ls[i].ind : i \in {j \in 1..Len(ls) : ls[j].text # ""}} IN IF S = {} THEN 0 ELSE Min(S)
RECURSIVE JoinNL(_)
JoinNL(ss) == IF Len(ss) = 1 THEN ss[1] ELSE ss[1] \o "\n" \o JoinNL(Tail(ss))
Text(ls) == LET m == Margin(ls)
            IN JoinNL([i \in 1..Len(ls) |-> IF ls[i].text = "" THEN "" ELSE Spaces(ls[i].ind - m) \o ls[i].text])

----------------------------------------------------------------------------
(* [meta] title                                                              *)
TitleSrc(s) ==
  CASE s = "bare"    -> <<I1 \o "title = hello world">>
    [] s = "dq"      -> <<I1 \o "title = \"hello world\"">>
    [] s = "sq"      -> <<I1 \o "title = 'hello world'">>
    [] s = "tdq"     -> <<I1 \o "title = " \o TQ \o "hello world" \o TQ>>
    [] s = "comment" -> <<I1 \o "title = hello world  # a trailing comment">>
    [] s = "dqhash"  -> <<I1 \o "title = \"hello # world\"  # a trailing comment">>
    [] s = "cont"    -> <<I1 \o "title = hello \\", I2 \o "world">>
    [] s = "jvar"    -> <<I1 \o "title = {{ V }}">>
    [] s = "tvar"    -> <<I1 \o "title = {{ T }}">>
    [] s = "jraw"    -> <<I1 \o "title = \"{% raw %}{{ hello }} {# world #}{% endraw %}\"">>
    [] s = "contws"  -> <<I1 \o "title = hello \\", I2 \o "world \\ ">>
    \* the continuation character is produced by the template (Jinja2 runs before lines are joined), the source has none
    [] s = "jcont"   -> <<I1 \o "title = hello {{ BS }}", I2 \o "world">>
\* a continuation joins the next physical line (with its indentation) onto the text before the backslash
TitleVal(s) ==
  CASE s = "dqhash" -> "hello # world"
    [] s = "cont"   -> "hello " \o I2 \o "world"
    [] s = "jcont"  -> "hello " \o I2 \o "world"
    [] s = "jraw"   -> "{{ hello }} {# world #}"      \* raw block: Jinja2 syntax passes through as text
    [] s = "contws" -> "hello " \o I2 \o "world \\"
    [] OTHER        -> "hello world"

(* [meta] description: multi-line strings                                    *)
DescOpen(q) == I1 \o "description = " \o q
DescSrc(s) ==
  CASE s = "none"         -> <<>>
    [] s = "tdq"          -> <<DescOpen(TQ), I2 \o "first line", I2 \o "second line", I1 \o TQ>>
    [] s = "tsq"          -> <<DescOpen(TS), I2 \o "first line", I2 \o "second line", I1 \o TS>>
    [] s = "closecomment" -> <<DescOpen(TQ), I2 \o "first line", I2 \o "second line", I1 \o TQ \o "  # closing comment">>
    [] s = "hashline"     -> <<DescOpen(TQ), I2 \o "first line", I2 \o "# not a comment", I2 \o "second line", I1 \o TQ>>
    [] s = "blank"        -> <<DescOpen(TQ), I2 \o "first line", "", I2 \o "second line", I1 \o TQ>>
    [] s = "cont"         -> <<DescOpen(TQ), I2 \o "first \\", I2 \o "line", I2 \o "second line", I1 \o TQ>>
    [] s = "include"      -> <<DescOpen(TQ), I2 \o "first line", "%include inc/desc.txt", I1 \o TQ>>
    [] s = "jfor"         -> <<DescOpen(TQ), "{% for W in [\"first\", \"second\"] %}", I2 \o "{{ W }} line", "{% endfor %}", I1 \o TQ>>
    [] s = "jinclude"     -> <<DescOpen(TQ), "{% include \"inc/desc.j2\" %}", I1 \o TQ>>
    [] s = "indent"       -> <<DescOpen(TQ), I2 \o "first line", I3 \o "second line", I1 \o TQ>>
    [] s = "oneline"      -> <<DescOpen(TQ) \o "first line" \o TQ \o "  # comment">>
    [] s = "inlinefirst"  -> <<DescOpen(TQ) \o "first line", I2 \o "second line" \o TQ>>
DescLines(s) ==
  CASE s = "hashline"    -> <<Ln(8, "first line"), Ln(8, "# not a comment"), Ln(8, "second line")>>
    [] s = "blank"       -> <<Ln(8, "first line"), Ln(0, ""), Ln(8, "second line")>>
    [] s = "cont"        -> <<Ln(8, "first " \o I2 \o "line"), Ln(8, "second line")>>
    [] s = "indent"      -> <<Ln(8, "first line"), Ln(12, "second line")>>
    [] s = "oneline"     -> <<Ln(0, "first line")>>
    [] s = "inlinefirst" -> <<Ln(0, "first line"), Ln(8, "second line")>>
    [] OTHER             -> <<Ln(8, "first line"), Ln(8, "second line")>>
DescFiles(s) ==
  CASE s = "include"  -> << <<"inc/desc.txt", <<I2 \o "second line">> >> >>
    [] s = "jinclude" -> << <<"inc/desc.j2", <<I2 \o "first line", I2 \o "second line">> >> >>
    [] OTHER          -> <<>>

----------------------------------------------------------------------------
(* [scheduling][graph] R1                                                    *)
GOpen == I2 \o "R1 = " \o TQ
GClose == I2 \o TQ
GraphSrc(s) ==
  CASE s = "single"    -> <<I2 \o "R1 = a => b => c">>
    [] s = "multi"     -> <<GOpen, I3 \o "a => b", I3 \o "b => c", GClose>>
    [] s = "contbs"    -> <<GOpen, I3 \o "a => \\", I3 \o "b", I3 \o "b => c", GClose>>
    [] s = "contarrow" -> <<GOpen, I3 \o "a =>", I3 \o "b", I3 \o "b => c", GClose>>
    [] s = "dup"       -> <<I2 \o "R1 = a => b", I2 \o "R1 = b => c">>
    [] s = "dupsec"    -> <<I2 \o "R1 = a => b">>
    [] s = "jfor"      -> <<GOpen, "{% for P, Q in [(\"a\", \"b\"), (\"b\", \"c\")] %}", I3 \o "{{ P }} => {{ Q }}", "{% endfor %}", GClose>>
    [] s = "comment"   -> <<GOpen, I3 \o "a => b", I3 \o "# a graph comment", I3 \o "b => c  # trailing", GClose>>
\* a second [scheduling][[graph]] section at the end of the file; repeated graph items are concatenated
GraphTail(s) == IF s = "dupsec" THEN <<"[scheduling]", I1 \o "[[graph]]", I2 \o "R1 = b => c">> ELSE <<>>
GraphLines(s) ==
  CASE s = "single"    -> <<Ln(0, "a => b => c")>>
    [] s = "contbs"    -> <<Ln(12, "a => " \o I3 \o "b"), Ln(12, "b => c")>>
    [] s = "contarrow" -> <<Ln(12, "a =>"), Ln(12, "b"), Ln(12, "b => c")>>
    [] s = "comment"   -> <<Ln(12, "a => b"), Ln(12, "# a graph comment"), Ln(12, "b => c  # trailing")>>
    [] OTHER           -> <<Ln(12, "a => b"), Ln(12, "b => c")>>

----------------------------------------------------------------------------
(* [runtime][[a]]                                                            *)
InheritSrc(s) ==
  CASE s = "none"      -> <<>>
    [] s = "bare"      -> <<I2 \o "inherit = A, B">>
    [] s = "quoted"    -> <<I2 \o "inherit = 'A', \"B\"">>
    [] s = "comment"   -> <<I2 \o "inherit = A, B  # the families">>
    [] s = "cont"      -> <<I2 \o "inherit = A, \\", I3 \o "B">>
EnvSrc(s) ==
  CASE s = "bare"    -> <<I3 \o "X = x y">>
    [] s = "dq"      -> <<I3 \o "X = \"x y\"">>
    [] s = "sq"      -> <<I3 \o "X = 'x y'">>
    [] s = "comment" -> <<I3 \o "X = x y # a comment">>
    [] s = "eq"      -> <<I3 \o "X = x=y">>
    [] s = "cont"    -> <<I3 \o "X = x \\", I3 \o "y">>
    [] s = "dqhash"  -> <<I3 \o "X = \"x # y\"   # a comment">>
EnvVal(s) == CASE s = "eq" -> "x=y" [] s = "cont" -> "x " \o I3 \o "y" [] s = "dqhash" -> "x # y" [] OTHER -> "x y"

ABodyRest(c) == <<I2 \o "script = echo one", I2 \o "[[[environment]]]">> \o EnvSrc(c.env) \o <<I3 \o "Y = first">>
ABody(c) == InheritSrc(c.inherit) \o ABodyRest(c)
ASrc(c) ==
  CASE c.place = "inline"  -> <<I1 \o "[[a]]">> \o ABody(c)
    [] c.place = "include" -> <<"%include inc/a.cylc">>
    [] c.place = "nested"  -> <<I1 \o "%include 'inc/a.cylc'">>
    [] c.place = "keys"    -> <<I1 \o "[[a]]">> \o InheritSrc(c.inherit) \o <<"%include \"inc/akeys.cylc\"">>
    [] c.place = "dupsec"  -> <<I1 \o "[[a]]">> \o ABody(c)
    [] c.place = "jfor"    -> <<"{% for N in [\"a\", \"t1\", \"t2\"] %}", I1 \o "[[{{ N }}]]">> \o ABody(c) \o <<"{% endfor %}">>
AFiles(c) ==
  CASE c.place = "include" -> << <<"inc/a.cylc", <<I1 \o "[[a]]">> \o ABody(c)>> >>
    [] c.place = "nested"  -> << <<"inc/a.cylc", <<I1 \o "[[a]]", "%include inc/abody.cylc">> >>, <<"inc/abody.cylc", ABody(c)>> >>
    [] c.place = "keys"    -> << <<"inc/akeys.cylc", ABodyRest(c)>> >>
    [] OTHER               -> <<>>
\* a second [[a]] section after [[c]]: sections merge, a repeated item replaces the earlier value in place
ATail(c) == IF c.place = "dupsec"
            THEN <<I1 \o "[[a]]", I2 \o "script = echo two", I2 \o "[[[environment]]]", I3 \o "Y = second", I3 \o "Z = new">>
            ELSE <<>>

----------------------------------------------------------------------------
(* The files                                                                 *)
Main(c) ==
  (IF JinjaOn(c) THEN <<"#!jinja2", "{# a Jinja2 comment #}">> ELSE <<>>)
  \o (IF c.title = "jvar" THEN <<"{% set V = \"hello world\" %}">> ELSE <<>>)
  \o (IF c.title = "jcont" THEN <<"{% set BS = \"\\\\\" %}">> ELSE <<>>)
  \o <<"# a full-line comment", "", "[meta]">> \o TitleSrc(c.title) \o DescSrc(c.desc)
  \o <<"[scheduling]", I1 \o "[[graph]]">> \o GraphSrc(c.graph)
  \o <<"[runtime]", I1 \o "[[A]]", I1 \o "[[B]]">> \o ASrc(c)
  \o <<I1 \o "[[b]]  # a comment on a section heading", I2 \o "script = true", I1 \o "[[c]]", I2 \o "script = true">>
  \o ATail(c) \o GraphTail(c.graph)

Files(c) == << <<"flow.cylc", Main(c)>> >> \o DescFiles(c.desc) \o AFiles(c)
TVars(c) == IF c.title = "tvar" THEN << <<"T", "hello world">> >> ELSE <<>>

----------------------------------------------------------------------------
(* Denotation: ordered tree; values are <<"str", text>> or <<"list", <<texts>>>> *)
S(name, kids) == <<"S", name, kids>>
Str(key, text) == <<"I", key, "str", text>>
Lst(key, elems) == <<"I", key, "list", elems>>

ADenote(c, dup) ==
  (IF c.inherit = "none" THEN <<>> ELSE <<Lst("inherit", <<"A", "B">>)>>)
  \o <<Str("script", IF dup THEN "echo two" ELSE "echo one"),
       S("environment", <<Str("X", EnvVal(c.env)), Str("Y", IF dup THEN "second" ELSE "first")>>
                        \o (IF dup THEN <<Str("Z", "new")>> ELSE <<>>))>>

Denote(c) ==
  << S("meta", <<Str("title", TitleVal(c.title))>>
               \o (IF c.desc = "none" THEN <<>> ELSE <<Str("description", Text(DescLines(c.desc)))>>)),
     S("scheduling", <<S("graph", <<Str("R1", Text(GraphLines(c.graph)))>>)>>),
     S("runtime", <<S("A", <<>>), S("B", <<>>), S("a", ADenote(c, c.place = "dupsec"))>>
                  \o (IF c.place = "jfor" THEN <<S("t1", ADenote(c, FALSE)), S("t2", ADenote(c, FALSE))>> ELSE <<>>)
                  \o <<S("b", <<Str("script", "true")>>), S("c", <<Str("script", "true")>>)>>) >>

VARIABLES c, files, tvars, exp, strict
vars == <<c, files, tvars, exp, strict>>
Init == /\ c \in {k \in Cases : Legal(k)}
        /\ files = Files(c)
        /\ tvars = TVars(c)
        /\ exp = Denote(c)
        /\ strict = Strict(c)
Next == UNCHANGED vars
Spec == Init /\ [][Next]_vars

NonDefault(k) == Cardinality({f \in Feats : k[f] # Default[f]})
\* sanity of the enumeration
Bounded == NonDefault(c) <= K /\ files[1][1] = "flow.cylc"
=============================================================================
