SPECIFICATION Spec
CONSTANT SetIds <- QuickSets
INVARIANT AtMostProduct
