------------------------------- MODULE Names -------------------------------
(* C39 oracle: workflow names cannot escape the cylc-run directory.          *)
(*                                                                           *)
(* A name is a sequence of tokens over a small alphabet that contains the    *)
(* dangerous pieces ('.', '..', '/', '~', ' ', newline, unicode, reserved    *)
(* directory names).  The text of the name is the concatenation.             *)
(*                                                                           *)
(*  Valid(name)   - the documented rules for workflow names                  *)
(*                  (WorkflowNameValidator doc: 1..254 characters; cannot    *)
(*                  start with '.', '-' or a number; only word characters,   *)
(*                  '/', '_', '+', '-', '.', '@'; "cannot be an absolute     *)
(*                  path"; "cannot be a path that points to the cylc-run     *)
(*                  directory or above"), the last rule written as a depth   *)
(*                  walk over the components;                                *)
(*  ValidR(name)  - Valid plus "cannot contain a directory named <reserved>" *)
(*                  read strictly on the components as written;              *)
(*  Resolve(name) - POSIX path normalisation relative to cylc-run            *)
(*                  (number of escaping '..' + remaining components);        *)
(*  Safety theorem checked by TLC on the rules themselves:                   *)
(*      Valid  => StrictlyInside(Resolve(name))                              *)
(*      ValidR => StrictlyInside /\ NoReservedComponent(Resolve(name))       *)
(* The replay checks the one-directional property on the code: every name    *)
(* the code ACCEPTS must have inside = TRUE (and resfree = TRUE when         *)
(* reserved names are checked).                                              *)
EXTENDS Naturals, Sequences, FiniteSets, TLC

CONSTANTS MaxLen,        \* names of 0..MaxLen tokens over the full alphabet
          CoreLen,       \* plus names of CoreLen tokens over the core alphabet
          MiniLens,      \* plus names of these lengths over the mini alphabet  (a/../a needs 5 tokens)
          MicroLens      \* plus names of these lengths over {a, .., /}         (a/a/../.. needs 7 tokens)

Long250 == "aaaaaaaaaaaaaaaaaaaaaaaaaaaaaaaaaaaaaaaaaaaaaaaaaa" \o "aaaaaaaaaaaaaaaaaaaaaaaaaaaaaaaaaaaaaaaaaaaaaaaaaa"
        \o "aaaaaaaaaaaaaaaaaaaaaaaaaaaaaaaaaaaaaaaaaaaaaaaaaa" \o "aaaaaaaaaaaaaaaaaaaaaaaaaaaaaaaaaaaaaaaaaaaaaaaaaa"
        \o "aaaaaaaaaaaaaaaaaaaaaaaaaaaaaaaaaaaaaaaaaaaaaaaaaa"

\* token -> text is the identity except for the 250-character token
Alphabet == {"a", "1", ".", "..", "/", "~", " ", "-", "_", "é", ":", "\n",
             "run1", "log", "_cylc-install", ".service", "runN"}
Core     == {"a", "1", ".", "..", "/", "-", "run1", "log", ".service"}
Mini     == {"a", "..", "/", ".", "log"}
Micro    == {"a", "..", "/"}

TokText(t) == IF t = "A250" THEN Long250 ELSE t
TokLen(t) ==
  CASE t = "A250" -> 250 [] t = ".." -> 2 [] t = "run1" -> 4 [] t = "runN" -> 4 [] t = "log" -> 3
    [] t = "_cylc-install" -> 13 [] t = ".service" -> 8 [] OTHER -> 1

\* character classes of tokens (by their text)
AllowedTok(t)   == t \notin {"~", " ", ":", "\n"}           \* word chars, / _ + - . @ only
BadStartTok(t)  == t \in {".", "..", "-", "1", ".service"}  \* starts with '.', '-' or a digit
DigitTok(t)     == t = "1"
ReservedNames   == {"log", "_cylc-install", ".service", "runN"}   \* "log" also stands for share, work,
                                                                  \* flow.cylc, suite.rc (substituted by the harness)

RECURSIVE Text(_)
Text(s) == IF s = <<>> THEN "" ELSE TokText(Head(s)) \o Text(Tail(s))
RECURSIVE CharLen(_)
CharLen(s) == IF s = <<>> THEN 0 ELSE TokLen(Head(s)) + CharLen(Tail(s))

\* ---------------------------------------------------------- path structure
\* components between '/' (each a sequence of tokens; may be empty)
RECURSIVE SplitFrom(_, _, _)
SplitFrom(s, i, cur) ==
  IF i > Len(s) THEN << cur >>
  ELSE IF s[i] = "/" THEN << cur >> \o SplitFrom(s, i + 1, <<>>)
  ELSE SplitFrom(s, i + 1, Append(cur, s[i]))
Comps(s) == SplitFrom(s, 1, <<>>)

IsEmpty(c)  == c = <<>>
IsCur(c)    == c = << "." >>
IsParent(c) == c = << ".." >> \/ c = << ".", "." >>
IsReal(c)   == ~IsEmpty(c) /\ ~IsCur(c) /\ ~IsParent(c)
IsRunNumber(c) == Len(c) >= 1 /\ c[1] = "run1" /\ \A i \in 2..Len(c) : DigitTok(c[i])
Reserved(c) == (Len(c) = 1 /\ c[1] \in ReservedNames) \/ IsRunNumber(c)

Absolute(s) == Len(s) >= 1 /\ s[1] = "/"

\* POSIX normalisation relative to the cylc-run directory
RECURSIVE Norm(_, _, _, _)
Norm(cs, i, stack, up) ==
  IF i > Len(cs) THEN [up |-> up, comps |-> stack]
  ELSE LET c == cs[i] IN
       IF IsEmpty(c) \/ IsCur(c) THEN Norm(cs, i + 1, stack, up)
       ELSE IF IsParent(c)
            THEN IF Len(stack) > 0 THEN Norm(cs, i + 1, SubSeq(stack, 1, Len(stack) - 1), up)
                                   ELSE Norm(cs, i + 1, stack, up + 1)
       ELSE Norm(cs, i + 1, Append(stack, c), up)
Resolve(s) == Norm(Comps(s), 1, <<>>, 0)

StrictlyInside(s) == ~Absolute(s) /\ Resolve(s).up = 0 /\ Resolve(s).comps # <<>>
NoReservedComponent(s) == \A k \in 1..Len(Resolve(s).comps) : ~Reserved(Resolve(s).comps[k])

RECURSIVE JoinComps(_)
JoinComps(cs) == IF cs = <<>> THEN ""
                 ELSE IF Len(cs) = 1 THEN Text(cs[1]) ELSE Text(cs[1]) \o "/" \o JoinComps(Tail(cs))
RECURSIVE Ups(_)
Ups(n) == IF n = 0 THEN "" ELSE IF n = 1 THEN ".." ELSE "../" \o Ups(n - 1)
NormText(s) ==
  LET r == Resolve(s) IN
  IF r.up = 0 /\ r.comps = <<>> THEN "."
  ELSE IF r.up = 0 THEN JoinComps(r.comps)
  ELSE IF r.comps = <<>> THEN Ups(r.up)
  ELSE Ups(r.up) \o "/" \o JoinComps(r.comps)

\* ---------------------------------------------------------- documented rules
\* depth walk: +1 for a real component, -1 for '..'; "points to the cylc-run directory or above" iff the walk
\* ever goes below 0 or ends at 0
RECURSIVE Depths(_, _, _)
Depths(cs, i, d) ==
  IF i > Len(cs) THEN << d >>
  ELSE LET c == cs[i]
           d2 == IF IsReal(c) THEN d + 1 ELSE IF IsParent(c) THEN d - 1 ELSE d
       IN << d >> \o Depths(cs, i + 1, d2)
\* depths are offset by 10 to stay in Nat
PointsAtOrAbove(s) ==
  LET ds == Depths(Comps(s), 1, 10) IN (\E k \in 1..Len(ds) : ds[k] < 10) \/ ds[Len(ds)] = 10

Valid(s) ==
  /\ CharLen(s) >= 1 /\ CharLen(s) <= 254
  /\ ~BadStartTok(s[1])
  /\ \A i \in 1..Len(s) : AllowedTok(s[i])
  /\ ~Absolute(s)
  /\ ~PointsAtOrAbove(s)

ValidR(s) == Valid(s) /\ \A k \in 1..Len(Comps(s)) : ~Reserved(Comps(s)[k])

\* ---------------------------------------------------------- cases
SeqsOver(A, k) == [1..k -> A]
NameSet ==
  UNION {SeqsOver(Alphabet, k) : k \in 0..MaxLen}
  \cup SeqsOver(Core, CoreLen)
  \cup UNION {SeqsOver(Mini, k) : k \in MiniLens}
  \cup UNION {SeqsOver(Micro, k) : k \in MicroLens}
  \cup { <<"A250">> \o t : t \in UNION {SeqsOver({"a", "é", "log", "/"}, k) : k \in 0..3} }   \* length limit

RawReserved(s) == \E k \in 1..Len(Comps(s)) : Reserved(Comps(s)[k])

VARIABLES s, text, valid, validR, inside, resfree, rawres, norm
vars == <<s, text, valid, validR, inside, resfree, rawres, norm>>

Init == /\ s \in NameSet
        /\ text = Text(s)
        /\ valid = Valid(s)
        /\ validR = ValidR(s)
        /\ inside = StrictlyInside(s)
        /\ resfree = NoReservedComponent(s)
        /\ rawres = RawReserved(s)
        /\ norm = NormText(s)
Next == UNCHANGED vars
Spec == Init /\ [][Next]_vars

\* ---------------------------------------------------------- safety theorems on the rules
ValidImpliesInside == valid => inside
ValidRImpliesSafe  == validR => inside /\ resfree
\* normalisation never introduces a reserved component
NormKeepsReservedFree == ~rawres => resfree
\* the two formulations of "inside" agree for relative names
DepthWalkAgrees == ~Absolute(s) => (PointsAtOrAbove(s) <=> ~StrictlyInside(s))
=============================================================================
