------------------------------- MODULE Family -------------------------------
(* C15 oracle: the meaning of family triggers.                               *)
(* A case is a one-line graph using a family FAM (members m1..mn) on the     *)
(* left or on the right of an arrow.  The module defines, independently of   *)
(* cylc's parser, (a) the text of the line, (b) the set of satisfied-atom    *)
(* subsets under which the left-hand side is true, (c) which tasks get the   *)
(* trigger and which outputs get which optionality.  TLC enumerates the case *)
(* space as initial states; every state is replayed on GraphParser.          *)
EXTENDS Naturals, Sequences, FiniteSets, TLC

Quals == {"succeed", "fail", "finish", "start", "submit", "submit-fail", "expire"}

\* The member output(s) a family qualifier refers to (documented semantics).
MemOut(q) ==
  CASE q = "succeed"     -> {"succeeded"}
    [] q = "fail"        -> {"failed"}
    [] q = "finish"      -> {"succeeded", "failed"}
    [] q = "start"       -> {"started"}
    [] q = "submit"      -> {"submitted"}
    [] q = "submit-fail" -> {"submit-failed"}
    [] q = "expire"      -> {"expired"}

MemName(i) == CASE i = 1 -> "m1" [] i = 2 -> "m2" [] i = 3 -> "m3"
Members(n) == {MemName(i) : i \in 1..n}

Cases ==
  [ side : {"lhs"}, n : 1..3, q : Quals, mode : {"all", "any"}, off : {"", "[-P1]"},
    mix : {"none", "and", "or", "andfam", "orfam", "sameor", "sameparen"}, opt : BOOLEAN ]
  \cup
  [ side : {"rhs"}, n : 1..3, q : Quals \cup {"lone"}, mode : {"all", "any"}, off : {""},
    mix : {"none"}, opt : BOOLEAN ]

\* finish is a pseudo output and cannot be marked optional; lone "FAM" has no mode.
Legal(c) ==
  /\ (c.q = "finish" => ~c.opt)
  /\ (c.q = "lone" => c.mode = "all" /\ ~c.opt)
  \* cylc requires submit-failed and expired to be marked optional wherever they are written
  /\ (c.q \in {"submit-fail", "expire"} => c.opt)

\* the same family a second time in the same expression, with another qualifier and the other of all/any
Q2(c) == IF c.q = "start" THEN "succeed" ELSE "start"
Mode2(c) == IF c.mode = "all" THEN "any" ELSE "all"
Atom(m, off, o) == m \o off \o ":" \o o
Atoms(c) ==
  IF c.side = "rhs" THEN {"x:succeeded"}
  ELSE {Atom(m, c.off, o) : m \in Members(c.n), o \in MemOut(c.q)}
       \cup (IF c.mix \in {"and", "or"} THEN {"x:failed"} ELSE {})
       \cup (IF c.mix \in {"andfam", "orfam"} THEN {"g1:started", "g2:started"} ELSE {})
       \cup (IF c.mix \in {"sameor", "sameparen"} THEN {Atom(m, "", o) : m \in Members(c.n), o \in MemOut(Q2(c))} ELSE {})
       \cup (IF c.mix = "sameparen" THEN {"x:failed"} ELSE {})

MemSat(m, c, S) == \E o \in MemOut(c.q) : Atom(m, c.off, o) \in S
FamSat(c, S) == IF c.mode = "all" THEN \A m \in Members(c.n) : MemSat(m, c, S)
                                  ELSE \E m \in Members(c.n) : MemSat(m, c, S)
Mem2Sat(m, c, S) == \E o \in MemOut(Q2(c)) : Atom(m, "", o) \in S
Fam2Sat(c, S) == IF Mode2(c) = "all" THEN \A m \in Members(c.n) : Mem2Sat(m, c, S)
                                      ELSE \E m \in Members(c.n) : Mem2Sat(m, c, S)
\* second family G = {g1, g2} with start-any, to check two families in one expression
GSat(S) == "g1:started" \in S \/ "g2:started" \in S
LhsTrue(c, S) ==
  CASE c.side = "rhs"    -> "x:succeeded" \in S
    [] c.mix = "none"    -> FamSat(c, S)
    [] c.mix = "and"     -> FamSat(c, S) /\ "x:failed" \in S
    [] c.mix = "or"      -> FamSat(c, S) \/ "x:failed" \in S
    [] c.mix = "andfam"  -> FamSat(c, S) /\ GSat(S)
    [] c.mix = "orfam"   -> FamSat(c, S) \/ GSat(S)
    [] c.mix = "sameor"  -> FamSat(c, S) \/ Fam2Sat(c, S)
    [] c.mix = "sameparen" -> (FamSat(c, S) /\ Fam2Sat(c, S)) \/ "x:failed" \in S

TruthSet(c) == {S \in SUBSET Atoms(c) : LhsTrue(c, S)}

FamNode(c) == IF c.q = "lone" THEN "FAM" \o (IF c.opt THEN "?" ELSE "")
              ELSE "FAM" \o c.off \o ":" \o c.q \o "-" \o c.mode \o (IF c.opt THEN "?" ELSE "")
Line(c) ==
  IF c.side = "rhs" THEN "x => " \o FamNode(c)
  ELSE (IF c.mix = "sameparen" THEN "(" ELSE "") \o FamNode(c)
       \o (CASE c.mix = "none" -> "" [] c.mix = "and" -> " & x:fail?" [] c.mix = "or" -> " | x:fail?"
             [] c.mix = "andfam" -> " & G:start-any" [] c.mix = "orfam" -> " | G:start-any"
             [] c.mix = "sameor" -> " | FAM:" \o Q2(c) \o "-" \o Mode2(c)
             [] c.mix = "sameparen" -> " & FAM:" \o Q2(c) \o "-" \o Mode2(c) \o ") | x:fail?")
       \o " => y"

\* Tasks that receive the trigger.
Targets(c) == IF c.side = "rhs" THEN Members(c.n) ELSE {"y"}
\* Optionality that the line declares for member outputs:  <<member, output>> -> optional?
\* lhs with an offset declares nothing; a bare family name at the end of a chain declares nothing;
\* finish-* implies optional succeeded/failed.
DeclaredOpt(c) ==
  LET outs == IF c.q = "lone" THEN {"succeeded"} ELSE MemOut(c.q)
      o    == IF c.q = "finish" THEN TRUE ELSE c.opt
  IN (IF (c.side = "lhs" /\ c.off # "") \/ c.q = "lone" THEN {}
      ELSE {<<m, out, o>> : m \in Members(c.n), out \in outs})
     \cup (IF c.side = "lhs" /\ c.mix \in {"sameor", "sameparen"}
           THEN {<<m, out, FALSE>> : m \in Members(c.n), out \in MemOut(Q2(c))} ELSE {})

VARIABLES c, line, atoms, truth, targets, declopt
vars == <<c, line, atoms, truth, targets, declopt>>

Init == /\ c \in {k \in Cases : Legal(k)}
        /\ line = Line(c)
        /\ atoms = Atoms(c)
        /\ truth = TruthSet(c)
        /\ targets = Targets(c)
        /\ declopt = DeclaredOpt(c)
Next == UNCHANGED vars
Spec == Init /\ [][Next]_vars

\* sanity invariants of the oracle itself (non-vacuity: all-semantics is monotone in members)
AllImpliesAny == c.side = "lhs" /\ c.mix = "none" =>
   \A S \in SUBSET Atoms(c) : (\A m \in Members(c.n) : MemSat(m, c, S)) => (\E m \in Members(c.n) : MemSat(m, c, S))
=============================================================================
