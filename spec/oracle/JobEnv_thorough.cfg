SPECIFICATION Spec
CONSTANT MaxLen = 3
CONSTANT TailLen = 2
INVARIANT DefinedAll
