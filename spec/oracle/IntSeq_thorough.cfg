SPECIFICATION Spec
INVARIANT WindowWideEnough
INVARIANT Consistent
CONSTANTS
  AbsPts = {0, 1, 4, 7, 10}
  RelOffs <- T_RelOffs
  Steps = {1, 2, 3}
  Reps = {1, 2, 3, 4}
  Icps = {1, 3}
  Fcps <- T_Fcps
  ExPts = {3, 6, 9}
  ExSteps = {2, 3}
  ExAbs = {0, 4}
  ExRel = {1}
  QLo <- T_QLo
  QHi = 13
  WLo <- T_WLo
  WHi = 30
  ExtraCases = {}
  UseBox = TRUE
