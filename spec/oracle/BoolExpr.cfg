SPECIFICATION BSpec
CONSTANTS
  Family = "canon"
  MinLeaves = 1
  MaxLeaves = 1
  Pools = {1, 2, 3}
  WithDecls = TRUE
  BothStyles = TRUE
INVARIANT AcceptRejectDisjoint
