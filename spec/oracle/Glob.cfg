SPECIFICATION Spec
INVARIANT Unrestricted
INVARIANT FlowFilterShrinks
