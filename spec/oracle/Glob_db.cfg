INIT InitDB
NEXT Next
