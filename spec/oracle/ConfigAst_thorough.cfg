SPECIFICATION Spec
CONSTANT K = 3
INVARIANT Bounded
