SPECIFICATION Spec
INVARIANT AllImpliesAny
