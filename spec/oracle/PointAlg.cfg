SPECIFICATION Spec
INVARIANT RoundTrip
INVARIANT EqIffCmp
CONSTANTS
  IntLo <- Q_IntLo
  IntHi = 12
  IvLo <- Q_IvLo
  IvHi = 4
  DtHi = 26
  DkLo <- Q_DkLo
  DkHi = 3
