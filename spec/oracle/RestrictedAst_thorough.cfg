SPECIFICATION Spec
CONSTANTS
  FullOps = TRUE
INVARIANT Coherent
INVARIANT NoCalls
