SPECIFICATION CSpec
CONSTANTS
  Family = "none"
  MinLeaves = 1
  MaxLeaves = 1
  Pools = {}
  WithDecls = FALSE
  BothStyles = TRUE
  UserAllLeaves = 3
  UserOneLeaves = 4
  UserVars = {"succeeded", "failed", "x", "y", "expired", "submit_failed", "submitted"}
  SmallVars = {"succeeded", "failed", "x", "expired", "submit_failed"}
INVARIANT Monotone
