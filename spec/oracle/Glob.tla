-------------------------------- MODULE Glob --------------------------------
(* C40 oracle: workflow-state queries return exactly the recorded task       *)
(* instances that match.                                                     *)
(*                                                                           *)
(* Match(p, s): '*' in the pattern matches any (possibly empty) sequence of  *)
(* characters, every other character matches only itself, case-sensitively.  *)
(* Strings are sequences of one-character strings (TLC cannot index strings).*)
(*                                                                           *)
(* DB is a small recorded history: task names with '_', '%', mixed case;     *)
(* cycles 1 and 11; flows 1, 2 and 12; statuses; completed outputs               *)
(* {trigger -> message}.  A query is <<task pattern, cycle pattern, selector *)
(* (status | trigger | message), flow filter>>.  TLC enumerates every query  *)
(* and computes the expected result set; the harness builds the same DB as a *)
(* real sqlite workflow DB and asks CylcWorkflowDBChecker.                   *)
EXTENDS Naturals, Sequences, FiniteSets, TLC

\* ------------------------------------------------------------ strings
RECURSIVE Text(_)
Text(s) == IF s = <<>> THEN "" ELSE Head(s) \o Text(Tail(s))

RECURSIVE Match(_, _)
Match(p, s) ==
  IF p = <<>> THEN s = <<>>
  ELSE IF Head(p) = "*"
       THEN Match(Tail(p), s) \/ (s # <<>> /\ Match(p, Tail(s)))
       ELSE s # <<>> /\ Head(s) = Head(p) /\ Match(Tail(p), Tail(s))

\* ------------------------------------------------------------ recorded history
foo_a == <<"f","o","o","_","a">>
fooXa == <<"f","o","o","X","a">>
Foo_a == <<"F","o","o","_","a">>
FOO_A == <<"F","O","O","_","A">>
fpo   == <<"f","%","o">>
fXXo  == <<"f","X","X","o">>
foo   == <<"f","o","o">>
fo    == <<"f","o">>
c1    == <<"1">>
c11   == <<"1","1">>

Std(final) == {<<"submitted", "submitted">>, <<"started", "started">>, <<final, final>>}
Msg == "the quick brown"

Row(n, c, f, st, outs) == [name |-> n, cycle |-> c, flows |-> f, status |-> st, outputs |-> outs]
DB ==
  { Row(foo_a, c1,  {1},    "succeeded", Std("succeeded") \cup {<<"x", Msg>>}),
    Row(foo_a, c11, {1},    "failed",    Std("failed")),
    Row(foo_a, c1,  {2},    "failed",    Std("failed")),                  \* same task/cycle in a second flow
    Row(fooXa, c1,  {1},    "succeeded", Std("succeeded")),
    Row(Foo_a, c1,  {1, 2}, "succeeded", Std("succeeded") \cup {<<"x", Msg>>}),
    Row(FOO_A, c11, {1},    "failed",    Std("failed")),
    Row(fpo,   c1,  {12},   "succeeded", Std("succeeded")),                 \* flow 12 is neither flow 1 nor flow 2
    Row(fXXo,  c11, {2},    "succeeded", Std("succeeded") \cup {<<"y", "succeeded">>}),   \* message text = a std name
    Row(foo,   c1,  {1},    "waiting",   {}),
    Row(fo,    c11, {1},    "expired",   {<<"expired", "expired">>}) }

\* ------------------------------------------------------------ queries
None == <<"<none>">>     \* "no pattern given"
TaskPats ==
  { None, foo_a, fooXa, fpo,                                   \* exact names
    <<"*">>, <<"f","*">>, <<"F","*">>, <<"f","o","*">>,
    <<"f","o","o","_","*">>, <<"*","_","a">>, <<"*","_","*">>, <<"f","o","o","_","a","*">>,
    <<"F","O","O","_","*">>, <<"f","o","o","*","a">>, <<"*","X","*">>, <<"*","x","*">>,
    <<"f","%","*">>, <<"*","%","o">>, <<"f","*","o">>, <<"*","o","_","*">>, <<"f","_","*">>,
    <<"*","o","o","*">>, <<"*","*">>,
    <<"f","o","?","*">>, <<"[","f","]","*">> }              \* '?' and '[' are literal characters too
CyclePats == { None, c1, c11, <<"*">>, <<"1","*">>, <<"*","1">>, <<"1","_","*">> }

Selectors ==
  [kind : {"status"},  val : {"<none>", "succeeded", "failed", "expired"}] \cup
  [kind : {"trigger"}, val : {"<none>", "x", "y", "succeeded", "finished", "finish", "z"}] \cup
  [kind : {"message"}, val : {"<none>", Msg, "succeeded", "nope"}]
FlowFilters == {0, 1, 2, 3}      \* 0 = no flow filter

Queries == [task : TaskPats, cycle : CyclePats, sel : Selectors, flow : FlowFilters]

\* ------------------------------------------------------------ semantics
PatOk(p, s) == p = None \/ Match(p, s)
Triggers(r) == {o[1] : o \in r.outputs}
Messages(r) == {o[2] : o \in r.outputs}
SelOk(sel, r) ==
  CASE sel.kind = "status"  -> sel.val = "<none>" \/ r.status = sel.val
    [] sel.kind = "trigger" -> \/ sel.val = "<none>"
                               \/ sel.val \in Triggers(r)
                               \/ (sel.val \in {"finished", "finish"} /\ Triggers(r) \cap {"succeeded", "failed"} # {})
    [] sel.kind = "message" -> sel.val = "<none>" \/ sel.val \in Messages(r)
FlowOk(f, r) == f = 0 \/ f \in r.flows

Matches(q, r) == PatOk(q.task, r.name) /\ PatOk(q.cycle, r.cycle) /\ SelOk(q.sel, r) /\ FlowOk(q.flow, r)
Result(q) == { [name |-> Text(r.name), cycle |-> Text(r.cycle), flows |-> r.flows, status |-> r.status] :
               r \in {x \in DB : Matches(q, x)} }

VARIABLES mode, q, task, cycle, exp
vars == <<mode, q, task, cycle, exp>>

Init == /\ mode = "query"
        /\ q \in Queries
        /\ task = (IF q.task = None THEN "<none>" ELSE Text(q.task))
        /\ cycle = (IF q.cycle = None THEN "<none>" ELSE Text(q.cycle))
        /\ exp = Result(q)
Next == UNCHANGED vars
Spec == Init /\ [][Next]_vars

\* single state carrying the recorded history (second config: INIT InitDB)
AnyQuery == [task |-> None, cycle |-> None, sel |-> [kind |-> "status", val |-> "<none>"], flow |-> 0]
InitDB == /\ mode = "db" /\ q = AnyQuery /\ task = "" /\ cycle = ""
          /\ exp = { [name |-> Text(r.name), cycle |-> Text(r.cycle), flows |-> r.flows, status |-> r.status,
                      outputs |-> r.outputs] : r \in DB }

\* ------------------------------------------- sanity invariants of the oracle
\* a pattern without '*' matches exactly itself
ExactIsEquality == \A p \in TaskPats : (p # None /\ \A i \in 1..Len(p) : p[i] # "*") =>
                      \A r \in DB : Match(p, r.name) <=> (p = r.name)
StarMatchesAll == \A r \in DB : Match(<<"*">>, r.name) /\ Match(<<"*","*">>, r.name)
ASSUME ExactIsEquality /\ StarMatchesAll        \* constant-level: checked once by TLC at start-up
\* a query with no restrictions returns the whole history
Unrestricted == (mode = "query" /\ q.task = None /\ q.cycle = None /\ q.sel.val = "<none>" /\ q.flow = 0)
                   => Cardinality(exp) = Cardinality(DB)
\* flow filter only removes rows
FlowFilterShrinks == (mode = "query" /\ q.flow # 0) => exp \subseteq Result([q EXCEPT !.flow = 0])
=============================================================================
