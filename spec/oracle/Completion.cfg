SPECIFICATION CSpec
CONSTANTS
  Family = "none"
  MinLeaves = 1
  MaxLeaves = 1
  Pools = {}
  WithDecls = FALSE
  BothStyles = TRUE
  UserAllLeaves = 2
  UserOneLeaves = 3
  UserVars = {"succeeded", "failed", "x", "y", "expired", "submit_failed", "submitted"}
  SmallVars = {"succeeded", "failed", "x"}
INVARIANT Monotone
