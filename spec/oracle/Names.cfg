SPECIFICATION Spec
CONSTANTS
  MaxLen = 3
  CoreLen = 4
  MiniLens = {5}
  MicroLens = {6, 7}
INVARIANT ValidImpliesInside
INVARIANT ValidRImpliesSafe
INVARIANT DepthWalkAgrees
INVARIANT NormKeepsReservedFree
