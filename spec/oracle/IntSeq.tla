------------------------------- MODULE IntSeq -------------------------------
(* C16 oracle: the meaning of an integer recurrence.                         *)
(*                                                                           *)
(* A case is one recurrence expression (one of the forms listed in the       *)
(* property) with an initial cycle point icp and an optional final cycle     *)
(* point fcp.  Independently of cylc's clipping arithmetic the module        *)
(* defines                                                                   *)
(*   Prog(c)  the arithmetic progression the expression denotes,             *)
(*   Base(c)  Prog(c) clipped to [icp, fcp],                                 *)
(*   Excl(c)  the excluded points (points, or the points of an exclusion     *)
(*            sequence, itself a clipped progression),                       *)
(*   Pts(c) = Base(c) \ Excl(c)                                              *)
(* and membership / next / previous / first / start / stop purely as min/max *)
(* over that set.  All sets are taken inside a finite window W which is so   *)
(* much wider than the query range Q that every answer for a query in Q lies *)
(* inside W (checked by the invariant WindowWideEnough).                     *)
(* One TLC state = one recurrence together with the expected answers for     *)
(* every query point of Q (sequences indexed by q - QLo + 1).                *)
EXTENDS Integers, Sequences, FiniteSets, FiniteSetsExt, TLC   \* Min, Max of a finite set of integers from FiniteSetsExt

CONSTANTS
  AbsPts,     \* absolute integer points usable as start / end
  RelOffs,    \* offsets j for relative points (+Pj / -Pj): start = icp + j, end = fcp + j
  Steps,      \* interval values k for Pk
  Reps,       \* repetition counts n for Rn
  Icps,       \* initial cycle points
  Fcps,       \* final cycle points; NONE = no final cycle point
  ExPts,      \* absolute points usable as exclusion points
  ExSteps,    \* steps of exclusion sequences
  ExAbs,      \* absolute start points of exclusion sequences
  ExRel,      \* relative start offsets of exclusion sequences
  QLo, QHi,   \* query points are QLo..QHi
  WLo, WHi,   \* window
  ExtraCases, \* explicitly listed additional cases (random larger values, thorough tier)
  UseBox      \* TRUE: enumerate the box; FALSE: only ExtraCases

NONE == -99

\* Parameter boxes (a cfg file cannot contain negative numbers, so they are named here and
\* substituted with  X <- Q_X  /  X <- T_X  in IntSeq.cfg / IntSeq_thorough.cfg).
Q_RelOffs == {-1, 2}
Q_Fcps == {NONE, 7, 8}
Q_QLo == -2
Q_WLo == -4
T_RelOffs == {-2, -1, 0, 1, 3}
T_Fcps == {NONE, 6, 7, 9}
T_QLo == -3
T_WLo == -5
Q == QLo..QHi
W == WLo..WHi
MaxI == WHi - WLo

MinOrNone(S) == IF S = {} THEN NONE ELSE Min(S)
MaxOrNone(S) == IF S = {} THEN NONE ELSE Max(S)

-----------------------------------------------------------------------------
(* Syntax.  A point expression is absolute (v) or relative (+Pv / -Pv).      *)
Abs(v) == [rel |-> FALSE, v |-> v]
Rel(v) == [rel |-> TRUE, v |-> v]
NoPt == Abs(0)                         \* filler for forms that have no such field
PtExprs == {Abs(v) : v \in AbsPts} \cup {Rel(j) : j \in RelOffs}
PtStr(p) == IF p.rel THEN (IF p.v < 0 THEN "-P" \o ToString(-p.v) ELSE "+P" \o ToString(p.v))
            ELSE ToString(p.v)
\* a relative start is relative to the initial, a relative end to the final cycle point
PtVal(p, ctx) == IF p.rel THEN ctx + p.v ELSE p.v

NoEx == [kind |-> "none", p1 |-> 0, p2 |-> 0, form |-> "-", s |-> NoPt, k |-> 1, n |-> 1]
ExSeqs ==
  [kind : {"seq"}, p1 : {0}, p2 : {0}, form : {"Pk"}, s : {NoPt}, k : ExSteps, n : {1}]
  \cup [kind : {"seq"}, p1 : {0}, p2 : {0}, form : {"s/Pk"},
        s : {Abs(v) : v \in ExAbs} \cup {Rel(j) : j \in ExRel}, k : ExSteps, n : {1}]
  \cup [kind : {"seq"}, p1 : {0}, p2 : {0}, form : {"Rn/s/Pk"}, s : {Abs(v) : v \in ExAbs}, k : ExSteps, n : {2}]
Exclusions ==
  {NoEx}
  \cup [kind : {"p1"}, p1 : ExPts, p2 : {0}, form : {"-"}, s : {NoPt}, k : {1}, n : {1}]
  \cup {x \in [kind : {"p2"}, p1 : ExPts, p2 : ExPts, form : {"-"}, s : {NoPt}, k : {1}, n : {1}] : x.p1 < x.p2}
  \cup ExSeqs
  \cup {[x EXCEPT !.kind = "mix", !.p1 = p] : x \in {y \in ExSeqs : y.form = "Pk"}, p \in ExPts}

F3 == {"s/Pk", "R/s/Pk", "Pk", "Rn/s/Pk", "Rn//Pk"}       \* count forwards from a start
F4 == {"Pk/e", "R/Pk/e", "Rn/Pk/e", "Rn/Pk"}               \* count backwards from an end
F1 == {"Rn/s/e"}                                           \* n points from start to end
FOne == {"R1", "R1/s", "R1//e"}                            \* run once
Forms == F3 \cup F4 \cup F1 \cup FOne

HasS(f) == f \in {"s/Pk", "R/s/Pk", "Rn/s/Pk", "Rn/s/e", "R1/s"}
HasE(f) == f \in {"Pk/e", "R/Pk/e", "Rn/Pk/e", "Rn/s/e", "R1//e"}
HasK(f) == f \in (F3 \cup F4)
HasN(f) == f \in {"Rn/s/Pk", "Rn//Pk", "Rn/Pk/e", "Rn/Pk", "Rn/s/e"}

BoxCases ==
  UNION { [form : {f},
           s : IF HasS(f) THEN PtExprs ELSE {NoPt},
           e : IF HasE(f) THEN PtExprs ELSE {NoPt},
           k : IF HasK(f) THEN Steps ELSE {1},
           n : IF HasN(f) THEN Reps ELSE {1},
           icp : Icps, fcp : Fcps, ex : Exclusions] : f \in Forms }

MainStr(c) ==
  LET P == "P" \o ToString(c.k)  R == "R" \o ToString(c.n)  s == PtStr(c.s)  e == PtStr(c.e)
  IN CASE c.form = "s/Pk"    -> s \o "/" \o P
       [] c.form = "R/s/Pk"  -> "R/" \o s \o "/" \o P
       [] c.form = "Pk"      -> P
       [] c.form = "Rn/s/Pk" -> R \o "/" \o s \o "/" \o P
       [] c.form = "Rn//Pk"  -> R \o "//" \o P
       [] c.form = "Pk/e"    -> P \o "/" \o e
       [] c.form = "R/Pk/e"  -> "R/" \o P \o "/" \o e
       [] c.form = "Rn/Pk/e" -> R \o "/" \o P \o "/" \o e
       [] c.form = "Rn/Pk"   -> R \o "/" \o P
       [] c.form = "Rn/s/e"  -> R \o "/" \o s \o "/" \o e
       [] c.form = "R1"      -> "R1"
       [] c.form = "R1/s"    -> "R1/" \o s
       [] c.form = "R1//e"   -> "R1//" \o e
ExSeqStr(x) ==
  CASE x.form = "Pk"      -> "P" \o ToString(x.k)
    [] x.form = "s/Pk"    -> PtStr(x.s) \o "/P" \o ToString(x.k)
    [] x.form = "Rn/s/Pk" -> "R" \o ToString(x.n) \o "/" \o PtStr(x.s) \o "/P" \o ToString(x.k)
ExStr(x) ==
  CASE x.kind = "none" -> ""
    [] x.kind = "p1"   -> "!" \o ToString(x.p1)
    [] x.kind = "p2"   -> "!(" \o ToString(x.p1) \o "," \o ToString(x.p2) \o ")"
    [] x.kind = "seq"  -> "!" \o ExSeqStr(x)
    [] x.kind = "mix"  -> "!(" \o ToString(x.p1) \o "," \o ExSeqStr(x) \o ")"
Expr(c) == MainStr(c) \o ExStr(c.ex)

-----------------------------------------------------------------------------
(* Meaning.                                                                  *)
\* s, s+k, s+2k, ...  and  e, e-k, e-2k, ...  (the part inside the window)
Fwd(s, k) == {s + i * k : i \in 0..((WHi - s) \div k)}
Bwd(e, k) == {e - i * k : i \in 0..((e - WLo) \div k)}
FwdN(s, k, n) == {s + i * k : i \in 0..(n - 1)}
BwdN(e, k, n) == {e - i * k : i \in 0..(n - 1)}

S(c) == IF HasS(c.form) THEN PtVal(c.s, c.icp) ELSE c.icp            \* implied start = initial point
E(c) == IF HasE(c.form) THEN PtVal(c.e, c.fcp) ELSE c.fcp            \* implied end = final point

Prog(c) ==
  CASE c.form \in {"s/Pk", "R/s/Pk", "Pk"}      -> Fwd(S(c), c.k)
    [] c.form \in {"Rn/s/Pk", "Rn//Pk"}         -> FwdN(S(c), c.k, c.n)
    [] c.form \in {"Pk/e", "R/Pk/e"}            -> Bwd(E(c), c.k)
    [] c.form \in {"Rn/Pk/e", "Rn/Pk"}          -> BwdN(E(c), c.k, c.n)
    [] c.form = "Rn/s/e"  -> IF c.n = 1 THEN {S(c)} ELSE FwdN(S(c), (E(c) - S(c)) \div (c.n - 1), c.n)
    [] c.form \in {"R1", "R1/s"}                -> {S(c)}
    [] c.form = "R1//e"                         -> {E(c)}

Clip(X, lo, hi) == {p \in X : p >= lo /\ (hi = NONE \/ p <= hi)}
Base(c) == Clip(Prog(c), c.icp, c.fcp)

\* the progression has no last element: counts forwards without a repetition limit and no final point
Unbounded(c) == c.form \in {"s/Pk", "R/s/Pk", "Pk"} /\ c.fcp = NONE

\* An exclusion sequence is itself a recurrence; only its points inside the bounds of the main
\* sequence matter.  Its implied / relative start refers to the first point of the main sequence
\* (Legal below only admits such forms where that coincides with the initial cycle point, so the
\* two possible readings of the documentation agree).
ExSeqPts(c) ==
  LET x == c.ex  b == Base(c)
      s == IF x.form = "Pk" THEN Min(b) ELSE PtVal(x.s, Min(b))
      prog == IF x.form = "Rn/s/Pk" THEN FwdN(s, x.k, x.n) ELSE Fwd(s, x.k)
  IN IF b = {} THEN {} ELSE {p \in prog : p \in b}
Excl(c) ==
  CASE c.ex.kind = "none" -> {}
    [] c.ex.kind = "p1"   -> {c.ex.p1}
    [] c.ex.kind = "p2"   -> {c.ex.p1, c.ex.p2}
    [] c.ex.kind = "seq"  -> ExSeqPts(c)
    [] c.ex.kind = "mix"  -> {c.ex.p1} \cup ExSeqPts(c)
Pts(c) == Base(c) \ Excl(c)

NextOf(P, q)  == MinOrNone({p \in P : p > q})
PrevOf(P, q)  == MaxOrNone({p \in P : p < q})
FirstOf(P, q) == MinOrNone({p \in P : p >= q})
QSeq(f(_)) == [i \in 1..(QHi - QLo + 1) |-> f(QLo + i - 1)]

-----------------------------------------------------------------------------
(* Which cases belong to the property's domain.                              *)
Legal(c) ==
  LET b == Base(c) IN
  /\ c.fcp # NONE => c.fcp >= c.icp
  \* a relative / implied end needs a final cycle point
  /\ c.fcp = NONE => /\ ~(HasE(c.form) /\ c.e.rel)
                     /\ c.form # "Rn/Pk"
  \* n points from start to end: end after start, equal spacing
  /\ c.form = "Rn/s/e" /\ c.n > 1 => E(c) > S(c) /\ (E(c) - S(c)) % (c.n - 1) = 0
  \* points are written as non-negative integers
  /\ S(c) >= 0 /\ (E(c) # NONE => E(c) >= 0)
  \* exclusion sequences with implied / relative start: only where "first point of the main
  \* sequence" and "initial cycle point" coincide
  /\ c.ex.kind \in {"seq", "mix"} =>
       /\ b # {}
       /\ (c.ex.form = "Pk" \/ c.ex.s.rel) => Min(b) = c.icp
       /\ PtVal(c.ex.s, Min(b)) >= 0
  \* an unbounded sequence must not be excluded completely (every query has a next point in W)
  /\ Unbounded(c) => NextOf(Pts(c), QHi) # NONE

Cases == IF UseBox THEN BoxCases ELSE ExtraCases

VARIABLES c, expr, pts, next, prev, first, start, stop, cls
vars == <<c, expr, pts, next, prev, first, start, stop, cls>>

\* input class of the case, used only to label findings (never to decide them)
Class(k) ==
  LET pr == Prog(k)  b == Base(k)
      xs == IF b # {} /\ k.ex.kind \in {"seq", "mix"}
            THEN (IF k.ex.form = "Pk" THEN Min(b) ELSE PtVal(k.ex.s, Min(b))) ELSE 0
  IN
  [ kind |-> CASE k.form \in {"s/Pk", "R/s/Pk", "Pk", "Rn/s/Pk", "Rn//Pk"} -> "fwd"
               [] k.form \in F4 -> "bwd" [] k.form \in F1 -> "span" [] OTHER -> "once",
    low  |-> pr # {} /\ Min(pr) < k.icp,                       \* progression starts before icp
    high |-> k.fcp # NONE /\ pr # {} /\ Max(pr) > k.fcp,       \* ... reaches beyond fcp
    empty |-> b = {},                                          \* nothing left after clipping
    nofcp |-> k.fcp = NONE,
    exlow |-> b # {} /\ k.ex.kind \in {"seq", "mix"} /\ xs < Min(b),   \* excl. sequence starts before the main one
    exhigh |-> b # {} /\ ~Unbounded(k) /\ k.ex.kind \in {"seq", "mix"} /\ k.ex.form = "Rn/s/Pk"
               /\ xs + (k.ex.n - 1) * k.ex.k > Max(b),                   \* ... ends after the main one
    exeff |-> Excl(k) \cap b # {} ]                            \* the exclusion removes something

\* (\E over a singleton = "let", forcing TLC to evaluate the point set once per case)
Init == /\ c \in {k \in Cases : Legal(k)}
        /\ expr = Expr(c)
        /\ \E P \in {Pts(c)} :
             /\ pts = P \cap ((QLo - 1) .. (QHi + 1))
             /\ next  = QSeq(LAMBDA q : NextOf(P, q))
             /\ prev  = QSeq(LAMBDA q : PrevOf(P, q))
             /\ first = QSeq(LAMBDA q : FirstOf(P, q))
             /\ start = MinOrNone(P)
             /\ stop  = IF Unbounded(c) THEN NONE ELSE MaxOrNone(P)
        /\ cls = Class(c)
Next == UNCHANGED vars
Spec == Init /\ [][Next]_vars

\* sanity of the oracle itself
WindowWideEnough ==
  /\ \A p \in Base(c) : p > WLo /\ (~Unbounded(c) => p < WHi)
  /\ Unbounded(c) => \A i \in 1..Len(next) : next[i] # NONE /\ next[i] < WHi
Consistent ==
  /\ \A i \in 1..Len(next) : next[i] # NONE => next[i] \in Pts(c) /\ next[i] > QLo + i - 1
  /\ \A i \in 1..Len(prev) : prev[i] # NONE => prev[i] \in Pts(c) /\ prev[i] < QLo + i - 1
  /\ start # NONE /\ stop # NONE => start <= stop
=============================================================================
