SPECIFICATION Spec
CONSTANT SetIds <- FullSets
INVARIANT AtMostProduct
