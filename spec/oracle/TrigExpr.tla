------------------------------ MODULE TrigExpr ------------------------------
(* C13 oracle: a prerequisite is satisfied exactly when the trigger          *)
(* expression written in the graph is true over the set of satisfied         *)
(* upstream outputs, dependencies on instances before the initial cycle      *)
(* point counting as satisfied.                                              *)
(*                                                                           *)
(* A case is an expression tree (depth <= d) over a small pool of atoms      *)
(* task[-Pk]:output, chosen so that task names, cycle points and output      *)
(* messages collide textually (foo / foo2 / afoo / fo / foo-bar; points 1    *)
(* and -1, 1 and 11; "data ready" / "data ready-final").  For every case the *)
(* module defines (a) the graph text of the left-hand side in two            *)
(* parenthesisation styles and (b) for each evaluation point p the set of    *)
(* subsets S of the atoms used for which the expression is true              *)
(* (Eval over S \cup PreInitial(p)).  TLC enumerates the cases as initial    *)
(* states; the harness replays every state on WorkflowConfig + TaskProxy +   *)
(* Prerequisite.satisfy_me / is_satisfied.                                   *)
(* Written from the property statement and the user guide (AND binds tighter *)
(* than OR; a plain name means :succeeded), not from cylc's code.            *)
EXTENDS Integers, Sequences, FiniteSets, TLC

CONSTANT Runs      \* set of <<pool id, depth>> to enumerate (see the .cfg files)

ICP == 1           \* initial cycle point (integer cycling); the datetime variant maps point p to ICP_dt + P(p-1)D

A(t, off, o) == [t |-> t, off |-> off, o |-> o]   \* upstream output  t[-P<off>]:o   (off = 0: same cycle)

Pool(id) ==
  CASE id = "names"    -> << A("foo", 0, "succeeded"), A("foo2", 0, "succeeded"), A("afoo", 0, "succeeded") >>
    [] id = "hyphen"   -> << A("foo", 0, "succeeded"), A("foo-bar", 0, "succeeded"), A("fo", 0, "succeeded") >>
    [] id = "negtwin"  -> << A("fo", 0, "succeeded"), A("fo", 2, "succeeded"), A("fo", 1, "succeeded") >>
    [] id = "offs"     -> << A("foo", 1, "succeeded"), A("foo2", 2, "failed"), A("foo", 2, "x") >>
    [] id = "outs"     -> << A("foo", 0, "succeeded"), A("foo", 0, "failed"), A("foo", 0, "x") >>
    [] id = "eleven"   -> << A("foo", 10, "succeeded"), A("foo", 0, "succeeded"), A("foo2", 10, "x") >>
    [] id = "msgs"     -> << A("foo", 0, "x"), A("foo", 0, "y"), A("afoo", 0, "x") >>
    [] id = "wide"     -> << A("foo", 0, "succeeded"), A("foo2", 1, "failed"), A("afoo", 0, "x"), A("fo", 2, "succeeded"),
                             A("foo2", 0, "succeeded"), A("fo", 0, "failed"), A("afoo", 1, "succeeded") >>
    [] id = "names4"   -> << A("foo", 0, "succeeded"), A("foo2", 0, "succeeded"), A("afoo", 0, "succeeded"),
                             A("fo", 0, "succeeded") >>
    [] id = "mixed5"   -> << A("foo2", 1, "failed"), A("afoo", 0, "x"), A("fo", 2, "succeeded"), A("foo", 0, "succeeded"),
                             A("fo", 0, "succeeded") >>
    [] id = "hyphen4"  -> << A("foo", 0, "succeeded"), A("foo-bar", 0, "succeeded"), A("fo", 0, "failed"),
                             A("foo-bar", 1, "succeeded") >>
    [] id = "neg4"     -> << A("fo", 0, "succeeded"), A("fo", 2, "succeeded"), A("fo", 1, "succeeded"),
                             A("foo", 2, "succeeded") >>
    [] id = "msgs4"    -> << A("foo", 0, "x"), A("foo", 0, "y"), A("afoo", 0, "x"), A("foo", 1, "y") >>

\* evaluation points (the task whose prerequisites are evaluated sits at this cycle point)
\* (pools without offsets mean the same at every point: one point is enough)
HasOffsets(id) == \E i \in 1..Len(Pool(id)) : Pool(id)[i].off > 0
PoolPoints(id) == IF id = "eleven" THEN {1, 11} ELSE IF HasOffsets(id) THEN {1, 2, 3} ELSE {1}

\* expression trees:  <<"a", i>>  (atom i of the pool)  |  <<"&", l, r>>  |  <<"|", l, r>>
RECURSIVE Trees(_, _)
Trees(n, d) == IF d = 1 THEN {<<"a", i>> : i \in 1..n}
               ELSE LET sub == Trees(n, d - 1)
                    IN sub \cup {<<op, l, r>> : op \in {"&", "|"}, l \in sub, r \in sub}

RECURSIVE Used(_)
Used(e) == IF e[1] = "a" THEN {e[2]} ELSE Used(e[2]) \cup Used(e[3])

\* ---- meaning ----
PreInitial(a, p) == a.off > 0 /\ p - a.off < ICP
RECURSIVE Eval(_, _, _, _)
Eval(e, S, p, pool) ==
  CASE e[1] = "a" -> (e[2] \in S \/ PreInitial(pool[e[2]], p))
    [] e[1] = "&" -> (Eval(e[2], S, p, pool) /\ Eval(e[3], S, p, pool))
    [] e[1] = "|" -> (Eval(e[2], S, p, pool) \/ Eval(e[3], S, p, pool))
Truth(e, p, pool) == {S \in SUBSET Used(e) : Eval(e, S, p, pool)}

\* ---- graph text ----
OffTxt(k) == IF k = 0 THEN "" ELSE "[-P" \o ToString(k) \o "]"
QualTxt(o) == CASE o = "succeeded" -> "" [] o = "failed" -> ":fail" [] OTHER -> ":" \o o
\* every output is written optional ("?") so that any mixture of outputs of one task is a legal graph
AtomTxt(a) == a.t \o OffTxt(a.off) \o QualTxt(a.o) \o "?"
\* style "min": only the parentheses that precedence requires (| under &); style "full": every compound operand
RECURSIVE Txt(_, _, _, _)
Txt(e, style, ctx, pool) ==
  IF e[1] = "a" THEN AtomTxt(pool[e[2]])
  ELSE LET body == Txt(e[2], style, e[1], pool) \o " " \o e[1] \o " " \o Txt(e[3], style, e[1], pool)
           paren == IF style = "full" THEN ctx # "" ELSE (e[1] = "|" /\ ctx = "&")
       IN IF paren THEN "(" \o body \o ")" ELSE body

VARIABLES pool, depth, atoms, txt, used, truth
vars == <<pool, depth, atoms, txt, used, truth>>

Init == \E run \in Runs :
          /\ pool = run[1]
          /\ depth = run[2]
          /\ atoms = Pool(pool)
          /\ \E e \in Trees(Len(Pool(pool)), run[2]) :
               /\ txt = [min |-> Txt(e, "min", "", Pool(pool)), full |-> Txt(e, "full", "", Pool(pool))]
               /\ used = Used(e)
               /\ truth = {<<p, Truth(e, p, Pool(pool))>> : p \in PoolPoints(pool)}
Next == UNCHANGED vars
Spec == Init /\ [][Next]_vars

\* run sets selected by the .cfg files
QuickRuns == {<<"names", 3>>, <<"hyphen", 3>>, <<"negtwin", 3>>, <<"msgs", 3>>, <<"offs", 2>>, <<"outs", 2>>,
              <<"eleven", 2>>, <<"wide", 2>>}
FullRuns == {<<"names4", 3>>, <<"mixed5", 3>>, <<"hyphen4", 3>>, <<"neg4", 3>>, <<"msgs4", 3>>, <<"eleven", 3>>,
             <<"offs", 3>>, <<"outs", 3>>, <<"wide", 2>>}

\* sanity of the oracle: expressions are monotone (satisfying more outputs never unsatisfies a prerequisite)
Monotone == \A pt \in truth : \A S \in pt[2] : \A T \in SUBSET used : S \subseteq T => T \in pt[2]
=============================================================================
