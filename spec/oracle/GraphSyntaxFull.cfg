SPECIFICATION Spec
CONSTANT SecondChains <- SecondFull
CONSTANT TwoChainMaxLen = 3
INVARIANT Monotone
