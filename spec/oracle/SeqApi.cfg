SPECIFICATION Spec
INVARIANT HistoryIndependent
INVARIANT Sane
CONSTANTS
  Ns = {1, 3}
  MaxLen = 2
  FirstCalls = {"valid", "on_sequence", "next", "first"}
  AllowUnbounded = TRUE
