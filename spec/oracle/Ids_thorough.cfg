SPECIFICATION Spec
CONSTANT Big = TRUE
INVARIANT AbsEndsWithRel
INVARIANT NoSelSame
INVARIANT PadIdem
