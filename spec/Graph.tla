------------------------------- MODULE Graph -------------------------------
(***************************************************************************)
(* What a cylc workflow graph MEANS - pure operators over a workflow value *)
(* W.  Written from the cylc documentation / property statements and kept  *)
(* independent of cylc's own graph parser: the harness generator emits the *)
(* same abstract workflow both as flow.cylc text (for the code) and as a   *)
(* TLA+ record (for this module), so "graph-implied" has its own oracle.   *)
(*                                                                         *)
(* W == [ tasks   : set of task names,                                     *)
(*        icp, fcp, start : Int        (initial, final, start cycle point),*)
(*        recs    : Seq(SUBSET Int)    point set of each graph section's   *)
(*                                     recurrence, clipped to icp..fcp,    *)
(*        lines   : Seq([rec, lhs, rhs, suicide])  one record per arrow;   *)
(*                  a lone node "a" is [lhs |-> NoExpr, rhs |-> "a"],      *)
(*        seqtasks: set of sequential task names,                          *)
(*        req     : [task -> set of required outputs],                     *)
(*        optsucc, optsubfail, optexp : set of tasks for which failure /   *)
(*                  submit-failure / expiry is tolerated,                  *)
(*        eretry, sretry : [task -> Nat]  number of retry delays,          *)
(*        queues  : Seq([name, limit, members]) in config order,           *)
(*        rhkind  : "count", rhn : Nat    runahead limit Pn ]              *)
(*                                                                         *)
(* A trigger expression is [k |-> "atom", t, off, abs, out]                *)
(*   (off: parent point = child point + off; abs: the [^] form)            *)
(* or [k |-> "and" | "or", a |-> e1, b |-> e2].                            *)
(***************************************************************************)
EXTENDS Integers, Sequences, FiniteSets, TLC

NoPoint == -999
NoExpr == [k |-> "none"]

Min(S) == CHOOSE x \in S : \A y \in S : x <= y
Max(S) == CHOOSE x \in S : \A y \in S : x >= y
Range(s) == {s[i] : i \in DOMAIN s}

RECURSIVE Atoms(_)
Atoms(e) == IF e.k = "atom" THEN {e}
            ELSE IF e.k = "none" THEN {}
            ELSE Atoms(e.a) \cup Atoms(e.b)

\* truth of an expression given the set of atoms that hold
RECURSIVE Eval(_, _)
Eval(e, T) == CASE e.k = "atom" -> e \in T
                [] e.k = "and"  -> Eval(e.a, T) /\ Eval(e.b, T)
                [] e.k = "or"   -> Eval(e.a, T) \/ Eval(e.b, T)
                [] e.k = "none" -> TRUE

Lines(W) == Range(W.lines)
AllPoints(W) == UNION Range(W.recs)

-----------------------------------------------------------------------------
(* Sequences of a task: the recurrences of the sections in which it appears *)
(* explicitly (without an offset).  "foo => !bar" gives bar no sequence.    *)
TaskRecs(W, t) ==
  {r \in DOMAIN W.recs :
     \E L \in Lines(W) : L.rec = r /\
        ( (L.rhs = t /\ ~L.suicide)
          \/ \E a \in Atoms(L.lhs) : a.t = t /\ a.off = 0 /\ ~a.abs )}

TaskPoints(W, t) == UNION {W.recs[r] : r \in TaskRecs(W, t)}
ValidPoint(W, t, p) == p \in TaskPoints(W, t)
InBounds(W, p) == W.icp <= p /\ p <= W.fcp

(* The point of the upstream instance an atom refers to, for a child at p. *)
AtomPoint(W, a, p) == IF a.abs THEN W.icp ELSE p + a.off
AtomKey(W, a, p) == <<a.t, AtomPoint(W, a, p), a.out>>

(* Dependencies (non-suicide arrows) that apply to t at point p. *)
Deps(W, t, p) == {L \in Lines(W) : L.rhs = t /\ L.lhs # NoExpr /\ ~L.suicide /\ p \in W.recs[L.rec]}
SuicideDeps(W, t, p) == {L \in Lines(W) : L.rhs = t /\ L.lhs # NoExpr /\ L.suicide /\ p \in W.recs[L.rec]}

(* Satisfied from the outset: dependence on an instance before the initial *)
(* cycle point, or (warm start) before the start point.                    *)
InitSat(W, a, p) ==
  LET pp == AtomPoint(W, a, p)
  IN IF a.abs THEN pp < W.start /\ p >= W.start
     ELSE IF a.off = 0 THEN FALSE
     ELSE pp < W.icp \/ (pp < W.start /\ p >= W.start)

(* Is every prerequisite of t at p true, given the set `done` of completed *)
(* upstream outputs <<task, point, output>> ?                              *)
PrereqSat(W, t, p, done) ==
  \A L \in Deps(W, t, p) :
     Eval(L.lhs, {a \in Atoms(L.lhs) : InitSat(W, a, p) \/ AtomKey(W, a, p) \in done})

(* previous instance of a sequential task: nearest earlier point over all   *)
(* its recurrences                                                          *)
PrevPoint(W, t, p) ==
  LET S == {q \in TaskPoints(W, t) : q < p} IN IF S = {} THEN NoPoint ELSE Max(S)
NextPoint(W, t, p) ==
  LET S == {q \in TaskPoints(W, t) : q > p} IN IF S = {} THEN NoPoint ELSE Min(S)
SeqPrereqSat(W, t, p, done) ==
  t \in W.seqtasks =>
     LET pv == PrevPoint(W, t, p)
     IN pv = NoPoint \/ pv < W.start \/ <<t, pv, "succeeded">> \in done

ReadyByGraph(W, t, p, done) == PrereqSat(W, t, p, done) /\ SeqPrereqSat(W, t, p, done)

-----------------------------------------------------------------------------
(* Children of output o of task t at point p: the instances whose          *)
(* prerequisites mention it.  An arrow in section r only makes children on *)
(* r's points; an absolute trigger [^] spawns only from the initial point  *)
(* and names the first point of r.                                         *)
Children(W, t, p, o) ==
  {c \in [t : W.tasks, p : AllPoints(W), abs : BOOLEAN] :
     \E L \in Lines(W) : L.lhs # NoExpr /\ L.rhs = c.t /\
        \E a \in Atoms(L.lhs) :
           /\ a.t = t /\ a.out = o /\ a.abs = c.abs
           /\ c.p \in W.recs[L.rec]
           /\ IF a.abs THEN p = W.icp /\ c.p = Min(W.recs[L.rec])
                       ELSE c.p = p - a.off}
  \cup (IF t \in W.seqtasks /\ o = "succeeded" /\ NextPoint(W, t, p) # NoPoint
        THEN {[t |-> t, p |-> NextPoint(W, t, p), abs |-> FALSE]} ELSE {})

HasParents(W, t) == \E L \in Lines(W) : L.rhs = t /\ L.lhs # NoExpr

HasAbs(W, t) == \E L \in Lines(W) : L.rhs = t /\ \E a \in Atoms(L.lhs) : a.abs
OnlyAbsAt(W, t, p) ==
  /\ HasAbs(W, t)
  /\ LET Ls == {L \in Lines(W) : L.rhs = t /\ L.lhs # NoExpr /\ p \in W.recs[L.rec] /\ L.rec \in TaskRecs(W, t)}
     IN /\ \A L \in Ls : \A a \in Atoms(L.lhs) : a.abs \/ L.suicide
        /\ \E L \in Ls : \E a \in Atoms(L.lhs) : a.abs \/ L.suicide

ParentPoints(W, t, p) ==
  {AtomPoint(W, a, p) : a \in UNION {Atoms(L.lhs) : L \in {M \in Deps(W, t, p) : M.rec \in TaskRecs(W, t)}}}

(* no parents at all / all parents before the cutoff / only absolute triggers *)
Parentless(W, t, p, cutoff) ==
  IF ~HasParents(W, t) THEN TRUE
  \* (a sequential task's previous instance is an implicit parent, unless it is before the cutoff)
  ELSE IF t \in W.seqtasks /\ PrevPoint(W, t, p) # NoPoint /\ PrevPoint(W, t, p) >= cutoff THEN FALSE
  ELSE \/ ParentPoints(W, t, p) = {}
       \/ \A x \in ParentPoints(W, t, p) : x < cutoff
       \/ OnlyAbsAt(W, t, p)

(* The graph's own notion, independent of how cylc finds such instances:    *)
(* nothing at or after the cutoff that the instance has to wait for.  (For   *)
(* a sequential task the previous instance is an implicit parent.)          *)
GraphParentless(W, t, p, cutoff) ==
  /\ \/ ~HasParents(W, t)
     \/ ParentPoints(W, t, p) = {}
     \/ \A x \in ParentPoints(W, t, p) : x < cutoff
     \/ OnlyAbsAt(W, t, p)
  /\ (t \in W.seqtasks /\ HasParents(W, t)) => (PrevPoint(W, t, p) = NoPoint \/ PrevPoint(W, t, p) < cutoff)

(* cylc walks each of the task's recurrences separately: the next point of *)
(* the recurrence after `point` (or its first point >= start) counts only  *)
(* if the task is parentless there.                                        *)
NextParentless(W, t, point) ==
  LET cand == {q \in AllPoints(W) :
                 \E r \in TaskRecs(W, t) :
                    LET S == IF point = NoPoint THEN {x \in W.recs[r] : x >= W.start}
                                                ELSE {x \in W.recs[r] : x > point}
                    IN S # {} /\ q = Min(S) /\ Parentless(W, t, q, W.start)}
  IN IF cand = {} THEN NoPoint ELSE Min(cand)

-----------------------------------------------------------------------------
(* Completion (C11): every required output; failure tolerated only when    *)
(* success/failure is optional; submit-failure and expiry only if optional *)
Complete(W, t, outs) ==
  LET R == W.req[t]
      main == IF t \in W.optsucc
              THEN IF R # {} THEN (R \subseteq outs /\ "succeeded" \in outs) \/ "failed" \in outs
                             ELSE "succeeded" \in outs \/ "failed" \in outs
              ELSE R \subseteq outs
  IN \/ main
     \/ (t \in W.optsubfail /\ "submit-failed" \in outs)
     \/ (t \in W.optexp /\ "expired" \in outs)

FinalStatuses == {"succeeded", "failed", "submit-failed", "expired"}
ActiveStatuses == {"preparing", "submitted", "running"}

-----------------------------------------------------------------------------
(* Runahead limit (C04): for Pn the (n+1)-th earliest point of the         *)
(* workflow's recurrences at or after the earliest pool point, extended by *)
(* the largest future offset and capped at the stop point.                 *)
NthSmallest(S, n) ==   \* n >= 1; the last one if S has fewer than n elements; S non-empty
  CHOOSE x \in S : LET below == Cardinality({y \in S : y < x})
                   IN below = n - 1 \/ (below < n - 1 /\ \A y \in S : y <= x)

RunaheadLimit(W, base, maxfut, stop) ==
  LET cand == {q \in AllPoints(W) : q >= base}
      raw  == IF cand = {} THEN base ELSE NthSmallest(cand, W.rhn + 1)
      adj  == raw + maxfut
  IN IF stop # NoPoint /\ adj > stop THEN stop ELSE adj

(* Largest future-trigger offset a task definition can have *)
TaskMaxFut(W, t) ==
  LET S == {a.off : a \in UNION {Atoms(L.lhs) : L \in {M \in Lines(W) : M.rhs = t}}}
      P == {x \in S : x > 0}
  IN IF P = {} THEN 0 ELSE Max(P)

-----------------------------------------------------------------------------
(* Internal queues (C05): a task belongs to the last queue that lists it,   *)
(* else to "default".                                                       *)
DefaultQueueLimit == 100     \* [scheduling][queues][default]limit
QueueOf(W, t) ==
  LET idx == {i \in DOMAIN W.queues : t \in W.queues[i].members}
  IN IF idx = {} THEN "default" ELSE W.queues[Max(idx)].name
QueueLimit(W, q) ==
  LET idx == {i \in DOMAIN W.queues : W.queues[i].name = q}
  IN IF idx = {} THEN DefaultQueueLimit ELSE W.queues[Max(idx)].limit

-----------------------------------------------------------------------------
(* Lifecycle (C09): allowed non-forced status changes without intervention *)
Lifecycle(from, to, inRetry) ==
  \/ from = "waiting" /\ to \in {"preparing", "expired", "submitted", "running", "succeeded", "failed", "submit-failed"}
  \/ from = "preparing" /\ to \in {"submitted", "submit-failed", "running", "succeeded", "failed"}
  \/ from = "submitted" /\ to \in {"running", "succeeded", "failed", "submit-failed"}
  \/ from = "running" /\ to \in {"succeeded", "failed"}
  \/ to = "waiting" /\ inRetry /\ from \in {"preparing", "submitted", "running", "failed", "submit-failed"}

(* Strict form for a run with well-ordered messages: *)
LifecycleStrict(from, to, inRetry) ==
  \/ from = "waiting" /\ to \in {"preparing", "expired"}
  \/ from = "preparing" /\ to \in {"submitted", "submit-failed", "running", "succeeded", "failed"}
  \/ from = "submitted" /\ to \in {"running", "succeeded", "failed", "submit-failed"}
  \/ from = "running" /\ to \in {"succeeded", "failed"}
  \/ to = "waiting" /\ inRetry /\ from \in {"preparing", "submitted", "running"}
=============================================================================
