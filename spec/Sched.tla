-------------------------------- MODULE Sched --------------------------------
(***************************************************************************)
(* The cylc scheduler core as a state machine (design-level model).        *)
(*                                                                         *)
(* One action per critical section of the code (cited at each action); the *)
(* environment (jobs, job messages, their delivery, duplication, process   *)
(* death) is modelled as separate, independently enabled actions, so TLC   *)
(* explores every interleaving of environment events with scheduler steps. *)
(* Scheduler steps are taken atomically and in any order, which is a        *)
(* superset of the orders the real single-threaded main loop produces.     *)
(*                                                                         *)
(* Graph semantics come from Graph.tla, the step functions from SchedOps    *)
(* (the same operators the trace specification checks the code against).   *)
(***************************************************************************)
EXTENDS SchedOps, SequencesExt

CONSTANTS W,          \* the workflow (see Graph.tla)
          Scripts,    \* [task -> set of job scripts], a script = Seq(message)
          SubmitFail, \* set of tasks whose job submission may fail
          Faults,     \* [dup |-> Nat, reorder |-> BOOLEAN, crash |-> Nat]  fault budget
          StopAt,     \* stop point requested at start-up, or NoPoint
          CmdBudget,  \* how many operator commands a behaviour may contain
          SetOuts,    \* which outputs "cylc set --out" may name in this configuration
          CmdKinds    \* which commands: subset of {"hold", "release", "holdpt", "relall", "stoppt", "stopnow", "trigger", "set"}

VARIABLES pool,     \* [id -> [st, rh, queued, held, manual, outs, sat, sub, efail, sfail]]  the n=0 window
          rhl,      \* cached runahead limit (NoPoint before the first computation)
          rhbase,   \* base point of the cached limit
          q,        \* [queue name -> Seq(id)]  FIFO queues
          cmds,     \* set of <<id, sub>>: jobs-submit command issued, not yet executed
          jobs,     \* [<<id, sub>> -> [script, pos]]  jobs that exist in the world
          net,      \* [<<id, sub>> -> Seq(msg)]  messages sent by a job, not yet delivered
          acks,     \* set of <<id, sub, ok>>: submit command executed, callback not yet delivered
          stopped,  \* "no" | "auto" | "stalled" | "down" (stopped by request or killed; can be restarted)
          fb,       \* remaining fault budget [dup, crash]
          db,       \* committed database image [has, pool, tohold, holdpt, stopcmd]  (survives stop and crash)
          done,     \* history: completed outputs <<task, point, output>>
          ran,      \* history: set of [id, sub, ready, held, seqclash]  one per job preparation
          futseen,  \* [task -> largest future-trigger offset seen so far for that task definition]
          maxfut,   \* TaskPool.max_future_offset: cached largest future offset among the pooled task definitions
          tohold,   \* TaskPool.tasks_to_hold: ids (pooled or future) that are / are to be held
          holdpt,   \* TaskPool.hold_point, or NoPoint
          stopcmd,  \* stop point set by command at run time, or NoPoint
          cb,       \* remaining command budget
          trig,     \* TaskPool.tasks_to_trigger_now: manually triggered tasks to be submitted by the next release step
          fset      \* history: ids whose outputs were (partly) set by "cylc set", or that were triggered twice in a row (see CmdTrigger)
ctl == <<holdpt, stopcmd, cb, trig, fset>>
vars == <<pool, rhl, rhbase, q, cmds, jobs, net, acks, stopped, fb, db, done, ran, futseen, maxfut, tohold, holdpt, stopcmd, cb, trig, fset>>

Name(id) == id[1]
Pt(id) == id[2]
Ids == W.tasks \X AllPoints(W)
StopPt == IF stopcmd # NoPoint THEN stopcmd ELSE IF StopAt = NoPoint THEN W.fcp ELSE StopAt
QNames == {"default"} \cup {W.queues[i].name : i \in DOMAIN W.queues}
Active(r) == r.st \in ActiveStatuses
Final(r) == r.st \in FinalStatuses

-----------------------------------------------------------------------------
(* ------------------------------ spawning -------------------------------- *)
(* a new proxy is held if its id was put on hold earlier or it lies beyond the hold point (spawn_task) *)
HeldAtSpawn(id) == id \in tohold \/ (holdpt # NoPoint /\ Pt(id) > holdpt)
(* hold_active_task also records the id in tasks_to_hold *)
(* and TaskPool.remove releases the hold of a task that leaves the pool               *)
HoldAfter == (tohold \cup {i \in DOMAIN pool' \ DOMAIN pool : holdpt # NoPoint /\ Pt(i) > holdpt})
             \ (DOMAIN pool \ DOMAIN pool')
NewTask(id) ==
  [st |-> "waiting", rh |-> TRUE, queued |-> FALSE, held |-> HeldAtSpawn(id), manual |-> FALSE, outs |-> {},
   sat |-> InitSatKeys(W, Name(id), Pt(id)), sub |-> 0, efail |-> 0, sfail |-> 0]

(* TaskPool.spawn_task: not beyond bounds, not if it already ran (history),  *)
(* not if one of its prerequisites points beyond the stop point.            *)
CanSpawn(id, pl) ==
  /\ id \notin DOMAIN pl
  /\ ValidPoint(W, Name(id), Pt(id)) /\ InBounds(W, Pt(id)) /\ Pt(id) >= W.start
  /\ ~\E k \in ran : k.id = id                                 \* history in this flow
  /\ ~\E o \in StdOuts : <<Name(id), Pt(id), o>> \in done
  /\ ~(Pt(id) <= StopPt /\ \E k \in AllAtomKeys(W, Name(id), Pt(id)) : k[2] > StopPt)

Add(pl, id) == [x \in DOMAIN pl \cup {id} |-> IF x = id THEN NewTask(id) ELSE pl[x]]
Drop(pl, id) == [x \in DOMAIN pl \ {id} |-> pl[x]]

(* spawn_on_output: children of a completed output are spawned (or found in *)
(* the pool) and the matching prerequisite is satisfied                     *)
RECURSIVE SpawnChildren(_, _, _)
SpawnChildren(pl, cs, key) ==
  IF cs = {} THEN pl
  ELSE LET c == CHOOSE x \in cs : TRUE
           cid == <<c.t, c.p>>
           pl1 == IF cid \in DOMAIN pl THEN pl ELSE IF CanSpawn(cid, pl) THEN Add(pl, cid) ELSE pl
           pl2 == IF cid \in DOMAIN pl1 THEN [pl1 EXCEPT ![cid].sat = @ \cup {key}] ELSE pl1
       IN SpawnChildren(pl2, cs \ {c}, key)

RECURSIVE FireOutputs(_, _, _)
FireOutputs(pl, id, outs) ==
  IF outs = {} THEN pl
  ELSE LET o == CHOOSE x \in outs : TRUE
       IN FireOutputs(SpawnChildren(pl, Children(W, Name(id), Pt(id), o), <<Name(id), Pt(id), o>>), id, outs \ {o})

(* TaskPool.spawn_next_parentless *)
WithNextParentless(pl, id) ==
  LET np == NextParentless(W, Name(id), Pt(id))
      nid == <<Name(id), np>>
  IN IF np # NoPoint /\ CanSpawn(nid, pl) THEN Add(pl, nid) ELSE pl

(* remove_if_complete + remove (a runahead-limited task spawns its successor first) *)
RemoveIfComplete(pl, id) ==
  IF id \in DOMAIN pl /\ Final(pl[id]) /\ Complete(W, Name(id), pl[id].outs)
  THEN Drop(IF pl[id].rh THEN WithNextParentless(pl, id) ELSE pl, id)
  ELSE pl

-----------------------------------------------------------------------------
(* ------------------------------ runahead -------------------------------- *)
(* TaskDef.max_future_prereq_offset is filled in lazily, when a prerequisite with a future offset is first   *)
(* generated for an instance of the task (also by the data store's graph-window walk), so the pool's largest *)
(* future offset counts a task definition only once that has happened: futseen[t] grows from 0 towards       *)
(* TaskMaxFut(W, t) at steps that create proxies.                                                            *)
MaxFutWith(pl, fs) == LET S == {fs[Name(i)] : i \in DOMAIN pl} IN IF S = {} THEN 0 ELSE Max(S)
PoolMaxFut(pl) == MaxFutWith(pl, futseen)
PosOffsets(t) == {x \in {a.off : a \in UNION {Atoms(L.lhs) : L \in {M \in Lines(W) : M.rhs = t /\ M.lhs # NoExpr}}} : x > 0}
FutChoices == {f \in [W.tasks -> 0..Max({0} \cup UNION {PosOffsets(t) : t \in W.tasks})] :
                 \A t \in W.tasks : f[t] >= futseen[t] /\ (f[t] = futseen[t] \/ f[t] \in PosOffsets(t))}
BasePoint(pl) == IF DOMAIN pl = {} THEN NoPoint ELSE Min({Pt(i) : i \in DOMAIN pl})
(* with an empty pool compute_runahead starts from the first sequence point at or after the start point *)
FirstPoint == LET S == {x \in AllPoints(W) : x >= W.start} IN IF S = {} THEN NoPoint ELSE Min(S)
BaseOrFirst(pl) == IF DOMAIN pl = {} THEN FirstPoint ELSE BasePoint(pl)

(* add_to_pool and remove call set_max_future_offset for a task whose          *)
(* definition has a future offset (by then): the cached pool maximum is        *)
(* refreshed from the pool as it is at that moment and, if it changed, the     *)
(* limit is recomputed at once (compute_runahead(force=True)).  pl0: pool      *)
(* before the step, pl2: after its spawns, pl3: after the removal that ends    *)
(* it; fs: the definitions' offsets as seen by the end of the step.  The       *)
(* children are added one by one in an order the model does not fix, so the    *)
(* base point seen by a recomputation during the adds is any of the candidates *)
(* below.  Result: the possible [l |-> limit, b |-> base, m |-> cached max].   *)
PtSet(pl) == {Pt(i) : i \in DOMAIN pl}
RhAfter(pl0, pl2, pl3, l0, b0, m0, fs) ==
  LET added == DOMAIN pl2 \ DOMAIN pl0
      removed == DOMAIN pl2 \ DOMAIN pl3
      m2 == IF \E i \in added : fs[Name(i)] > 0 THEN MaxFutWith(pl2, fs) ELSE m0
      m3 == IF \E i \in removed : fs[Name(i)] > 0 THEN MaxFutWith(pl3, fs) ELSE m2
      newpts == PtSet(pl2) \ PtSet(pl0)
      bases == IF DOMAIN pl0 = {} THEN newpts
               ELSE {BasePoint(pl0)} \cup {x \in newpts : x < BasePoint(pl0)}
      afterAdds == IF m2 # m0 /\ bases # {}
                   THEN {[l |-> RunaheadLimit(W, b, m2, StopPt), b |-> b, m |-> m3] : b \in bases}
                   ELSE {[l |-> l0, b |-> b0, m |-> m3]}
  IN IF m3 # m2 /\ BaseOrFirst(pl3) # NoPoint
     THEN {[l |-> RunaheadLimit(W, BaseOrFirst(pl3), m3, StopPt), b |-> BaseOrFirst(pl3), m |-> m3]}
     ELSE afterAdds

(* TaskPool.compute_runahead, including its early return when the base point *)
(* has not moved, or has moved forward while the limit already sits at the   *)
(* stop point.                                                               *)
ComputeRunahead ==
  /\ stopped = "no"
  /\ BaseOrFirst(pool) # NoPoint
  /\ LET base == BaseOrFirst(pool)
         lim == RunaheadLimit(W, base, maxfut, StopPt)
     IN /\ (rhl = NoPoint \/ (base # rhbase /\ ~(rhl = StopPt /\ base > rhbase)))
        /\ rhl' = lim /\ rhbase' = base
  /\ UNCHANGED <<pool, q, cmds, jobs, net, acks, stopped, fb, db, done, ran, futseen, maxfut>>
  /\ UNCHANGED <<tohold, holdpt, stopcmd, cb, trig, fset>>

(* TaskPool.release_runahead_tasks: everything at or below the cached limit; *)
(* each released task spawns its next parentless instance.                  *)
RECURSIVE ReleaseAll(_, _)
ReleaseAll(pl, ids) ==
  IF ids = {} THEN pl
  ELSE LET i == CHOOSE x \in ids : TRUE
       IN ReleaseAll(WithNextParentless([pl EXCEPT ![i].rh = FALSE], i), ids \ {i})
ReleaseRunahead ==
  /\ stopped = "no" /\ rhl # NoPoint
  /\ ~ENABLED ComputeRunahead     \* (every caller computes the limit first: compute_runahead(); release_runahead_tasks())
  /\ LET ids == {i \in DOMAIN pool : pool[i].rh /\ Pt(i) <= rhl}
     IN /\ ids # {}
        /\ pool' = ReleaseAll(pool, ids)
        /\ \E fs \in FutChoices :
              /\ futseen' = fs
              /\ \E r \in RhAfter(pool, ReleaseAll(pool, ids), ReleaseAll(pool, ids), rhl, rhbase, maxfut, fs) : rhl' = r.l /\ rhbase' = r.b /\ maxfut' = r.m
  /\ UNCHANGED <<q, cmds, jobs, net, acks, stopped, fb, db, done, ran>>
  /\ tohold' = HoldAfter /\ UNCHANGED ctl

-----------------------------------------------------------------------------
(* ------------------------------- queues --------------------------------- *)
Ready(id) == LET r == pool[id] IN
  /\ r.st = "waiting" /\ ~r.rh /\ ~r.held
  /\ PrereqsOK(W, Name(id), Pt(id), r.sat)

(* TaskPool.queue_if_ready *)
QueueIfReady(id) ==
  /\ stopped = "no" /\ id \in DOMAIN pool /\ Ready(id) /\ ~pool[id].queued /\ ~pool[id].manual
  /\ pool' = [pool EXCEPT ![id].queued = TRUE]
  /\ q' = [q EXCEPT ![QueueOf(W, Name(id))] = Append(@, id)]
  /\ UNCHANGED <<rhl, rhbase, cmds, jobs, net, acks, stopped, fb, db, done, ran, futseen, maxfut>>
  /\ UNCHANGED <<tohold, holdpt, stopcmd, cb, trig, fset>>

(* count_active_tasks: tasks waiting for job preparation (triggered, not yet preparing) count as active *)
NActive(qn) == Cardinality({i \in DOMAIN pool : QueueOf(W, Name(i)) = qn /\ (Active(pool[i]) \/ i \in trig)})
HeldIds == {i \in DOMAIN pool : pool[i].held}

(* release_queued_tasks + prep_submit_task_jobs: FIFO release within the     *)
(* limit; released tasks become preparing with the next submit number and a  *)
(* jobs-submit command is issued.                                            *)
RECURSIVE Prepare(_, _)
Prepare(pl, ids) ==
  IF ids = {} THEN pl
  ELSE LET i == CHOOSE x \in ids : TRUE
       IN Prepare([pl EXCEPT ![i].st = "preparing", ![i].queued = FALSE, ![i].sub = @ + 1, ![i].manual = FALSE], ids \ {i})
(* (release_queued_tasks clears the queued flag of what it releases; the tasks of tasks_to_trigger_now are passed *)
(*  to job preparation as they are)                                                                              *)
RECURSIVE PrepareT(_, _)
PrepareT(pl, ids) ==
  IF ids = {} THEN pl
  ELSE LET i == CHOOSE x \in ids : TRUE
       IN PrepareT([pl EXCEPT ![i].st = "preparing", ![i].sub = @ + 1, ![i].manual = FALSE], ids \ {i})
(* one history entry per job preparation *)
\* (n tells a second preparation with the same submit number apart from the first - ran is a set)
RanEntry(i) == [id |-> i, sub |-> pool[i].sub + 1, n |-> Cardinality({k \in ran : k.id = i /\ k.sub = pool[i].sub + 1}),
                ready |-> ReadyByGraph(W, Name(i), Pt(i), done),
                held |-> pool[i].held, manual |-> pool[i].manual,
                beyond |-> Pt(i) > StopPt, retry |-> pool[i].sub > 0,
                seqclash |-> \E j \in DOMAIN pool : j # i /\ Name(j) = Name(i) /\ Active(pool[j])]
ReleaseQueue(qn) ==
  /\ stopped = "no"
  /\ LET rel == QueueRelease(q[qn], QueueLimit(W, qn), NActive(qn), HeldIds)
         ids == Range(rel)
     IN /\ ids # {}
        /\ pool' = Prepare(pool, ids)
        /\ q' = [q EXCEPT ![qn] = SelectSeq(@, LAMBDA i : i \notin ids)]
        /\ cmds' = cmds \cup {<<i, pool[i].sub + 1>> : i \in ids}
        /\ ran' = ran \cup {RanEntry(i) : i \in ids}
  /\ UNCHANGED <<rhl, rhbase, jobs, net, acks, stopped, fb, db, done, futseen, maxfut>>
  /\ UNCHANGED <<tohold, holdpt, stopcmd, cb, trig, fset>>

(* Scheduler.release_tasks_to_run: one call releases from every queue (the    *)
(* queues are independent: a task belongs to exactly one), i.e. the          *)
(* composition of ReleaseQueue(qn) over all queue names.  Not a disjunct of  *)
(* Next (it adds no reachable state); used to match one real call when       *)
(* traces of the implementation are validated against this model (SchedMT).  *)
ReleaseQueues ==
  /\ stopped = "no"
  /\ LET rel(qn) == Range(QueueRelease(q[qn], QueueLimit(W, qn), NActive(qn), HeldIds))
         qids == UNION {rel(qn) : qn \in QNames}
         tids == trig \cap DOMAIN pool
         ids == qids \cup tids
     IN /\ ids # {}
        /\ pool' = PrepareT(Prepare(pool, qids), tids \ qids)
        /\ q' = [qn \in QNames |-> SelectSeq(q[qn], LAMBDA i : i \notin qids)]
        /\ cmds' = cmds \cup {<<i, pool[i].sub + 1>> : i \in ids}
        /\ ran' = ran \cup {RanEntry(i) : i \in ids}
  /\ trig' = {}
  /\ UNCHANGED <<rhl, rhbase, jobs, net, acks, stopped, fb, db, done, futseen, maxfut>>
  /\ UNCHANGED <<tohold, holdpt, stopcmd, cb, fset>>

(* the manually triggered tasks of tasks_to_trigger_now are submitted by the same call, whatever their queue says *)
ReleaseTriggered ==
  /\ stopped = "no" /\ trig # {}
  /\ LET ids == trig \cap DOMAIN pool
     IN /\ pool' = PrepareT(pool, ids)
        /\ cmds' = cmds \cup {<<i, pool[i].sub + 1>> : i \in ids}
        /\ ran' = ran \cup {RanEntry(i) : i \in ids}
  /\ trig' = {}
  /\ UNCHANGED <<rhl, rhbase, q, jobs, net, acks, stopped, fb, db, done, futseen, maxfut>>
  /\ UNCHANGED <<tohold, holdpt, stopcmd, cb, fset>>

-----------------------------------------------------------------------------
(* --------------------------- environment: jobs -------------------------- *)
(* the jobs-submit command executes: the job now exists (or submission fails) *)
EnvLaunch(c) ==
  /\ c \in cmds
  /\ cmds' = cmds \ {c}
  /\ \/ /\ \E s \in Scripts[Name(c[1])] : jobs' = [x \in DOMAIN jobs \cup {c} |-> IF x = c THEN [script |-> s, pos |-> 0] ELSE jobs[x]]
        /\ net' = [x \in DOMAIN net \cup {c} |-> IF x = c THEN <<>> ELSE net[x]]
        /\ acks' = acks \cup {<<c[1], c[2], TRUE>>}
     \/ /\ Name(c[1]) \in SubmitFail
        /\ acks' = acks \cup {<<c[1], c[2], FALSE>>}
        /\ UNCHANGED <<jobs, net>>
  /\ UNCHANGED <<pool, rhl, rhbase, q, stopped, fb, db, done, ran, futseen, maxfut>>
  /\ UNCHANGED <<tohold, holdpt, stopcmd, cb, trig, fset>>

(* a job runs one step of its script and sends the message *)
EnvJobStep(j) ==
  /\ j \in DOMAIN jobs /\ jobs[j].pos < Len(jobs[j].script) /\ Faults.net
  /\ jobs' = [jobs EXCEPT ![j].pos = @ + 1]
  /\ net' = IF stopped = "down" THEN net       \* nobody listens: the message is lost (a poll finds out later)
            ELSE [net EXCEPT ![j] = Append(@, jobs[j].script[jobs[j].pos + 1])]
  /\ UNCHANGED <<pool, rhl, rhbase, q, cmds, acks, stopped, fb, db, done, ran, futseen, maxfut>>
  /\ UNCHANGED <<tohold, holdpt, stopcmd, cb, trig, fset>>

-----------------------------------------------------------------------------
(* --------------------------- message processing ------------------------- *)
Rec(r) == [st |-> r.st, outs |-> r.outs, sub |-> r.sub, efail |-> r.efail, sfail |-> r.sfail]

(* TaskEventsManager.process_message on a pooled task, followed by           *)
(* spawn_children / spawn_on_output / remove_if_complete                     *)
Process(id, m, flag, msub) ==
  LET r == pool[id]
      eff == MsgEffect(W, Name(id), Rec(r), m, flag, msub)
      r2 == [r EXCEPT !.st = eff.r.st, !.outs = eff.r.outs, !.efail = eff.r.efail, !.sfail = eff.r.sfail,
                      \* (the queued flag is cleared when a preparing task becomes submitted - by the message itself or as
                      \*  an implied output; it can only be set on a task that has a job if the task was triggered twice,
                      \*  see CmdTrigger)
                      !.queued = IF r.st = "preparing" /\ eff.accepted
                                    /\ (m = "submitted" \/ "submitted" \in eff.r.outs \ r.outs) THEN FALSE ELSE @]
      pl1 == [pool EXCEPT ![id] = r2]
      pl2 == FireOutputs(pl1, id, eff.fired)
  IN [pool |-> RemoveIfComplete(pl2, id),
      newdone |-> {<<Name(id), Pt(id), o>> : o \in eff.r.outs},
      rh |-> [fs \in FutChoices |-> RhAfter(pool, pl2, RemoveIfComplete(pl2, id), rhl, rhbase, maxfut, fs)]]

QWithout(ids) == IF ids = {} THEN q ELSE [qn \in QNames |-> SelectSeq(q[qn], LAMBDA x : x \notin ids)]

(* the submit command's callback reaches the scheduler *)
SubmitCallback(a) ==
  /\ a \in acks /\ stopped = "no"
  /\ acks' = acks \ {a}
  /\ IF a[1] \in DOMAIN pool /\ pool[a[1]].sub = a[2]
     THEN LET res == Process(a[1], IF a[3] THEN "submitted" ELSE "submit-failed", "internal", a[2])
          IN /\ pool' = res.pool /\ done' = done \cup res.newdone
             /\ \E fs \in FutChoices : futseen' = fs /\ \E r \in res.rh[fs] : rhl' = r.l /\ rhbase' = r.b /\ maxfut' = r.m
     ELSE UNCHANGED <<pool, done, rhl, rhbase, futseen, maxfut>>
  /\ q' = QWithout(DOMAIN pool \ DOMAIN pool')     \* (TaskPool.remove takes the task out of its queue)
  /\ UNCHANGED <<cmds, jobs, net, stopped, fb, db, ran>>
  /\ tohold' = HoldAfter /\ trig' = trig \cap DOMAIN pool' /\ UNCHANGED <<holdpt, stopcmd, cb, fset>>

(* a job message is delivered and processed (per-job FIFO unless reordering is on) *)
Deliver(j, k, dup) ==
  /\ j \in DOMAIN net /\ k \in DOMAIN net[j] /\ stopped = "no"
  /\ (k = 1 \/ Faults.reorder)
  /\ IF dup THEN fb.dup > 0 /\ fb' = [fb EXCEPT !.dup = @ - 1] /\ UNCHANGED net
            ELSE net' = [net EXCEPT ![j] = [x \in 1..(Len(@) - 1) |-> IF x < k THEN @[x] ELSE @[x + 1]]] /\ UNCHANGED fb
  /\ IF j[1] \in DOMAIN pool
     THEN LET res == Process(j[1], net[j][k], "received", j[2])
          IN /\ pool' = res.pool /\ done' = done \cup res.newdone
             /\ \E fs \in FutChoices : futseen' = fs /\ \E r \in res.rh[fs] : rhl' = r.l /\ rhbase' = r.b /\ maxfut' = r.m
     ELSE UNCHANGED <<pool, done, rhl, rhbase, futseen, maxfut>>          \* task no longer in the pool: job record only
  /\ q' = QWithout(DOMAIN pool \ DOMAIN pool')     \* (TaskPool.remove takes the task out of its queue)
  /\ UNCHANGED <<cmds, jobs, acks, stopped, db, ran>>
  /\ tohold' = HoldAfter /\ trig' = trig \cap DOMAIN pool' /\ UNCHANGED <<holdpt, stopcmd, cb, fset>>

(* reliable, in-order, immediate delivery (no message network): the job's next message is processed at once *)
JobStepDirect(j) ==
  /\ j \in DOMAIN jobs /\ jobs[j].pos < Len(jobs[j].script) /\ ~Faults.net /\ stopped = "no"
  /\ jobs' = [jobs EXCEPT ![j].pos = @ + 1]
  /\ IF j[1] \in DOMAIN pool
     THEN LET res == Process(j[1], jobs[j].script[jobs[j].pos + 1], "received", j[2])
          IN /\ pool' = res.pool /\ done' = done \cup res.newdone
             /\ \E fs \in FutChoices : futseen' = fs /\ \E r \in res.rh[fs] : rhl' = r.l /\ rhbase' = r.b /\ maxfut' = r.m
     ELSE UNCHANGED <<pool, done, rhl, rhbase, futseen, maxfut>>
  /\ q' = QWithout(DOMAIN pool \ DOMAIN pool')     \* (TaskPool.remove takes the task out of its queue)
  /\ UNCHANGED <<cmds, net, acks, stopped, fb, db, ran>>
  /\ tohold' = HoldAfter /\ trig' = trig \cap DOMAIN pool' /\ UNCHANGED <<holdpt, stopcmd, cb, fset>>

-----------------------------------------------------------------------------
(* --------------------------- operator commands -------------------------- *)
(* Commands are executed between main-loop steps (process_command_queue);    *)
(* a behaviour contains at most CmdBudget of them.                           *)
ValidIds == {i \in Ids : ValidPoint(W, Name(i), Pt(i)) /\ InBounds(W, Pt(i))}
CmdRest == <<rhl, rhbase, cmds, jobs, net, acks, stopped, fb, db, done, ran, futseen, maxfut, trig, fset>>

(* cylc hold <id>: TaskPool.hold_tasks -> hold_active_task / tasks_to_hold *)
CmdHold(i) ==
  /\ "hold" \in CmdKinds /\ stopped = "no" /\ cb > 0 /\ i \in ValidIds
  /\ pool' = [x \in DOMAIN pool |-> IF x = i THEN [pool[x] EXCEPT !.held = TRUE] ELSE pool[x]]
  /\ tohold' = tohold \cup {i}
  /\ cb' = cb - 1
  /\ UNCHANGED <<q, holdpt, stopcmd>> /\ UNCHANGED CmdRest

(* release_held_active_task: un-hold; a released task that is ready to run is queued at once *)
(* a task waiting for a retry is ready only once its retry delay has passed (the model has no clock) *)
RetryPending(pl, i) == pl[i].st = "waiting" /\ (pl[i].efail > 0 \/ pl[i].sfail > 0)
ReadyIn(pl, i) == pl[i].st = "waiting" /\ ~pl[i].rh /\ ~pl[i].held /\ PrereqsOK(W, Name(i), Pt(i), pl[i].sat)
(* cylc release <id> (only ids on the hold list match) *)
CmdRelease(i) ==
  /\ "release" \in CmdKinds /\ stopped = "no" /\ cb > 0 /\ i \in tohold
  /\ LET pl1 == [x \in DOMAIN pool |-> IF x = i THEN [pool[x] EXCEPT !.held = FALSE] ELSE pool[x]]
         toq == i \in DOMAIN pool /\ pool[i].held /\ ReadyIn(pl1, i) /\ ~pl1[i].queued
     IN \E doq \in (IF toq THEN (IF RetryPending(pool, i) THEN BOOLEAN ELSE {TRUE}) ELSE {FALSE}) :
        /\ pool' = IF doq THEN [pl1 EXCEPT ![i].queued = TRUE] ELSE pl1
        /\ q' = IF doq THEN [q EXCEPT ![QueueOf(W, Name(i))] = Append(@, i)] ELSE q
  /\ tohold' = tohold \ {i}
  /\ cb' = cb - 1
  /\ UNCHANGED <<holdpt, stopcmd>> /\ UNCHANGED CmdRest

(* cylc hold --after=<point>: TaskPool.set_hold_point *)
CmdHoldPoint(p) ==
  /\ "holdpt" \in CmdKinds /\ stopped = "no" /\ cb > 0 /\ p \in W.icp..W.fcp
  /\ LET beyond == {i \in DOMAIN pool : Pt(i) > p}
     IN /\ pool' = [x \in DOMAIN pool |-> IF x \in beyond THEN [pool[x] EXCEPT !.held = TRUE] ELSE pool[x]]
        /\ tohold' = tohold \cup beyond
  /\ holdpt' = p
  /\ cb' = cb - 1
  /\ UNCHANGED <<q, stopcmd>> /\ UNCHANGED CmdRest

(* cylc release --all: TaskPool.release_hold_point (every pooled task is released; the ready ones are queued in *)
(* the order get_tasks() yields them, which the model leaves open)                                              *)
CmdReleaseHoldPoint ==
  /\ "relall" \in CmdKinds /\ stopped = "no" /\ cb > 0
  /\ LET pl1 == [x \in DOMAIN pool |-> [pool[x] EXCEPT !.held = FALSE]]
         cand == {i \in DOMAIN pool : pool[i].held /\ ReadyIn(pl1, i) /\ ~pl1[i].queued}
         must == {i \in cand : ~RetryPending(pool, i)}
     IN \E may \in SUBSET (cand \ must) :
        LET toq == must \cup may IN
        /\ pool' = [x \in DOMAIN pool |-> IF x \in toq THEN [pl1[x] EXCEPT !.queued = TRUE] ELSE pl1[x]]
        /\ \E order \in SetToSeqs(toq) :
              q' = [qn \in QNames |-> q[qn] \o SelectSeq(order, LAMBDA i : QueueOf(W, Name(i)) = qn)]
  /\ tohold' = {} /\ holdpt' = NoPoint
  /\ cb' = cb - 1
  /\ UNCHANGED stopcmd /\ UNCHANGED CmdRest

(* cylc stop <point>: TaskPool.set_stop_point.  If the cached limit lies beyond the new stop point it is pulled *)
(* back and waiting tasks beyond the stop point return to the runahead pool (and leave their queue).            *)
CmdStopPoint(p) ==
  /\ "stoppt" \in CmdKinds /\ stopped = "no" /\ cb > 0 /\ p \in W.icp..W.fcp /\ p # StopPt
  /\ stopcmd' = p
  /\ IF rhl # NoPoint /\ rhl > p
     THEN LET back == {i \in DOMAIN pool : Pt(i) > p /\ pool[i].st = "waiting"}
          IN /\ rhl' = p
             /\ pool' = [x \in DOMAIN pool |-> IF x \in back THEN [pool[x] EXCEPT !.rh = TRUE, !.queued = FALSE] ELSE pool[x]]
             /\ q' = [qn \in QNames |-> SelectSeq(q[qn], LAMBDA i : i \notin back)]
     ELSE UNCHANGED <<rhl, pool, q>>
  /\ cb' = cb - 1
  /\ UNCHANGED <<rhbase, cmds, jobs, net, acks, stopped, fb, db, done, ran, futseen, maxfut, tohold, holdpt, trig, fset>>

(* cylc trigger <id> for a pooled task (a group of one): commands.force_trigger_tasks + TaskPool.queue_or_trigger. *)
(* A task with a job in process is left alone.  Otherwise all its prerequisites are satisfied, it is reset to    *)
(* waiting, and it either goes to its queue (not queued yet and the queue is at its limit), or leaves its queue  *)
(* / stays out of it and is submitted by the next release step whatever its queue, hold or runahead state says.  *)
AllKeys(i) == AllAtomKeys(W, Name(i), Pt(i))
               \cup (IF Name(i) \in W.seqtasks /\ PrevPoint(W, Name(i), Pt(i)) # NoPoint
                     THEN {<<Name(i), PrevPoint(W, Name(i), Pt(i)), "succeeded">>} ELSE {})
CmdTrigger(i) ==
  /\ "trigger" \in CmdKinds /\ stopped = "no" /\ cb > 0 /\ i \in DOMAIN pool
  /\ IF Active(pool[i]) THEN UNCHANGED <<pool, q, trig, fset>>
     ELSE LET r0 == [pool[i] EXCEPT !.sat = @ \cup AllKeys(i), !.manual = TRUE, !.st = "waiting"]
              qn == QueueOf(W, Name(i))
              limited == QueueLimit(W, qn) > 0 /\ NActive(qn) >= QueueLimit(W, qn)
          IN IF ~pool[i].queued /\ limited
             THEN /\ pool' = [pool EXCEPT ![i] = [r0 EXCEPT !.queued = TRUE]]
                  /\ q' = [q EXCEPT ![qn] = Append(@, i)]
                  /\ UNCHANGED trig
                  \* (triggered again while still on the trigger list: from now on it is in the queue *and* on the list)
                  /\ fset' = IF i \in trig THEN fset \cup {i} ELSE fset
             ELSE /\ pool' = [pool EXCEPT ![i] = [r0 EXCEPT !.queued = FALSE]]
                  /\ q' = [q EXCEPT ![qn] = SelectSeq(@, LAMBDA x : x # i)]
                  /\ trig' = trig \cup {i}
                  /\ UNCHANGED fset
  /\ cb' = cb - 1
  /\ UNCHANGED <<rhl, rhbase, cmds, jobs, net, acks, stopped, fb, db, done, ran, futseen, maxfut, tohold, holdpt, stopcmd>>

(* cylc set --out=<o> <id> for a pooled task: TaskPool._set_outputs_itask.  An output that is complete already is  *)
(* skipped; otherwise it is processed as a forced message (implied outputs first), its children are spawned and  *)
(* the task is removed if that completes it.  A task that is not waiting afterwards is no longer runahead-limited *)
(* or queued.                                                                                                     *)
CmdSetOut(i, o) ==
  /\ "set" \in CmdKinds /\ stopped = "no" /\ cb > 0 /\ i \in DOMAIN pool /\ o \in SetOuts
  /\ LET r == pool[i]
         \* (an output the task does not have is dropped with a warning)
         skip == o \in r.outs \/ o \notin StdOuts \cup W.customs[Name(i)]
         eff == IF skip THEN [r |-> Rec(r), fired |-> {}] ELSE ForcedEffect(W, Name(i), Rec(r), o)
         r2 == [r EXCEPT !.st = eff.r.st, !.outs = eff.r.outs, !.sfail = eff.r.sfail]
         pl1 == [pool EXCEPT ![i] = r2]
         pl2 == FireOutputs(pl1, i, eff.fired)
         pl3 == RemoveIfComplete(pl2, i)
         pl4 == IF i \in DOMAIN pl3 /\ pl3[i].st # "waiting" THEN [pl3 EXCEPT ![i].rh = FALSE, ![i].queued = FALSE] ELSE pl3
         unq == i \notin DOMAIN pl3 \/ pl3[i].st # "waiting"
     IN /\ pool' = pl4
        /\ q' = IF unq THEN [qn \in QNames |-> SelectSeq(q[qn], LAMBDA x : x # i)] ELSE q
        /\ done' = done \cup {<<Name(i), Pt(i), x>> : x \in eff.r.outs}
        /\ fset' = IF skip THEN fset ELSE fset \cup {i}
        /\ \E fs \in FutChoices : futseen' = fs /\ \E x \in RhAfter(pool, pl2, pl3, rhl, rhbase, maxfut, fs) : rhl' = x.l /\ rhbase' = x.b /\ maxfut' = x.m
  /\ tohold' = HoldAfter /\ trig' = trig \cap DOMAIN pool'
  /\ cb' = cb - 1
  /\ UNCHANGED <<cmds, jobs, net, acks, stopped, fb, db, ran, holdpt, stopcmd>>

(* the same command with the resulting queues given (used when traces of the implementation are validated:    *)
(* enumerating every order of many released tasks is factorial, checking a given one is not)                    *)
CmdReleaseHoldPointAs(newq) ==
  /\ "relall" \in CmdKinds /\ stopped = "no" /\ cb > 0
  /\ LET pl1 == [x \in DOMAIN pool |-> [pool[x] EXCEPT !.held = FALSE]]
         cand == {i \in DOMAIN pool : pool[i].held /\ ReadyIn(pl1, i) /\ ~pl1[i].queued}
         must == {i \in cand : ~RetryPending(pool, i)}
         toq == UNION {{newq[qn][k] : k \in (Len(q[qn]) + 1)..Len(newq[qn])} : qn \in QNames}
     IN /\ \A qn \in QNames : /\ Len(newq[qn]) >= Len(q[qn]) /\ SubSeq(newq[qn], 1, Len(q[qn])) = q[qn]
                               /\ \A k \in (Len(q[qn]) + 1)..Len(newq[qn]) : QueueOf(W, Name(newq[qn][k])) = qn
                               /\ \A k1, k2 \in (Len(q[qn]) + 1)..Len(newq[qn]) : k1 # k2 => newq[qn][k1] # newq[qn][k2]
        /\ must \subseteq toq /\ toq \subseteq cand
        /\ pool' = [x \in DOMAIN pool |-> IF x \in toq THEN [pl1[x] EXCEPT !.queued = TRUE] ELSE pl1[x]]
        /\ q' = newq
  /\ tohold' = {} /\ holdpt' = NoPoint
  /\ cb' = cb - 1
  /\ UNCHANGED stopcmd /\ UNCHANGED CmdRest

-----------------------------------------------------------------------------
(* ----------------------- database, stop, crash, restart ----------------- *)
(* task_states.is_manual_submit is written with each status change: while a task is preparing the row still  *)
(* says whether that job was triggered manually (in memory the flag is cleared when the job is prepared)      *)
DbPool == [i \in DOMAIN pool |->
             IF pool[i].st = "preparing"
             THEN [pool[i] EXCEPT !.manual = \E k \in ran : k.id = i /\ k.sub = pool[i].sub /\ k.manual]
             ELSE pool[i]]
DbImage == [has |-> TRUE, pool |-> DbPool, tohold |-> tohold, holdpt |-> holdpt, stopcmd |-> stopcmd]
EmptyQs == [n \in QNames |-> <<>>]
NoNet == [j \in DOMAIN net |-> <<>>]

(* WorkflowDatabaseManager.process_queued_ops: the state is committed (end of every main-loop iteration, and *)
(* at a few other places; the model lets it happen at any time)                                             *)
Commit ==
  /\ stopped = "no" /\ fb.crash > 0 /\ db # DbImage      \* (the image only matters while a crash can still happen)
  /\ db' = DbImage
  /\ UNCHANGED <<pool, rhl, rhbase, q, cmds, jobs, net, acks, stopped, fb, done, ran, futseen, maxfut, tohold, holdpt, stopcmd, cb, trig, fset>>

(* cylc stop --now: the process pool is drained (pending commands run and their callbacks are processed),     *)
(* everything is committed, the process exits; jobs carry on, what they send meanwhile is lost               *)
StopNow ==
  /\ "stopnow" \in CmdKinds /\ stopped = "no" /\ cb > 0 /\ cmds = {} /\ acks = {}
  /\ db' = DbImage
  /\ stopped' = "down" /\ cb' = cb - 1
  /\ pool' = <<>> /\ q' = EmptyQs /\ net' = NoNet /\ rhl' = NoPoint /\ rhbase' = NoPoint /\ maxfut' = 0
  /\ trig' = {}
  /\ UNCHANGED <<cmds, jobs, acks, fb, done, ran, futseen, tohold, holdpt, stopcmd, fset>>

(* the scheduler process dies: nothing is committed, commands in the process pool and their results are gone *)
Crash ==
  /\ stopped = "no" /\ fb.crash > 0
  /\ fb' = [fb EXCEPT !.crash = @ - 1]
  /\ stopped' = "down"
  /\ pool' = <<>> /\ q' = EmptyQs /\ net' = NoNet /\ cmds' = {} /\ acks' = {}
  /\ rhl' = NoPoint /\ rhbase' = NoPoint /\ maxfut' = 0
  /\ trig' = {}
  /\ UNCHANGED <<jobs, db, done, ran, futseen, tohold, holdpt, stopcmd, cb, fset>>

(* restart: the pool is rebuilt from the database (TaskPool.load_db_task_pool_for_restart): a task that was    *)
(* preparing comes back waiting with its previous submit number; every unfinished task comes back runahead-   *)
(* limited, all unqueued; the hold list, hold point and stop point come back                                   *)
Restored(r) == [r EXCEPT !.st = IF r.st = "preparing" THEN "waiting" ELSE @,
                         !.sub = IF r.st = "preparing" THEN @ - 1 ELSE @,
                         \* (all tasks load runahead-limited, except failed / succeeded / expired ones - submit-failed stays limited)
                         \* (... and manually triggered ones)
                         !.rh = r.st \notin {"failed", "succeeded", "expired"} /\ ~r.manual, !.queued = FALSE]
Restart ==
  /\ stopped = "down" /\ db.has
  /\ stopped' = "no"
  \* (Scheduler.start_scheduler: "if we shut down with manually triggered waiting tasks, submit them to run now")
  /\ LET pl == [i \in DOMAIN db.pool |-> Restored(db.pool[i])]
         ids == {i \in DOMAIN pl : pl[i].manual /\ pl[i].st = "waiting"}
     IN /\ pool' = Prepare(pl, ids)
        /\ cmds' = cmds \cup {<<i, pl[i].sub + 1>> : i \in ids}
        /\ ran' = ran \cup {[id |-> i, sub |-> pl[i].sub + 1, n |-> Cardinality({k \in ran : k.id = i /\ k.sub = pl[i].sub + 1}), ready |-> ReadyByGraph(W, Name(i), Pt(i), done),
                               held |-> pl[i].held, manual |-> TRUE, beyond |-> Pt(i) > (IF db.stopcmd # NoPoint THEN db.stopcmd ELSE IF StopAt = NoPoint THEN W.fcp ELSE StopAt),
                               retry |-> pl[i].sub > 0,
                               seqclash |-> \E j \in DOMAIN pl : j # i /\ Name(j) = Name(i) /\ Active(pl[j])] : i \in ids}
  /\ tohold' = db.tohold /\ holdpt' = db.holdpt /\ stopcmd' = db.stopcmd
  \* (a new process: the task definitions' lazily filled future offsets start afresh)
  /\ futseen' \in {f \in [W.tasks -> 0..Max({0} \cup UNION {PosOffsets(t) : t \in W.tasks})] :
                       \A t \in W.tasks : f[t] = 0 \/ f[t] \in PosOffsets(t)}
  /\ maxfut' \in 0..MaxFutWith(db.pool, futseen')
  \* (add_to_pool recomputes the limit at once when a loaded task changes the pool's largest future offset; the base
  \*  point it sees is that of the tasks loaded so far)
  /\ IF maxfut' = 0 THEN UNCHANGED <<rhl, rhbase>>
     ELSE \E b \in PtSet(db.pool) :
             /\ rhbase' = b
             /\ rhl' = RunaheadLimit(W, b, maxfut', IF db.stopcmd # NoPoint THEN db.stopcmd ELSE IF StopAt = NoPoint THEN W.fcp ELSE StopAt)
  /\ UNCHANGED <<q, jobs, net, acks, fb, db, done, cb, trig, fset>>

(* a poll (after a restart, or routine) reports what the job has done: the custom messages it has sent and its *)
(* latest status                                                                                              *)
Poll(j, k) ==
  /\ (Faults.crash > 0 \/ CmdBudget > 0)      \* (configurations without stop / crash / commands do not poll)
  /\ stopped = "no" /\ j \in DOMAIN jobs /\ k \in 1..jobs[j].pos
  \* (active tasks; and a task finished by hand whose job is still alive: the job's next message would move the task
  \*  backwards, which makes the scheduler poll the job)
  /\ j[1] \in DOMAIN pool /\ pool[j[1]].sub = j[2] /\ (Active(pool[j[1]]) \/ j[1] \in fset)
  /\ (k = jobs[j].pos \/ jobs[j].script[k] \in W.customs[Name(j[1])])
  /\ LET res == Process(j[1], jobs[j].script[k], "polled", j[2])
     IN /\ pool' = res.pool /\ done' = done \cup res.newdone
        /\ \E fs \in FutChoices : futseen' = fs /\ \E r \in res.rh[fs] : rhl' = r.l /\ rhbase' = r.b /\ maxfut' = r.m
  /\ q' = QWithout(DOMAIN pool \ DOMAIN pool')     \* (TaskPool.remove takes the task out of its queue)
  /\ UNCHANGED <<cmds, jobs, net, acks, stopped, fb, db, ran>>
  /\ tohold' = HoldAfter /\ trig' = trig \cap DOMAIN pool' /\ UNCHANGED <<holdpt, stopcmd, cb, fset>>

-----------------------------------------------------------------------------
(* ------------------------- shutdown and stall --------------------------- *)
(* (jobs orphaned by "cylc set" - their task was completed by hand and has left the pool, or is no longer in the *)
(*  state its job implies - do not count: the stall test only looks at the pool)                               *)
Orphan(j) == IF j[1] \notin DOMAIN pool THEN TRUE ELSE IF j[1] \in fset THEN TRUE ELSE pool[j[1]].sub # j[2]
Quiet == /\ \A c \in cmds : Orphan(c)
         /\ \A a \in acks : Orphan(<<a[1], a[2]>>)
         \* (IF, not \/: inside an action TLC explores both sides of a disjunction, 2^n combinations under \A)
         /\ \A j \in DOMAIN jobs : IF Orphan(j) THEN TRUE ELSE (jobs[j].pos = Len(jobs[j].script) /\ net[j] = <<>>)
NothingToDo ==
  /\ \A i \in DOMAIN pool : ~Active(pool[i]) /\ ~(pool[i].st = "waiting" /\ ~pool[i].rh)
(* Scheduler.check_auto_shutdown *)
AutoShutdown ==
  /\ stopped = "no" /\ trig = {}
  /\ \A i \in DOMAIN pool : /\ ~Active(pool[i])
                            /\ ~(pool[i].st = "waiting" /\ ~pool[i].rh /\ Pt(i) <= StopPt)
                            /\ ~Final(pool[i])
                            /\ (IF Pt(i) > StopPt THEN TRUE ELSE pool[i].sat \cap AllAtomKeys(W, Name(i), Pt(i)) = {})
  /\ ~ENABLED ReleaseRunahead /\ ~ENABLED ComputeRunahead
  /\ stopped' = "auto"
  /\ UNCHANGED <<pool, rhl, rhbase, q, cmds, jobs, net, acks, fb, db, done, ran, futseen, maxfut>>
  /\ UNCHANGED <<tohold, holdpt, stopcmd, cb, trig, fset>>

(* TaskPool.is_stalled *)
Stall ==
  /\ stopped = "no" /\ trig = {}
  /\ \A i \in DOMAIN pool : ~Active(pool[i]) /\ ~(Ready(i))
  \* (something is stuck: an incomplete finished task, or a waiting task at or below the stop point - runahead-
  \*  limited or not - with unsatisfied prerequisites)
  /\ \E i \in DOMAIN pool :
        IF Final(pool[i]) THEN TRUE
        ELSE /\ pool[i].st = "waiting" /\ Pt(i) <= StopPt
             /\ (IF pool[i].rh THEN ~PrereqsOK(W, Name(i), Pt(i), pool[i].sat) ELSE TRUE)
  \* (is_stalled brings the limit up to date itself; a runahead-limited task within it that could run once
  \*  released means "not stalled" - one whose prerequisites are not satisfied does not)
  /\ ~ENABLED ComputeRunahead
  /\ \A i \in DOMAIN pool : ~(pool[i].st = "waiting" /\ pool[i].rh /\ rhl # NoPoint /\ Pt(i) <= rhl
                               /\ PrereqsOK(W, Name(i), Pt(i), pool[i].sat))
  /\ Quiet
  /\ stopped' = "stalled"
  /\ UNCHANGED <<pool, rhl, rhbase, q, cmds, jobs, net, acks, fb, db, done, ran, futseen, maxfut>>
  /\ UNCHANGED <<tohold, holdpt, stopcmd, cb, trig, fset>>

-----------------------------------------------------------------------------
RECURSIVE LoadFirst(_, _)
LoadFirst(pl, ts) ==
  IF ts = {} THEN pl
  ELSE LET t == CHOOSE x \in ts : TRUE
           p == NextParentless(W, t, NoPoint)
       IN LoadFirst(IF p # NoPoint /\ InBounds(W, p) THEN Add(pl, <<t, p>>) ELSE pl, ts \ {t})

Init ==
  /\ tohold = {} /\ holdpt = NoPoint /\ stopcmd = NoPoint /\ cb = CmdBudget /\ trig = {} /\ fset = {}
  /\ rhl = NoPoint /\ rhbase = NoPoint
  /\ q = [n \in QNames |-> <<>>]
  /\ cmds = {} /\ jobs = <<>> /\ net = <<>> /\ acks = {}
  /\ stopped = "no"
  /\ fb = [dup |-> Faults.dup, crash |-> Faults.crash]
  /\ done = {} /\ ran = {}
  /\ pool = LoadFirst(<<>>, W.tasks)       \* TaskPool.load_from_point
  /\ db = [has |-> FALSE, pool |-> <<>>, tohold |-> {}, holdpt |-> NoPoint, stopcmd |-> NoPoint]
  /\ futseen \in {f \in [W.tasks -> 0..Max({0} \cup UNION {PosOffsets(t) : t \in W.tasks})] :
                      \A t \in W.tasks : f[t] = 0 \/ f[t] \in PosOffsets(t)}     \* (start-up creates proxies too)
  /\ maxfut \in 0..MaxFutWith(pool, futseen)

Next ==
  \/ ComputeRunahead
  \/ ReleaseRunahead
  \/ \E id \in DOMAIN pool : QueueIfReady(id)
  \/ \E qn \in QNames : ReleaseQueue(qn)
  \/ ReleaseTriggered
  \/ \E c \in cmds : EnvLaunch(c)
  \/ \E j \in DOMAIN jobs : EnvJobStep(j)
  \/ \E j \in DOMAIN jobs : JobStepDirect(j)
  \/ \E a \in acks : SubmitCallback(a)
  \/ \E j \in DOMAIN net : \E k \in DOMAIN net[j] : \E dup \in BOOLEAN : Deliver(j, k, dup)
  \/ AutoShutdown
  \/ Stall
  \/ \E i \in ValidIds : CmdHold(i)
  \/ \E i \in tohold : CmdRelease(i)
  \/ \E p \in W.icp..W.fcp : CmdHoldPoint(p) \/ CmdStopPoint(p)
  \/ CmdReleaseHoldPoint
  \/ \E i \in DOMAIN pool : CmdTrigger(i)
  \/ \E i \in DOMAIN pool : \E o \in SetOuts : CmdSetOut(i, o)
  \/ Commit \/ StopNow \/ Crash \/ Restart
  \/ \E j \in DOMAIN jobs : \E k \in 1..jobs[j].pos : Poll(j, k)

Fairness == WF_vars(Next)
Spec == Init /\ [][Next]_vars
LiveSpec == Spec /\ Fairness

-----------------------------------------------------------------------------
(* ------------------------------ properties ------------------------------ *)
(* C01: a job is prepared only when its graph prerequisites hold over the    *)
(* outputs actually completed upstream, on sequence and within bounds.      *)
C01_SubmitOnlyIfSatisfied == \A k \in ran : k.ready \/ k.manual
C01_OnSequenceInBounds == \A k \in ran : ValidPoint(W, Name(k.id), Pt(k.id)) /\ InBounds(W, Pt(k.id))

(* C02: submit numbers of one instance are 1..n, bounded by (N+1)(M+1)       *)
C02_RetryBound == \A k \in ran : (k.id \notin fset /\ ~\E k2 \in ran : k2.id = k.id /\ k2.manual) => k.sub <= (W.eretry[Name(k.id)] + 1) * (W.sretry[Name(k.id)] + 1)
C02_NoDuplicateSubmitNum == \A k1, k2 \in ran : (k1.id = k2.id /\ k1.sub = k2.sub) => k1 = k2
C02_FailOutputOnlyWhenNoRetry ==
  \A i \in DOMAIN pool \ fset : ("failed" \in pool[i].outs => pool[i].efail >= W.eretry[Name(i)])
                      /\ ("submit-failed" \in pool[i].outs => pool[i].sfail >= W.sretry[Name(i)])

(* C03: the scheduler shuts down only when quiescent *)
C03_ShutdownQuiescent ==
  stopped = "auto" => \A i \in DOMAIN pool : ~Active(pool[i]) /\ ~(Final(pool[i]) /\ ~Complete(W, Name(i), pool[i].outs))
C03_StallIsReal == stopped = "stalled" => \A i \in DOMAIN pool : ~Active(pool[i]) /\ ~Ready(i)

(* C04: a task leaves the runahead pool only at or below the cached limit (action property), and the cached   *)
(* limit is never ahead of the formula over the current pool.  As a state invariant ("nothing released lies    *)
(* beyond the limit of the current pool") this only holds for workflows without future triggers: with them the *)
(* limit shrinks again when the last pooled task with a future offset leaves, and tasks already released stay  *)
(* released.                                                                                                   *)
C04_ReleaseStepOK ==
  cb' = cb =>      \* (cylc set makes a task that is no longer waiting leave the runahead pool whatever the limit)
  \A i \in DOMAIN pool \cap DOMAIN pool' : (pool[i].rh /\ ~pool'[i].rh) => (rhl # NoPoint /\ Pt(i) <= rhl)
C04_ReleaseStep == [][C04_ReleaseStepOK]_vars
C04_ReleasedWithinLimit ==
  (\A t \in W.tasks : PosOffsets(t) = {}) =>
  \A i \in DOMAIN pool : (~pool[i].rh /\ pool[i].st = "waiting" /\ rhl # NoPoint)
                            => Pt(i) <= RunaheadLimit(W, rhbase, PoolMaxFut(pool), StopPt)
C04_CachedLimitNotAhead ==
  (rhl # NoPoint /\ DOMAIN pool # {} /\ ~ENABLED ComputeRunahead)
     => rhl <= RunaheadLimit(W, BasePoint(pool), PoolMaxFut(pool), StopPt)
(* the statement of C04 itself: a task is released only at or below the limit of the pool as it is then *)
C04_ReleaseWithinFormulaOK ==
  cb' = cb =>
  \A i \in DOMAIN pool \cap DOMAIN pool' :
     (pool[i].rh /\ ~pool'[i].rh) => Pt(i) <= RunaheadLimit(W, BasePoint(pool), PoolMaxFut(pool), StopPt)
C04_ReleaseWithinFormula == [][C04_ReleaseWithinFormulaOK]_vars

(* the cached pool maximum never exceeds what the pooled definitions justify *)
C04_MaxFutCacheNotAhead == maxfut <= PoolMaxFut(pool)

(* C05: queue limits *)
NoManual == (\A k \in ran : ~k.manual) /\ fset = {}       \* no job was triggered manually and no output was set by hand so far
C05_LimitRespected ==
  NoManual => \A qn \in QNames : QueueLimit(W, qn) > 0 =>
                 Cardinality({i \in DOMAIN pool : QueueOf(W, Name(i)) = qn /\ Active(pool[i])}) <= QueueLimit(W, qn)
C05_QueuedInOwnQueue == \A qn \in QNames : \A k \in DOMAIN q[qn] : QueueOf(W, Name(q[qn][k])) = qn

(* C07: bounds *)
C07_PoolWithinBounds == \A i \in DOMAIN pool : InBounds(W, Pt(i)) /\ ValidPoint(W, Name(i), Pt(i))
(* (judged against the stop point in force when the job was prepared; the retry of a task that was already     *)
(*  active when the stop point took effect is the known finding C07/C43 ..._RetryOfActiveTask, kept apart)     *)
C07_NoSubmitBeyondStop == \A k \in ran : k.beyond => (k.retry \/ k.manual)
C07_NoSubmitBeyondStop_RetryOfActiveTask == \A k \in ran : ~(k.beyond /\ k.retry)

(* C06: holds *)
C06_HeldNeverPrepared == \A k \in ran : ~k.held \/ k.manual
C06_HoldListMatchesFlags ==
  \A i \in DOMAIN pool : pool[i].held <=> (i \in tohold)
C06_BeyondHoldPointHeld ==
  holdpt # NoPoint => \A i \in DOMAIN pool : (Pt(i) > holdpt /\ i \in tohold) => pool[i].held

(* C09: implied outputs, lifecycle (as an action property) *)
C09_ImpliedOutputs ==
  \A i \in DOMAIN pool : ("succeeded" \in pool[i].outs \/ "failed" \in pool[i].outs) => {"submitted", "started"} \subseteq pool[i].outs
(* under reordering the implied outputs are completed as soon as a final message has been processed *)
C09_ImpliedOutputsSettled == C09_ImpliedOutputs
C09_Step ==
  \A i \in DOMAIN pool \cap DOMAIN pool' :
     /\ pool[i].outs \subseteq pool'[i].outs
     /\ (pool[i].st # pool'[i].st /\ cb' = cb /\ ~pool[i].manual /\ i \notin fset) => Lifecycle(pool[i].st, pool'[i].st, pool'[i].st = "waiting")
C09_Lifecycle == [][C09_Step]_vars

(* C11: finished tasks are retained exactly when incomplete *)
C11_RetainedOnlyIfIncomplete == \A i \in DOMAIN pool : Final(pool[i]) => ~Complete(W, Name(i), pool[i].outs)

(* C31: sequential tasks never overlap *)
C31_NoOverlap ==
  NoManual => \A i, j \in DOMAIN pool : (i # j /\ Name(i) = Name(j) /\ Name(i) \in W.seqtasks) => ~(Active(pool[i]) /\ Active(pool[j]))
C31_NoClashAtPrepare == NoManual => \A k \in ran : Name(k.id) \in W.seqtasks => ~k.seqclash

(* C26: bookkeeping *)
InQueue(i) == \E qn \in QNames : \E k \in DOMAIN q[qn] : q[qn][k] = i
C26_QueuedFlagMatchesQueueStrict == \A i \in DOMAIN pool : pool[i].queued <=> InQueue(i)
(* With cylc trigger only one direction holds for a task triggered twice before the next release step: the second *)
(* trigger puts it into its queue (the queue counts the task itself as active) while it stays on the trigger      *)
(* list; it is submitted from the list, loses the flag when the job is submitted, but stays in the queue and is   *)
(* released from it once more later (observation of DESIGN.md section 9: TLC refutes the strict form on MC_trig   *)
(* with two commands, and the real scheduler does the same).  Such ids are recorded in fset.                      *)
C26_QueuedFlagMatchesQueue ==
  \A i \in DOMAIN pool : (pool[i].queued => InQueue(i)) /\ (i \notin fset => (InQueue(i) => pool[i].queued))

(* Termination: every behaviour ends shut down or stalled (liveness, under fairness) *)
Terminates == <>(stopped # "no")
(* C01/C04: when every job script completes its task, the run shuts down by itself *)
CompletableShutsDown == <>(stopped = "auto")

TypeOK == /\ stopped \in {"no", "auto", "stalled", "down"}
          /\ \A i \in DOMAIN pool : pool[i].st \in {"waiting", "preparing", "submitted", "running", "succeeded", "failed", "submit-failed", "expired"}
=============================================================================
