------------------------------- MODULE SubProc -------------------------------
(* C42: the subprocess pool runs every command once, within its bounds.       *)
(*                                                                            *)
(* State machine of the scheduler's process pool as its users see it: a FIFO  *)
(* queue of commands, at most `size` child processes, a `stopping` flag (no    *)
(* more job submission), a `closed` flag (no more commands at all), and the    *)
(* callbacks delivered for every command.  Pool actions: Put, Process (one     *)
(* call of the main-loop hook: reap children that have exited, kill and reap   *)
(* those past their timeout, start queued commands while there is room),       *)
(* SetStopping, Close, Terminate.  Environment actions: a running child exits  *)
(* with a return code; the clock passes a running child's timeout.             *)
(*                                                                            *)
(* Command kinds: "plain" (any command: event handler, poll, ...), "submit"    *)
(* (command key jobs-submit), "ssh" (an ssh command given the alternative      *)
(* callback for return code 255), "badexec" (the executable cannot be          *)
(* launched).  Whether a command is quick, slow, failing or timing-out is the  *)
(* environment's choice (Exit with rc 0/1 before or after any number of        *)
(* Process calls, or Timeout), so those "kinds" are covered by nondeterminism. *)
(*                                                                            *)
(* The callbacks are specified from the property statement: every command      *)
(* accepted by Put gets exactly one callback - also when it is refused,        *)
(* dropped because the pool is stopping / terminated, killed on timeout or     *)
(* cannot be launched (return code 999 for "workflow stopping, command not     *)
(* run").                                                                     *)
EXTENDS Integers, Sequences, FiniteSets, TLC

CONSTANTS NCmds,    \* number of commands put (identified 1..NCmds in order of Put)
          Sizes     \* pool sizes to explore

Kinds == {"plain", "submit", "ssh", "badexec"}
NoRc == 1000                     \* "still running"
RC_STOPPING == 999               \* SubProcPool.RET_CODE_WORKFLOW_STOPPING
RC_KILLED == -9
ExitCodes(k) == CASE k = "plain" -> {0, 1} [] k = "submit" -> {0} [] k = "ssh" -> {0, 255} [] OTHER -> {}
\* which callback an exit with return code rc goes to
Which(k, rc) == IF k = "ssh" /\ rc = 255 THEN "cb255" ELSE "cb"

VARIABLES size,       \* configured pool size
          nput,       \* commands put so far
          kind,       \* kind of each command put
          queue,      \* queued command ids (FIFO)
          running,    \* ids of live children, in start order
          exited,     \* id -> return code of a child that has exited but is not yet reaped (NoRc otherwise)
          expired,    \* ids of running children whose timeout has passed
          stopping, closed, terminated,
          cbs,        \* id -> sequence of callbacks delivered: <<which, return code>>
          act         \* the action that led here, with parameters and the callbacks it fired
vars == <<size, nput, kind, queue, running, exited, expired, stopping, closed, terminated, cbs, act>>

Ids == 1..NCmds
SeqSet(s) == {s[i] : i \in 1..Len(s)}
Idx(s, c) == CHOOSE i \in 1..Len(s) : s[i] = c

Init == /\ size \in Sizes /\ nput = 0 /\ kind = [c \in Ids |-> "none"]
        /\ queue = <<>> /\ running = <<>> /\ exited = [c \in Ids |-> NoRc] /\ expired = {}
        /\ stopping = FALSE /\ closed = FALSE /\ terminated = FALSE
        /\ cbs = [c \in Ids |-> <<>>]
        /\ act = [name |-> "Init", size |-> size]

\* deliver the callbacks listed in `fired` (sequence of <<id, which, rc>>)
RECURSIVE Deliver(_, _)
Deliver(cb, fired) ==
  IF fired = <<>> THEN cb
  ELSE LET f == Head(fired)
       IN Deliver([cb EXCEPT ![f[1]] = Append(@, <<f[2], f[3]>>)], Tail(fired))

\* Put: refused (immediate callback, 999) if the pool is closed, or stopping and
\* the command is a job submission; queued otherwise.
Put(k) ==
  /\ nput < NCmds
  /\ LET c == nput + 1
         refused == closed \/ (stopping /\ k = "submit")
         fired == IF refused THEN << <<c, "cb", RC_STOPPING>> >> ELSE <<>>
     IN /\ nput' = c
        /\ kind' = [kind EXCEPT ![c] = k]
        /\ queue' = IF refused THEN queue ELSE Append(queue, c)
        /\ cbs' = Deliver(cbs, fired)
        /\ act' = [name |-> "Put", c |-> c, k |-> k, fired |-> fired]
  /\ UNCHANGED <<size, running, exited, expired, stopping, closed, terminated>>

\* reap phase of Process: children that have exited get their callback (the
\* alternative one for an ssh command exiting 255); children past their timeout
\* are killed and get the ordinary callback; the rest keep running.
RECURSIVE Reap(_, _, _)
Reap(rs, keep, fired) ==
  IF rs = <<>> THEN [keep |-> keep, fired |-> fired]
  ELSE LET c == Head(rs)
       IN IF exited[c] # NoRc
          THEN Reap(Tail(rs), keep, Append(fired, <<c, Which(kind[c], exited[c]), exited[c]>>))
          ELSE IF c \in expired
          THEN Reap(Tail(rs), keep, Append(fired, <<c, "cb", RC_KILLED>>))
          ELSE Reap(Tail(rs), Append(keep, c), fired)

\* start phase of Process: while there is room, take the head of the queue; a
\* job submission is not started once the pool is stopping (callback, 999); a
\* command that cannot be launched gets its callback (1) at once.
RECURSIVE Start(_, _, _)
Start(q, run, fired) ==
  IF q = <<>> \/ Len(run) >= size THEN [q |-> q, run |-> run, fired |-> fired]
  ELSE LET c == Head(q)
       IN IF stopping /\ kind[c] = "submit"
          THEN Start(Tail(q), run, Append(fired, <<c, "cb", RC_STOPPING>>))
          ELSE IF kind[c] = "badexec"
          THEN Start(Tail(q), run, Append(fired, <<c, "cb", 1>>))
          ELSE Start(Tail(q), Append(run, c), fired)

Process ==
  /\ LET r == Reap(running, <<>>, <<>>)
         s == Start(queue, r.keep, r.fired)
     IN /\ queue' = s.q
        /\ running' = s.run
        /\ cbs' = Deliver(cbs, s.fired)
        /\ exited' = [c \in Ids |-> IF c \in SeqSet(s.run) THEN exited[c] ELSE NoRc]
        /\ expired' = expired \cap SeqSet(s.run)
        /\ act' = [name |-> "Process", fired |-> s.fired]
  /\ UNCHANGED <<size, nput, kind, stopping, closed, terminated>>

SetStopping ==
  /\ ~stopping
  /\ stopping' = TRUE
  /\ act' = [name |-> "SetStopping"]
  /\ UNCHANGED <<size, nput, kind, queue, running, exited, expired, closed, terminated, cbs>>

Close ==
  /\ ~closed
  /\ stopping' = TRUE /\ closed' = TRUE
  /\ act' = [name |-> "Close"]
  /\ UNCHANGED <<size, nput, kind, queue, running, exited, expired, terminated, cbs>>

\* Terminate: close; every queued command is given up (callback, 999); every
\* child is killed and reaped (a child that had already exited keeps its own
\* return code).
Terminate ==
  /\ ~terminated
  /\ LET drained == [i \in 1..Len(queue) |-> <<queue[i], "cb", RC_STOPPING>>]
         killed  == [i \in 1..Len(running) |->
                       LET c == running[i]
                       IN IF exited[c] # NoRc THEN <<c, Which(kind[c], exited[c]), exited[c]>>
                          ELSE <<c, "cb", RC_KILLED>>]
         fired == drained \o killed
     IN /\ cbs' = Deliver(cbs, fired)
        /\ act' = [name |-> "Terminate", fired |-> fired]
  /\ queue' = <<>> /\ running' = <<>>
  /\ exited' = [c \in Ids |-> NoRc] /\ expired' = {}
  /\ stopping' = TRUE /\ closed' = TRUE /\ terminated' = TRUE
  /\ UNCHANGED <<size, nput, kind>>

\* environment: a running child exits by itself
Exit(c, rc) ==
  /\ c \in SeqSet(running) /\ exited[c] = NoRc
  /\ rc \in ExitCodes(kind[c])
  /\ exited' = [exited EXCEPT ![c] = rc]
  /\ act' = [name |-> "Exit", c |-> c, rc |-> rc]
  /\ UNCHANGED <<size, nput, kind, queue, running, expired, stopping, closed, terminated, cbs>>

\* environment: the clock passes the timeout of running child c - and therefore of
\* every child started before it (all children have the same time allowance)
Timeout(c) ==
  /\ c \in SeqSet(running) /\ c \notin expired
  /\ expired' = expired \cup {running[j] : j \in 1..Idx(running, c)}
  /\ act' = [name |-> "Timeout", c |-> c]
  /\ UNCHANGED <<size, nput, kind, queue, running, exited, stopping, closed, terminated, cbs>>

Next == \/ \E k \in Kinds : Put(k)
        \/ Process \/ SetStopping \/ Close \/ Terminate
        \/ \E c \in Ids : \E rc \in {0, 1, 255} : Exit(c, rc)
        \/ \E c \in Ids : Timeout(c)
\* the scheduler keeps calling Process; a child that never exits is eventually timed out
Fairness == WF_vars(Process) /\ \A c \in Ids : WF_vars(Timeout(c))
Spec == Init /\ [][Next]_vars /\ Fairness

-----------------------------------------------------------------------------
TypeOK == /\ nput \in 0..NCmds /\ size \in Sizes
          /\ SeqSet(queue) \subseteq 1..nput /\ SeqSet(running) \subseteq 1..nput
          /\ SeqSet(queue) \cap SeqSet(running) = {}
          /\ expired \subseteq SeqSet(running)
          /\ \A c \in Ids : exited[c] # NoRc => c \in SeqSet(running)

Drained == queue = <<>> /\ running = <<>>
\* C42 clause 1 (safety): never more than one callback; a command still queued or running has none yet;
\* every other command that was put has had exactly one - in particular all of them once the pool is drained
C42_ExactlyOneCallback ==
  \A c \in 1..nput :
     /\ Len(cbs[c]) <= 1
     /\ (c \in SeqSet(queue) \cup SeqSet(running)) => Len(cbs[c]) = 0
     /\ (c \notin SeqSet(queue) \cup SeqSet(running)) => Len(cbs[c]) = 1
C42_DrainedAllCalledBack == Drained => \A c \in 1..nput : Len(cbs[c]) = 1
\* C42 clause 1 (liveness): every command put eventually gets its callback
C42_EventuallyCallback == \A c \in Ids : [](c <= nput => <>(Len(cbs[c]) = 1))

\* C42 clause 2
C42_SizeBound == Len(running) <= size

\* C42 clause 3: a job submission is never started while the pool is stopping
NoSubmitStep == \A c \in Ids : (c \in SeqSet(running') /\ c \notin SeqSet(running) /\ kind[c] = "submit") => ~stopping
C42_NoSubmitWhenStopping == [][NoSubmitStep]_vars
=============================================================================
