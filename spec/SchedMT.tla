------------------------------ MODULE SchedMT ------------------------------
(***************************************************************************)
(* Validation of executions of the real scheduler against the design model *)
(* Sched.tla (code -> spec, full state logged).                             *)
(*                                                                         *)
(* The harness (harness/sched/modeltrace.py) runs the real main loop and,  *)
(* at the return of each method that is one action of the model, logs the  *)
(* projection of the real state onto the model's variables together with   *)
(* the action's name and argument.  Every logged step must be that action  *)
(* of Sched.tla taken from the previous logged state and must produce the  *)
(* logged state.  A step for which this is impossible is recorded in `bad` *)
(* and the model is re-synchronised with the logged state, so the rest of  *)
(* the run is still checked.  After every step the model's invariants are  *)
(* evaluated on the state the implementation was really in.                *)
(*                                                                         *)
(* Runs of one workflow are batched (MT_Runs); constants come from the     *)
(* generated module MTData.                                                *)
(***************************************************************************)
EXTENDS Sched, MTData, TLCExt

VARIABLES tid,   \* index of the run being followed
          l,     \* index of the last consumed record of that run
          bad    \* set of <<record index, what>> : divergences and failed invariants
mtvars == <<vars, tid, l, bad>>

Run == MT_Runs[tid]
InitKeys(i) == InitSatKeys(W, Name(i), Pt(i))

(* the logged projection of a pooled task does not list prerequisites that *)
(* were satisfied from the start (cylc drops pre-initial ones)             *)
PoolMatches(lp) ==
  /\ DOMAIN pool' = DOMAIN lp
  /\ \A i \in DOMAIN lp : LET a == pool'[i]  b == lp[i] IN
        /\ a.st = b.st /\ a.rh = b.rh /\ a.queued = b.queued /\ a.held = b.held /\ a.outs = b.outs /\ a.manual = b.manual
        /\ a.sub = b.sub /\ a.efail = b.efail /\ a.sfail = b.sfail
        /\ (a.sat \ InitKeys(i)) = (b.sat \ InitKeys(i))
Matches(s) ==
  /\ PoolMatches(s.pool) /\ rhl' = s.rhl /\ rhbase' = s.rhbase /\ q' = s.q /\ cmds' = s.cmds /\ jobs' = s.jobs
  /\ net' = s.net /\ acks' = s.acks /\ stopped' = s.stopped /\ futseen' = s.futseen /\ maxfut' = s.maxfut /\ tohold' = s.tohold /\ holdpt' = s.holdpt
  /\ StopPt' = s.stop /\ trig' = s.trig

Act(r) ==
  \/ r.ev = "ComputeRunahead" /\ ComputeRunahead
  \/ r.ev = "ReleaseRunahead" /\ ReleaseRunahead
  \/ r.ev = "QueueIfReady" /\ QueueIfReady(r.arg)
  \/ r.ev = "ReleaseQueues" /\ ReleaseQueues
  \/ r.ev = "EnvLaunch" /\ EnvLaunch(r.arg)
  \/ r.ev = "EnvJobStep" /\ EnvJobStep(r.arg)
  \/ r.ev = "SubmitCallback" /\ \E a \in acks : a[1] = r.arg[1] /\ a[2] = r.arg[2] /\ SubmitCallback(a)
  \/ r.ev = "Deliver" /\ \E k \in DOMAIN net[r.arg] : Deliver(r.arg, k, FALSE)
  \/ r.ev = "AutoShutdown" /\ AutoShutdown
  \/ r.ev = "Stall" /\ Stall
  \/ r.ev = "StopNow" /\ StopNow
  \/ r.ev = "Restart" /\ Restart
  \/ r.ev = "Poll" /\ r.arg \in DOMAIN jobs /\ \E k \in 1..jobs[r.arg].pos : Poll(r.arg, k)
  \/ r.ev = "CmdHold" /\ CmdHold(r.arg)
  \/ r.ev = "CmdRelease" /\ CmdRelease(r.arg)
  \/ r.ev = "CmdHoldPoint" /\ CmdHoldPoint(r.arg)
  \/ r.ev = "CmdReleaseHoldPoint" /\ CmdReleaseHoldPointAs(r.st.q)
  \/ r.ev = "CmdStopPoint" /\ CmdStopPoint(r.arg)
  \/ r.ev = "CmdTrigger" /\ CmdTrigger(r.arg)
  \/ r.ev = "CmdSetOut" /\ CmdSetOut(r.arg[1], r.arg[2])

Strict(r) == Act(r) /\ Matches(r.st)

AsModelPool(lp) == [i \in DOMAIN lp |-> [lp[i] EXCEPT !.sat = @ \cup InitKeys(i)]]
OutsOf(lp) == UNION {{<<Name(i), Pt(i), o>> : o \in lp[i].outs} : i \in DOMAIN lp}

(* the model's invariants, evaluated on the next state *)
FailedNext ==
  {x[1] : x \in {y \in {
     <<"C01_SubmitOnlyIfSatisfied", C01_SubmitOnlyIfSatisfied'>>,
     <<"C01_OnSequenceInBounds", C01_OnSequenceInBounds'>>,
     <<"C02_RetryBound", C02_RetryBound'>>,
     <<"C02_NoDuplicateSubmitNum", C02_NoDuplicateSubmitNum'>>,
     <<"C02_FailOutputOnlyWhenNoRetry", C02_FailOutputOnlyWhenNoRetry'>>,
     <<"C03_ShutdownQuiescent", C03_ShutdownQuiescent'>>,
     <<"C03_StallIsReal", C03_StallIsReal'>>,
     <<"C04_ReleasedWithinLimit", C04_ReleasedWithinLimit'>>,
     <<"C04_CachedLimitNotAhead", C04_CachedLimitNotAhead'>>,
     <<"C04_MaxFutCacheNotAhead", C04_MaxFutCacheNotAhead'>>,
     <<"C05_LimitRespected", C05_LimitRespected'>>,
     <<"C05_QueuedInOwnQueue", C05_QueuedInOwnQueue'>>,
     <<"C07_PoolWithinBounds", C07_PoolWithinBounds'>>,
     <<"C07_NoSubmitBeyondStop", C07_NoSubmitBeyondStop'>>,
     <<"C09_ImpliedOutputs", C09_ImpliedOutputs'>>,
     <<"C11_RetainedOnlyIfIncomplete", C11_RetainedOnlyIfIncomplete'>>,
     <<"C26_QueuedFlagMatchesQueue", C26_QueuedFlagMatchesQueue'>>,
     <<"C31_NoOverlap", C31_NoOverlap'>>,
     <<"C31_NoClashAtPrepare", C31_NoClashAtPrepare'>>,
     <<"C04_ReleaseStepOK", C04_ReleaseStepOK>>,
     <<"C06_HeldNeverPrepared", C06_HeldNeverPrepared'>>,
     <<"C06_HoldListMatchesFlags", C06_HoldListMatchesFlags'>>,
     <<"C06_BeyondHoldPointHeld", C06_BeyondHoldPointHeld'>>,
     <<"C09_Step", C09_Step>>} : ~y[2]}}

SetFrom(s) ==
  /\ pool' = AsModelPool(s.pool) /\ rhl' = s.rhl /\ q' = s.q /\ cmds' = s.cmds /\ jobs' = s.jobs
  /\ net' = s.net /\ acks' = s.acks /\ stopped' = s.stopped
  /\ rhbase' = s.rhbase /\ futseen' = s.futseen /\ maxfut' = s.maxfut /\ tohold' = s.tohold /\ holdpt' = s.holdpt
  /\ stopcmd' = (IF s.stop = W.fcp THEN NoPoint ELSE s.stop) /\ cb' = CmdBudget /\ trig' = s.trig /\ fset' = fset

Good ==
  /\ l < Len(Run)
  /\ Strict(Run[l + 1])
  /\ l' = l + 1 /\ tid' = tid
  /\ bad' = bad \cup {<<l + 1, n>> : n \in FailedNext}

(* no way to explain the logged step: note it, adopt the logged state *)
Resync ==
  /\ l < Len(Run)
  /\ ~ENABLED Strict(Run[l + 1])
  /\ SetFrom(Run[l + 1].st)
  /\ done' = done \cup OutsOf(Run[l + 1].st.pool)
  /\ UNCHANGED <<ran, fb, db>>
  /\ l' = l + 1 /\ tid' = tid
  /\ bad' = bad \cup {<<l + 1, "DIVERGES:" \o Run[l + 1].ev>>}

StartOf(k) ==
  LET s == MT_Runs[k][1].st IN
  /\ SetFrom(s)
  /\ done' = OutsOf(s.pool) /\ ran' = {} /\ db' = [pool |-> {}]
  /\ fb' = [dup |-> Faults.dup, crash |-> Faults.crash]

(* The run ended because the real scheduler went idle (three iterations without doing anything, nothing left  *)
(* in the environment) without shutting down or reporting a stall: then no scheduler-side action of the model *)
(* may be enabled in the last state either - otherwise the implementation is sitting on work it could do.     *)
Starved ==
  IF MT_Ends[tid] # "quiescent" \/ stopped # "no" THEN {}
  ELSE {x[1] : x \in {y \in {
         <<"C03_Starved:ComputeRunahead", ENABLED ComputeRunahead>>,
         <<"C03_Starved:ReleaseRunahead", ENABLED ReleaseRunahead>>,
         <<"C03_Starved:QueueIfReady", \E i \in DOMAIN pool : ~RetryPending(pool, i) /\ ENABLED QueueIfReady(i)>>,
         <<"C03_Starved:ReleaseQueues", ENABLED ReleaseQueues>>} : y[2]}}
NextRun ==
  /\ l = Len(Run) /\ tid <= Len(MT_Runs)
  /\ PrintT(<<"MTVERDICT", tid, Len(Run), bad \cup {<<Len(Run), n>> : n \in Starved}>>)
  /\ IF tid < Len(MT_Runs)
     THEN StartOf(tid + 1) /\ tid' = tid + 1 /\ l' = 1 /\ bad' = {}
     ELSE UNCHANGED vars /\ tid' = tid + 1 /\ l' = 0 /\ bad' = {}

MTInit ==
  LET s == MT_Runs[1][1].st IN
  /\ pool = AsModelPool(s.pool) /\ rhl = s.rhl /\ q = s.q /\ cmds = s.cmds /\ jobs = s.jobs
  /\ net = s.net /\ acks = s.acks /\ stopped = s.stopped
  /\ rhbase = s.rhbase /\ futseen = s.futseen /\ maxfut = s.maxfut /\ tohold = s.tohold /\ holdpt = s.holdpt
  /\ stopcmd = (IF s.stop = W.fcp THEN NoPoint ELSE s.stop) /\ cb = CmdBudget /\ trig = s.trig /\ fset = {}
  /\ done = OutsOf(s.pool) /\ ran = {} /\ db = [pool |-> {}]
  /\ fb = [dup |-> Faults.dup, crash |-> Faults.crash]
  /\ tid = 1 /\ l = 1 /\ bad = {}

MTNext == (tid <= Len(MT_Runs)) /\ (Good \/ Resync \/ NextRun)
MTSpec == MTInit /\ [][MTNext]_mtvars
=============================================================================
