----------------------------- MODULE SchedTrace -----------------------------
(***************************************************************************)
(* Trace validation of the real cylc Scheduler against the specification.  *)
(*                                                                         *)
(* The harness runs the real scheduler (from /repo) in-process, records one*)
(* event per linearization point, and emits module TraceData defining      *)
(*   Runs == << [w |-> W, tr |-> <<event, ...>>, opt |-> [...]], ... >>    *)
(* TLC follows every recorded run event by event (follow mode: the spec's  *)
(* copy of the pool is advanced from the logged projections, the spec's own*)
(* history variables only from events) and evaluates every property clause *)
(* at every step.  Verdicts are total: a false clause is recorded in `viol`*)
(* with its step index and the run continues; at the end of each run one   *)
(* VERDICT line is printed.  `cov` records which clauses had a true        *)
(* antecedent at least once (non-vacuity).                                 *)
(***************************************************************************)
EXTENDS SchedOps, TraceData

VARIABLES tid,      \* which recorded run
          l,        \* position in the run's trace
          pool,     \* [id -> logged task projection]          (follows the log)
          done,     \* set of <<task, point, output>> completed (history, from events only)
          hist,     \* [id -> [n, flows, retry, efail, sfail, removedComplete]]  job-preparation history
          env,      \* [stop, maxfut, nq, quietIters, restarted, incomplete]  bookkeeping
          viol,     \* set of <<clause, step>>
          cov       \* set of clause names exercised
vars == <<tid, l, pool, done, hist, env, viol, cov>>

W == Runs[tid].w
Tr == Runs[tid].tr
Opt == Runs[tid].opt          \* [manual |-> BOOLEAN (commands used), faults |-> BOOLEAN (message faults used)]

Chk(name, cond) == IF cond THEN {} ELSE {name}
Cov(name, cond) == IF cond THEN {name} ELSE {}

Name(id) == id[1]
Pt(id) == id[2]
PoolPoints == {Pt(i) : i \in DOMAIN pool}
StopPt == IF env.stop = NoPoint THEN W.fcp ELSE env.stop
HistOf(id) == IF id \in DOMAIN hist THEN hist[id]
              ELSE [n |-> 0, flows |-> {}, retry |-> FALSE, efail |-> 0, sfail |-> 0]

StatusRank(s) == CASE s = "waiting" -> 0 [] s = "expired" -> 1 [] s = "preparing" -> 2
                   [] s = "submit-failed" -> 3 [] s = "submitted" -> 4 [] s = "running" -> 5
                   [] s = "failed" -> 6 [] s = "succeeded" -> 7 [] OTHER -> -1

SpecMaxFut == LET S == {TaskMaxFut(W, Name(i)) : i \in DOMAIN pool} IN IF S = {} THEN 0 ELSE Max(S)

-----------------------------------------------------------------------------
(* ---------------------------- clause groups ---------------------------- *)

\* spawn: a proxy enters the pool
CmdContexts == {"cmd:set", "cmd:force_trigger_tasks", "cmd:remove_tasks", "cmd:reload_workflow"}
SpawnViol(ev) ==
  LET t == ev.t  id == t.id IN
     Chk("C07_PoolWithinBounds", InBounds(W, Pt(id)) /\ ValidPoint(W, Name(id), Pt(id)))
  \cup Chk("C26_NoDuplicateProxy", id \notin DOMAIN pool)
  \cup Chk("C06_FutureHoldApplies",
           (id \in env.tohold \/ (env.holdpt # NoPoint /\ Pt(id) > env.holdpt)) => t.held)
  \cup Chk("C46_NothingBeforeStart", Opt.manual \/ Pt(id) >= W.start)
  \cup Chk("C08_ChildCarriesParentFlows", ev.haspar => ev.parflows \subseteq t.flows)
  \* a task that finished complete in a flow is not spawned again (as a waiting task) when that flow - alone or merged
  \* with others - reaches it again through an output (commands that name the task start it afresh: they erase that
  \* record, see the cmd event)
  \cup Chk("C08_NoRespawnInFinishedFlow",
           (ev.haspar /\ t.st = "waiting" /\ ev.cx \cap CmdContexts = {}) =>
              t.flows \cap UNION {c[2] : c \in {x \in env.completedIn : x[1] = id}} = {})
  \cup Chk("C32_OnlyExpireChildren",
           (ev.haspar /\ ev.parout = "expired") =>
              \E c \in Children(W, Name(ev.parid), Pt(ev.parid), "expired") : c.t = Name(id) /\ c.p = Pt(id))
MergeViol(ev) ==
     Chk("C08_MergeIsUnion", ev.after = (IF ev.added = {} THEN ev.before ELSE ev.before \cup ev.added))
  \cup Chk("C08_ChildCarriesParentFlows", ev.before \subseteq ev.after)
FlowViol(ev) ==
     Chk("C08_NewFlowIsFresh", (ev.asked = -1) => (ev.got \notin env.flowsEver /\ ev.got \notin ev.known
                                                   /\ \A x \in env.flowsEver : ev.got > x))
SpawnCov(ev) == {"C07_PoolWithinBounds", "C26_NoDuplicateProxy"} \cup Cov("C08_ChildCarriesParentFlows", ev.haspar)
  \cup Cov("C32_OnlyExpireChildren", ev.haspar /\ ev.parout = "expired")
  \cup Cov("C08_ChildCarriesSeveralFlows", ev.haspar /\ Cardinality(ev.parflows) > 1)
  \cup Cov("C08_NoRespawnInFinishedFlow", ev.haspar /\ \E x \in env.completedIn : x[1] = ev.t.id)
  \cup Cov("C06_FutureHoldApplies", ev.t.id \in env.tohold \/ (env.holdpt # NoPoint /\ Pt(ev.t.id) > env.holdpt))

\* remove: a proxy leaves the pool
RemoveViol(ev) ==
  LET t == ev.t IN
     Chk("C11_RemovedOnlyIfComplete",
         (ev.reason = "completed" /\ t.st \in FinalStatuses /\ ~Opt.manual) => Complete(W, Name(t.id), t.outs))
RemoveCov(ev) == Cov("C11_RemovedOnlyIfComplete", ev.reason = "completed" /\ ev.t.st \in FinalStatuses)

\* state: an effective TaskProxy.state_reset
StateViol(ev) ==
  LET b == ev.b  t == ev.t  id == t.id
      inRetry == "_retry_task" \in ev.cx
      released == b.rh /\ ~t.rh /\ t.st = "waiting" /\ ~t.manual /\ "restart" \notin ev.cx
  IN
     Chk("Conf_StateBefore", id \in DOMAIN pool => (pool[id].st = b.st /\ pool[id].rh = b.rh /\ pool[id].queued = b.queued
                                                      /\ pool[id].held = b.held))
  \cup Chk("C09_OutputsMonotone", id \in DOMAIN pool => pool[id].outs \subseteq b.outs)
  \cup Chk("C09_Lifecycle",
           (b.st # t.st /\ ~ev.forced /\ ~Opt.manual /\ ~(Opt.faults /\ "_submit_task_job_callback" \in ev.cx)
            /\ id \notin env.tainted)
              => IF env.restarted THEN Lifecycle(b.st, t.st, inRetry)
                 ELSE \/ LifecycleStrict(b.st, t.st, inRetry)
                      \* a job whose submission was wrongly reported as failed turns out to be alive
                      \/ (Opt.faults /\ b.st = "submit-failed" /\ t.st \in {"running", "succeeded", "failed"}))
  \* recorded separately (known finding): the result of a jobs-submit command that arrives after the task has
  \* moved on to a later submit number is applied to the current job (the callback looks the task up by its
  \* current submit number)
  \cup Chk("C09_Lifecycle_StaleSubmitCallback",
           (b.st # t.st /\ ~ev.forced /\ ~Opt.manual /\ Opt.faults /\ "_submit_task_job_callback" \in ev.cx)
              => Lifecycle(b.st, t.st, inRetry))
  \cup Chk("C09_OutputsMonotone", b.outs \subseteq t.outs)
  \cup Chk("C04_ReleaseWithinLimit",
           released => Pt(id) <= RunaheadLimit(W, Min(PoolPoints), SpecMaxFut, StopPt))
  \cup Chk("C06_HeldNeverPrepared", (t.st = "preparing" /\ b.st # "preparing") => (~b.held \/ t.manual \/ b.manual))
  \* (not manually triggered: by the flag, and by the spec's own record - named by a trigger command and not
  \*  prepared since)
  \cup Chk("C32_OnlyWaitingExpires",
           (t.st = "expired" /\ b.st # "expired" /\ ~ev.forced) =>
              (b.st = "waiting" /\ ~b.manual /\ ~(id \in env.trig.ids /\ id \notin env.trig.ran /\ id \notin env.trig.live)))
  \cup Chk("C32_NotBeforeExpiryTime",
           (t.st = "expired" /\ b.st # "expired" /\ ~ev.forced) =>
              (Name(id) \in DOMAIN W.expire /\ env.clock >= W.expire[Name(id)][Pt(id)]))
  \cup Chk("C29_NeverActiveByForce", ev.forced => ~(t.st \in {"submitted", "running"} /\ b.st # t.st))
StateCov(ev) ==
  LET b == ev.b  t == ev.t IN
     Cov("C09_Lifecycle", b.st # t.st /\ ~ev.forced /\ ~Opt.manual)
  \cup Cov("C09_Retry", t.st = "waiting" /\ b.st # "waiting")
  \cup Cov("C04_ReleaseWithinLimit", b.rh /\ ~t.rh /\ t.st = "waiting" /\ ~t.manual)
  \cup Cov("C06_HeldNeverPrepared", t.st = "preparing" /\ b.st # "preparing")
  \cup Cov("C32_OnlyWaitingExpires", t.st = "expired" /\ b.st # "expired")
  \cup Cov("C32_TriggeredTaskPastExpiry", t.id \in env.trig.ids /\ t.id \notin env.trig.ran /\ t.id \notin env.trig.live /\ Name(t.id) \in DOMAIN W.expire
                                            /\ env.clock >= W.expire[Name(t.id)][Pt(t.id)])
  \cup Cov("C32_NotBeforeExpiryTime", t.st = "expired" /\ b.st # "expired" /\ ~ev.forced)

\* prepare: a task enters job preparation (a job will be submitted)
OthersActive(id) == {j \in DOMAIN pool : j # id /\ Name(j) = Name(id) /\ pool[j].st \in ActiveStatuses}
PrepareViol(ev) ==
  LET t == ev.t  id == t.id  nm == Name(id)  p == Pt(id)  h == HistOf(id)
      auto == ~ev.manual /\ ~Opt.manual /\ env.downkind # "crash"
      bound == (W.eretry[nm] + 1) * (W.sretry[nm] + 1)
  IN
     Chk("C01_SubmitOnlyIfSatisfied", auto => ReadyByGraph(W, nm, p, done))
  \cup Chk("C01_OnSequenceInBounds", auto => (InBounds(W, p) /\ ValidPoint(W, nm, p)))
  \cup Chk("C02_AtMostOncePerFlow", (auto /\ h.n > 0 /\ h.flows \cap t.flows # {}) => h.retry)
  \* (not judged under injected submit-result faults: a job that starts and is then reported submit-failed)
  \cup Chk("C02_RetryBound", (auto /\ ~Opt.faults) => h.n + 1 <= bound)
  \cup Chk("C06_HeldNeverPrepared", (id \in DOMAIN pool /\ pool[id].held) => ev.manual)
  \cup Chk("C07_NoSubmitBeyondStop", ev.manual \/ Opt.manual \/ p <= StopPt \/ (h.n > 0 /\ h.retry))
  \cup Chk("C43_NoSubmitBeyondStopPoint", ev.manual \/ Opt.manual \/ p <= StopPt \/ (h.n > 0 /\ h.retry))
  \* recorded separately (known finding): the automatic retry of a task that was already active when the
  \* stop point took effect is submitted although it lies beyond the stop point
  \cup Chk("C07_NoSubmitBeyondStop_RetryOfActiveTask", ~(~ev.manual /\ ~Opt.manual /\ p > StopPt /\ h.n > 0 /\ h.retry))
  \cup Chk("C43_NoSubmitBeyondStopPoint_RetryOfActiveTask", ~(~ev.manual /\ ~Opt.manual /\ p > StopPt /\ h.n > 0 /\ h.retry))
  \cup Chk("C31_NoOverlap", (nm \in W.seqtasks /\ auto) => OthersActive(id) = {})
  \cup Chk("C31_AfterPreviousSucceeded", (nm \in W.seqtasks /\ auto) => SeqPrereqSat(W, nm, p, done))
  \cup Chk("C46_NothingBeforeStart", auto => p >= W.start)
  \* (an operator may deliberately re-run an expired task: manual triggers are not the scheduler's doing)
  \cup Chk("C32_ExpiredNeverSubmits", ~ev.manual => ~("expired" \in t.outs))
  \* (an instance that also belongs to a flow in which it has not finished yet runs on behalf of that flow:
  \*  flows merge when one catches up with the other)
  \cup Chk("C08_NoRerunInFlow",
           (~ev.manual /\ id \notin env.trig.ids /\ ~h.retry /\ t.flows # {}) =>
              ~(t.flows \subseteq UNION {c[2] : c \in {x \in env.completedIn : x[1] = id}}))
  \cup Chk("C28_EachMemberOnce", (id \in DOMAIN env.trig.n /\ env.trig.dflt) => (env.trig.n[id] <= 0 \/ h.retry))
  \cup Chk("C28_InGroupOrder",
           \* (judged for triggers into the task's own flows, and for members without a live job at the time)
           (id \in env.trig.ids /\ ~ev.manual /\ env.trig.dflt /\ id \notin env.trig.live) =>
              \A L \in Deps(W, nm, p) :
                 Eval(L.lhs, {a \in Atoms(L.lhs) :
                                \/ InitSat(W, a, p)
                                \/ <<a.t, AtomPoint(W, a, p)>> \notin env.trig.ids
                                \/ <<a.t, AtomPoint(W, a, p)>> \in env.trig.live
                                \/ AtomKey(W, a, p) \in env.trig.done}))
PrepareCov(ev) ==
  LET t == ev.t  id == t.id  nm == Name(id) h == HistOf(id) IN
     {"C01_SubmitOnlyIfSatisfied"}
  \cup Cov("C01_SubmitWithPrereqs", Deps(W, nm, Pt(id)) # {})
  \cup Cov("C02_AtMostOncePerFlow", h.n > 0)
  \cup Cov("C31_NoOverlap", nm \in W.seqtasks)
  \cup Cov("C28_EachMemberOnce", id \in env.trig.ids)
  \cup Cov("C28_InGroupOrder", id \in env.trig.ids /\ ~ev.manual /\
             \E L \in Deps(W, nm, Pt(id)) : \E a \in Atoms(L.lhs) : <<a.t, AtomPoint(W, a, Pt(id))>> \in env.trig.ids)
  \cup Cov("C28_InGroupOrder_StaleOutputOfRerunMember", id \in env.trig.ids /\ ~ev.manual /\ env.trig.dflt /\
             \E L \in Deps(W, nm, Pt(id)) : \E a \in Atoms(L.lhs) : AtomKey(W, a, Pt(id)) \in env.trig.stale)
  \cup Cov("C08_NoRerunInFlow", \E c \in env.completedIn : c[1] = id)
  \cup Cov("C43_NoSubmitBeyondStopPoint", env.stop # NoPoint)
  \cup Cov("C46_NothingBeforeStart", W.start > W.icp)
  \cup Cov("C32_ExpiredNeverSubmits", Name(ev.t.id) \in DOMAIN W.expire)
  \cup Cov("C31_AfterPreviousSucceeded", nm \in W.seqtasks /\ PrevPoint(W, nm, Pt(id)) # NoPoint)

\* msg: TaskEventsManager.process_message returned
Backward(b, m) ==
  \/ m = "started" /\ StatusRank(b.st) > StatusRank("running")
  \/ m = "failed" /\ StatusRank(b.st) > StatusRank("failed")
  \/ m = "submit-failed" /\ StatusRank(b.st) > StatusRank("submit-failed")
  \/ m = "submitted" /\ StatusRank(b.st) >= StatusRank("submitted")
StdOutsT == {"submitted", "started", "succeeded", "failed", "submit-failed", "expired"}
ImpliedT(m) == CASE m \in {"succeeded", "failed"} -> {"submitted", "started"} [] m = "started" -> {"submitted"} [] OTHER -> {}
MsgViol(ev) ==
  LET b == ev.b  t == ev.t  id == t.id  nm == Name(id)  h == HistOf(id)
      stale == ev.flag = "received" /\ ev.sub # b.sub /\ ev.inpool /\ ~ev.forced
      back == ev.flag = "received" /\ ~stale /\ ev.inpool /\ ~ev.forced /\ Backward(b, ev.msg)
      newfail == "failed" \in t.outs /\ "failed" \notin b.outs /\ ~ev.forced
      newsubfail == "submit-failed" \in t.outs /\ "submit-failed" \notin b.outs /\ ~ev.forced
  IN
     Chk("C10_StaleIgnored", stale => (t.st = b.st /\ t.outs = b.outs /\ ev.ret = "done"))
  \cup Chk("C10_BackwardPolls", back => (ev.ret = "poll" /\ t.st = b.st))
  \* a message that was already received and processed for this very job changes nothing when it arrives again
  \cup Chk("C10_DuplicateHarmless",
           (ev.flag = "received" /\ ev.inpool /\ ~ev.forced /\ <<id, ev.sub, ev.msg>> \in env.seenMsgs
            /\ ~(b.st = "waiting" /\ b.etry = 0 /\ b.stry = 0) /\ id \notin env.tainted)
              => (t.st = b.st /\ t.outs = b.outs))
  \* recorded separately (known finding): a task re-spawned by a manual trigger keeps the submit number of its
  \* last job until it is prepared again; a late copy of that job's message is then taken for the new run
  \cup Chk("C10_DuplicateHarmless_RetriggeredBeforeNewJob",
           (ev.flag = "received" /\ ev.inpool /\ ~ev.forced /\ <<id, ev.sub, ev.msg>> \in env.seenMsgs
            /\ b.st = "waiting" /\ b.etry = 0 /\ b.stry = 0)
              => (t.st = b.st /\ t.outs = b.outs))
  \cup Chk("C09_OutputsMonotone", b.outs \subseteq t.outs)
  \cup Chk("C09_ImpliedOutputs",   \* judged when the outermost message has been fully processed
           (~ev.forced /\ "msg" \notin ev.cx /\ ("succeeded" \in t.outs \/ "failed" \in t.outs))
              => {"submitted", "started"} \subseteq t.outs)
  \cup Chk("C29_ImpliedAndExact",
           (ev.forced /\ ev.msg \in (StdOutsT \cup W.customs[nm])) =>
              t.outs = b.outs \cup {ev.msg} \cup ImpliedT(ev.msg))
  \* conformance: the logged effect of process_message equals what SchedOps!MsgEffect (the step function of
  \* Sched.tla's Process action) predicts from the logged state before, message, flag and submit number
  \cup Chk("Conf_MsgEffect",
           (ev.inpool /\ ~ev.forced /\ "msg" \notin ev.cx /\ ev.msg \in (StdOutsT \cup W.customs[nm]) /\ ~Opt.manual
            /\ ev.msg # "expired") =>
              LET eff == MsgEffect(W, nm, [st |-> b.st, outs |-> b.outs, sub |-> b.sub, efail |-> b.etry, sfail |-> b.stry],
                                   ev.msg, ev.flag, ev.sub)
              IN (eff.r.st = t.st /\ eff.r.outs = t.outs /\ eff.ret = ev.ret)
                 \/ PrintT(<<"DIAG", tid, "msgeffect", l, ev.msg, ev.flag, b.st, b.outs, "predicted", eff.r.st, eff.r.outs, eff.ret,
                             "logged", t.st, t.outs, ev.ret>>) = FALSE)
  \* the expire children exist once the expired output is complete (spawn events precede this one), unless they
  \* lie outside the graph bounds / beyond the stop point or have run already
  \cup Chk("C32_ExpireChildrenSpawned",
           (ev.msg = "expired" /\ "expired" \in t.outs /\ "expired" \notin b.outs /\ ev.inpool /\ ~ev.forced /\ t.flows # {}) =>
              \A c \in Children(W, nm, Pt(id), "expired") :
                 (InBounds(W, c.p) /\ c.p <= StopPt /\ c.p >= W.start) =>
                    \/ <<c.t, c.p>> \in DOMAIN pool
                    \/ HistOf(<<c.t, c.p>>).n > 0
                    \/ \E x \in env.completedIn : x[1] = <<c.t, c.p>>)
  \cup Chk("C02_FailOutputOnlyWhenNoRetry", (newfail /\ ~Opt.manual) => h.efail >= W.eretry[nm])
  \cup Chk("C02_SubmitFailOutputOnlyWhenNoRetry", (newsubfail /\ ~Opt.manual) => h.sfail >= W.sretry[nm])
MsgCov(ev) ==
  LET b == ev.b  t == ev.t IN
     Cov("C10_StaleIgnored", ev.flag = "received" /\ ev.sub # b.sub /\ ev.inpool /\ ~ev.forced)
  \cup Cov("C10_BackwardPolls", ev.flag = "received" /\ ev.sub = b.sub /\ ev.inpool /\ ~ev.forced /\ Backward(b, ev.msg))
  \cup Cov("C09_ImpliedOutputs", "succeeded" \in t.outs \/ "failed" \in t.outs)
  \cup Cov("C02_FailOutputOnlyWhenNoRetry", "failed" \in t.outs /\ "failed" \notin b.outs)
  \cup Cov("C02_SubmitFailOutputOnlyWhenNoRetry", "submit-failed" \in t.outs /\ "submit-failed" \notin b.outs)
  \cup Cov("C10_OutOfOrder", ev.msg = "started" /\ b.st = "preparing")
  \cup Cov("C10_DuplicateHarmless", ev.flag = "received" /\ ev.inpool /\ <<t.id, ev.sub, ev.msg>> \in env.seenMsgs)
  \cup Cov("C10_DuplicateWhileRetryWaiting", ev.flag = "received" /\ ev.inpool /\ b.st = "waiting"
                                                /\ <<t.id, ev.sub, ev.msg>> \in env.seenMsgs)
  \cup Cov("C29_ImpliedAndExact", ev.forced)
  \cup Cov("C32_ExpireChildrenSpawned", ev.msg = "expired" /\ "expired" \in t.outs /\ "expired" \notin b.outs
                                          /\ Children(W, Name(t.id), Pt(t.id), "expired") # {})

\* q_release: IndepQueueManager released tasks
QMembers(ev, q) == ev.members[q]
QActive(ev, q) == LET ns == {n \in DOMAIN ev.active : n \in QMembers(ev, q)}
                      RECURSIVE Sum(_)
                      Sum(S) == IF S = {} THEN 0 ELSE LET x == CHOOSE y \in S : TRUE IN ev.active[x] + Sum(S \ {x})
                  IN Sum(ns)
RelOf(ev, q) == {i \in Range(ev.released) : Name(i) \in QMembers(ev, q)}
NonHeld(ev, q) == SelectSeq(ev.queues_before[q], LAMBDA i : i \notin ev.held)
QReleaseViol(ev) ==
     Chk("C05_OneQueuePerTask",
         \A tk \in W.tasks : /\ Cardinality({q \in DOMAIN ev.members : tk \in ev.members[q]}) = 1
                             /\ tk \in ev.members[QueueOf(W, tk)])
  \cup Chk("C05_LimitRespected",
           \A q \in DOMAIN ev.limits :
              (ev.limits[q] > 0 /\ RelOf(ev, q) # {}) => QActive(ev, q) + Cardinality(RelOf(ev, q)) <= ev.limits[q])
  \cup Chk("C05_LimitFromConfig", \A q \in DOMAIN ev.limits : ev.limits[q] = QueueLimit(W, q))
  \cup Chk("C05_FifoSkipHeld",
           \A q \in DOMAIN ev.limits :
              LET k == Cardinality(RelOf(ev, q)) nh == NonHeld(ev, q)
              IN k <= Len(nh) /\ RelOf(ev, q) = {nh[j] : j \in 1..k})
  \cup Chk("C05_HeldNotReleased", \A i \in Range(ev.released) : i \notin ev.held)
  \* "in the order they were queued, skipping held ones": what a release pass leaves in a queue is what was there
  \* minus what it released, in the same order - a held task that was passed over keeps its place, so that it is
  \* not overtaken later by tasks queued after it
  \cup Chk("C05_OrderKeptAcrossRelease",
           \A q \in DOMAIN ev.limits :
              ev.queues_after[q] = SelectSeq(ev.queues_before[q], LAMBDA i : i \notin RelOf(ev, q)))
QReleaseCov(ev) ==
     Cov("C05_LimitRespected", \E q \in DOMAIN ev.limits : ev.limits[q] > 0 /\ RelOf(ev, q) # {})
  \cup Cov("C05_LimitBinding", \E q \in DOMAIN ev.limits : ev.limits[q] > 0
                                   /\ Len(NonHeld(ev, q)) > Cardinality(RelOf(ev, q)))
  \cup Cov("C05_FifoSkipHeld", \E q \in DOMAIN ev.limits : Len(ev.queues_before[q]) >= 2 /\ RelOf(ev, q) # {})
  \cup Cov("C05_OrderKeptAcrossRelease", \E q \in DOMAIN ev.limits : RelOf(ev, q) # {} /\ \E j \in DOMAIN ev.queues_before[q] :
                                             ev.queues_before[q][j] \in ev.held /\ Len(ev.queues_after[q]) >= 2)
  \cup Cov("C05_HeldSkipped", \E q \in DOMAIN ev.limits : \E j \in DOMAIN ev.queues_before[q] : ev.queues_before[q][j] \in ev.held)

\* rh_compute: TaskPool.compute_runahead returned
RhViol(ev) ==
     Chk("C04_LimitIsFormula",
         (ev.changed /\ ev.points # {}) =>
             ev.limit = RunaheadLimit(W, Min(ev.points), ev.maxfut, IF ev.stop = NoPoint THEN W.fcp ELSE ev.stop))
RhCov(ev) == Cov("C04_LimitIsFormula", ev.changed /\ ev.points # {})

\* loop_end: end of a main-loop iteration, with the full pool projection and DB read-back
SyncIds(ev) == {ev.pool[j].id : j \in DOMAIN ev.pool}
SyncRec(ev, i) == LET j == CHOOSE k \in DOMAIN ev.pool : ev.pool[k].id = i IN ev.pool[j]
DbRows(ev) == Range(ev.dbpool)
Scalars(ev) == [stop_point |-> ev.stop_point, hold_point |-> ev.hold_point, tasks_to_hold |-> ev.tasks_to_hold,
                flow_counter |-> ev.flow_counter, stop_task |-> ev.stop_task]
\* waiting, not manually triggered, expiry time reached
DueNow(ev) == {i \in SyncIds(ev) : LET s == SyncRec(ev, i) IN
                 s.st = "waiting" /\ ~s.manual /\ Name(i) \in DOMAIN W.expire /\ env.clock >= W.expire[Name(i)][Pt(i)]}
LoopEndViol(ev) ==
     Chk("C26_CacheIsTruth", Range(ev.cached) = SyncIds(ev) /\ Len(ev.cached) = Cardinality(SyncIds(ev))
                               /\ ev.cache_identical)   \* the very same proxies, not stale look-alikes
  \cup Chk("C26_NoDuplicateProxy", ev.dup = {} /\ Len(ev.pool) = Cardinality(SyncIds(ev)))
  \cup Chk("C26_NoEmptyBucket", ev.empty_buckets = {} /\ ev.buckets = {Pt(i) : i \in SyncIds(ev)})
  \cup Chk("C26_DbPoolMatches",
           ev.hasdb => DbRows(ev) = {<<Name(i), Pt(i), SyncRec(ev, i).flows, SyncRec(ev, i).st, SyncRec(ev, i).held>> : i \in SyncIds(ev)})
  \cup Chk("Conf_PoolSync", SyncIds(ev) = DOMAIN pool /\ \A i \in DOMAIN pool :
              LET s == SyncRec(ev, i) IN s.st = pool[i].st /\ s.outs = pool[i].outs /\ s.rh = pool[i].rh
                                          /\ s.queued = pool[i].queued /\ s.held = pool[i].held /\ s.flows = pool[i].flows)
  \* (clock_expire_tasks runs in every iteration: a task that was due at the end of the previous one is gone)
  \cup Chk("C32_DueTasksExpire", env.dueprev \cap DueNow(ev) = {})
  \cup Chk("C04_MaxFutFromPool",
           ev.maxfut <= (LET S == {TaskMaxFut(W, Name(i)) : i \in SyncIds(ev)} IN IF S = {} THEN 0 ELSE Max(S)))
  \cup Chk("C45_AllInstancesSatisfied",
           \A i \in SyncIds(ev) : \A L \in Deps(W, Name(i), Pt(i)) : \A a \in Atoms(L.lhs) :
              \* (an instance all of whose prerequisites are satisfied anyway - an OR alternative, a pre-initial
              \*  dependency - is not touched: TaskPool.spawn_task only consults the completed absolute outputs for
              \*  instances that still wait for something)
              (a.abs /\ AtomKey(W, a, Pt(i)) \in done) => (AtomKey(W, a, Pt(i)) \in SyncRec(ev, i).sat \/ SyncRec(ev, i).preok))
  \* a stop point requested by command stays in effect (until the scheduler stops)
  \cup Chk("C43_StopPointKept", env.cmdStop # NoPoint => ev.stop_point = env.cmdStop)
  \cup Chk("C11_RetainedOnlyIfIncomplete",
           ~Opt.manual => \A i \in SyncIds(ev) : SyncRec(ev, i).st \in FinalStatuses => ~Complete(W, Name(i), SyncRec(ev, i).outs))
  \cup Chk("C09_ImpliedOutputs",
           ~Opt.manual => \A i \in SyncIds(ev) : LET o == SyncRec(ev, i).outs IN
              ("succeeded" \in o \/ "failed" \in o) => {"submitted", "started"} \subseteq o)
LoopEndCov(ev) ==
     {"C26_CacheIsTruth", "C26_NoEmptyBucket"}
  \cup Cov("C26_DbPoolMatches", ev.hasdb /\ ev.pool # <<>>)
  \cup Cov("C32_DueTasksExpire", env.dueprev # {})
  \cup Cov("C43_StopPointKept", env.cmdStop # NoPoint)
  \cup Cov("C43_StopPointKeptAcrossReload", env.cmdStop # NoPoint /\ env.cmdname = "reload_workflow")
  \cup Cov("C11_RetainedOnlyIfIncomplete", \E i \in SyncIds(ev) : SyncRec(ev, i).st \in FinalStatuses)
  \cup Cov("C45_AllInstancesSatisfied",
           \E i \in SyncIds(ev) : \E L \in Deps(W, Name(i), Pt(i)) : \E a \in Atoms(L.lhs) :
              a.abs /\ AtomKey(W, a, Pt(i)) \in done)
  \cup Cov("C45_AfterRestart",
           env.restarted /\ \E i \in SyncIds(ev) : \E L \in Deps(W, Name(i), Pt(i)) : \E a \in Atoms(L.lhs) :
              a.abs /\ AtomKey(W, a, Pt(i)) \in done)

\* ds_update: the published data store after Scheduler.update_data_structure
StoreOK(ev, m, i) ==
  LET s == SyncRec(ev, i) IN
     /\ i \in DOMAIN m /\ m[i].present
     /\ m[i].st = s.st /\ m[i].held = s.held /\ m[i].queued = s.queued /\ m[i].rh = s.rh
     /\ m[i].flows = s.flows /\ m[i].outs = s.outs /\ m[i].preok = s.preok
DsViol(ev) ==
     Chk("C25_StoreMatchesPool", \A i \in SyncIds(ev) : StoreOK(ev, ev.store, i)
                                    \/ PrintT(<<"DIAG", tid, "store", i, SyncRec(ev, i),
                                                IF i \in DOMAIN ev.store THEN ev.store[i] ELSE "absent">>) = FALSE)
  \cup Chk("C25_ClientConverges", ev.diffclass \in {"none", "dup-refs"} /\ ev.checksum_ok)
  \* recorded separately (known finding): the client ends up with repeated entries in a node's list of edge ids
  \cup Chk("C25_ClientConverges_DuplicateRefs", ev.diffclass # "dup-refs")
  \cup Chk("C25_ClientMatchesPool", DOMAIN ev.client # {} => \A i \in SyncIds(ev) : StoreOK(ev, ev.client, i))
DsCov(ev) == Cov("C25_StoreMatchesPool", SyncIds(ev) # {}) \cup Cov("C25_ClientConverges", DOMAIN ev.client # {})
             \cup Cov("C25_StoreMatchesPool_Held", \E i \in SyncIds(ev) : SyncRec(ev, i).held)
             \cup Cov("C25_StoreMatchesPool_MultiFlow", \E i \in SyncIds(ev) : Cardinality(SyncRec(ev, i).flows) > 1)

\* xtriggers (C33)
XtCallViol(ev) ==
     Chk("C33_OneInFlight", ev.sig \notin env.xtActive)
  \cup Chk("C33_IntervalRespected",
           (ev.sig \in DOMAIN env.xtLast /\ ev.sig \notin env.xtLastOK) => ev.clock - env.xtLast[ev.sig] >= ev.intvl)
  \* recorded separately (known finding): housekeeping of a succeeded signature also forgets its next-call time,
  \* so a task that needs the same signature later has it called again at once
  \cup Chk("C33_IntervalRespected_AfterSuccess",
           (ev.sig \in DOMAIN env.xtLast /\ ev.sig \in env.xtLastOK) => ev.clock - env.xtLast[ev.sig] >= ev.intvl)
  \cup Chk("C33_IntervalFromConfig", ev.label \in DOMAIN W.xtintvl => ev.intvl = W.xtintvl[ev.label])
  \* no new call while a task that was waiting for this signature when it succeeded is still waiting for it
  \cup Chk("C33_NoCallAfterSuccessWhileNeeded",
           ev.sig \in DOMAIN env.xtNeeders =>
              \A i \in env.xtNeeders[ev.sig] \cap DOMAIN pool : ev.sig \notin pool[i].xneed)
XtCallCov(ev) == {"C33_OneInFlight"} \cup Cov("C33_IntervalRespected", ev.sig \in DOMAIN env.xtLast)
                 \cup Cov("C33_CallAgainAfterHousekeeping", ev.sig \in env.xtEverOK)
\* at the end of an iteration: every released waiting task that depends on a signature which had already
\* succeeded before the previous iteration ended is satisfied
XtLoopViol(ev) ==
  Chk("C33_AllDependentsSatisfied",
      \A i \in SyncIds(ev) : LET s == SyncRec(ev, i) IN
         (s.st = "waiting" /\ ~s.rh /\ ~s.queued /\ i \in DOMAIN pool /\ pool[i].st = "waiting" /\ ~pool[i].rh)
            => \A g \in s.xneed \cap env.xtOKold : ~(g \in DOMAIN env.xtNeeders /\ i \in env.xtNeeders[g]))
XtLoopCov(ev) == Cov("C33_AllDependentsSatisfied", env.xtOKold # {})

\* commands
AllAtomKeysT(t, p) == {AtomKey(W, a, p) : a \in UNION {Atoms(L.lhs) : L \in Deps(W, t, p)}}
\* TaskProxy.match_flows for the flows given to the command ({} = all flows)
CmdMatch(fs) == IF env.cmdflow = {} THEN fs ELSE {x \in fs : ToString(x) \in env.cmdflow}
CmdDoneViol(ev) ==
  LET pre == env.cmdpre  ids == env.cmdids IN
  CASE env.cmdname = "remove_tasks" ->
          Chk("C30_FlowsRemoved",
              \A i \in ids \cap DOMAIN pre :
                 \/ pre[i].flows = {}      \* a no-flow instance is in none of the flows being removed
                 \/ i \notin SyncIds(ev)
                 \/ (env.cmdflow # {} /\ SyncRec(ev, i).flows = pre[i].flows \ {x \in pre[i].flows : ToString(x) \in env.cmdflow}))
       \cup Chk("C30_OthersUnchanged",
              \A i \in DOMAIN pre \ ids :
                 \* (the command ends with the usual runahead release: a released task spawns its next parentless
                 \*  instance, and if that is already in the pool the flows merge - other tasks never lose a flow)
                 IF i \in SyncIds(ev) THEN SyncRec(ev, i).outs = pre[i].outs /\ pre[i].flows \subseteq SyncRec(ev, i).flows
                                             /\ SyncRec(ev, i).st = pre[i].st
                 \* gone from the pool: only a waiting child all of whose satisfied prerequisites were
                 \* naturally satisfied by the removed instances
                 ELSE /\ pre[i].st = "waiting"
                      /\ \E k \in pre[i].sat : <<k[1], k[2]>> \in ids
                      /\ \A k \in pre[i].sat : <<k[1], k[2]>> \in ids /\ k \notin pre[i].fsat)
       \* a prerequisite goes from satisfied to unsatisfied only if it is on a removed instance and was
       \* not force-satisfied; nothing becomes satisfied
       \cup Chk("C30_OnlyNaturalUnset",
              \A c \in DOMAIN pre \cap SyncIds(ev) : LET r == SyncRec(ev, c) IN
                 /\ (pre[c].sat \ r.sat) \subseteq ({k \in pre[c].sat : <<k[1], k[2]>> \in ids} \ pre[c].fsat)
                 /\ r.sat \subseteq pre[c].sat)
       \cup Chk("C30_NaturalUnset",
              \A i \in ids : (i \notin DOMAIN pre \/ CmdMatch(pre[i].flows) # {}) =>
                 \A c \in DOMAIN pre \cap SyncIds(ev) : CmdMatch(pre[c].flows) # {} =>
                    \A k \in pre[c].sat \ pre[c].fsat : <<k[1], k[2]>> = i => k \notin SyncRec(ev, c).sat)
       \cup Chk("C30_OrphansRemoved",
              \A c \in (DOMAIN pre \cap SyncIds(ev)) \ ids : LET r == SyncRec(ev, c) IN
                 ~(pre[c].sat # r.sat /\ r.sat = {} /\ Rank(r.st) < Rank("preparing")
                   /\ CmdMatch(pre[c].flows) = pre[c].flows))
    [] env.cmdname = "set" ->
          Chk("C29_ChildrenAsNatural",
              \A k \in env.forcedSince : \A c \in Children(W, k[1], k[2], k[3]) :
                 <<c.t, c.p>> \in SyncIds(ev) => k \in SyncRec(ev, <<c.t, c.p>>).sat)
       \cup Chk("C29_NeverActive",
              \A i \in ids \cap SyncIds(ev) : (i \in DOMAIN pre /\ pre[i].st \notin {"submitted", "running"})
                                                   => SyncRec(ev, i).st \notin {"submitted", "running"})
       \cup Chk("C29_PrereqOnlyReal",
              \A i \in SyncIds(ev) : SyncRec(ev, i).sat \subseteq
                   (AllAtomKeysT(Name(i), Pt(i)) \cup {<<Name(i), PrevPoint(W, Name(i), Pt(i)), "succeeded">>}))
    [] env.cmdname = "reload_workflow" ->
          Chk("C27_ReloadProjection",
              \A i \in DOMAIN pre :
                 \/ /\ i \in SyncIds(ev)
                    \* (a reload first lets preparing tasks finish submitting and processes queued job messages
                    \*  while it waits: tasks with a job out may move on;
                    \*  it also recomputes the runahead limit and releases tasks now within it)
                    /\ LET r == SyncRec(ev, i) IN
                          /\ (r.st = pre[i].st \/ pre[i].st \in ActiveStatuses)
                          /\ r.flows = pre[i].flows /\ r.sub = pre[i].sub /\ r.held = pre[i].held
                          /\ (r.outs = pre[i].outs \/ (pre[i].st \in ActiveStatuses /\ pre[i].outs \subseteq r.outs))
                          \* (prerequisites satisfied before stay satisfied; one may become satisfied only by an
                          \*  output that was completed while the reload waited, never from older records)
                          /\ pre[i].sat \subseteq r.sat /\ (r.sat \ pre[i].sat) \subseteq (done \ env.cmdDone0)
                          /\ (~pre[i].rh => ~r.rh)
                 \* (a task with a job out whose final message was processed during the wait finished and left)
                 \/ (i \notin SyncIds(ev) /\ pre[i].st \in ActiveStatuses /\ \E c \in env.completedIn : c[1] = i)
                 \/ PrintT(<<"DIAG", tid, "reload", i, pre[i],
                             IF i \in SyncIds(ev) THEN SyncRec(ev, i) ELSE "gone">>) = FALSE)
    [] OTHER -> {}
\* recorded separately (known finding): the queued flag (and the task's place in its queue) is not carried over
ReloadQueuedViol(ev) ==
  IF env.cmdname # "reload_workflow" THEN {}
  ELSE Chk("C27_ReloadProjection_QueuedFlagLost",
           \A i \in DOMAIN env.cmdpre : (i \in SyncIds(ev) /\ env.cmdpre[i].queued) => SyncRec(ev, i).queued)
CmdDoneCov(ev) == Cov("C30_FlowsRemoved", env.cmdname = "remove_tasks" /\ env.cmdids \cap DOMAIN env.cmdpre # {})
  \cup Cov("C30_OthersUnchanged", env.cmdname = "remove_tasks" /\ DOMAIN env.cmdpre \ env.cmdids # {})
  \cup Cov("C30_NaturalUnset", env.cmdname = "remove_tasks" /\
            \E c \in DOMAIN env.cmdpre : \E k \in env.cmdpre[c].sat : <<k[1], k[2]>> \in env.cmdids)
  \cup Cov("C30_OrphansRemoved", env.cmdname = "remove_tasks" /\
            \E c \in DOMAIN env.cmdpre \ SyncIds(ev) : c \notin env.cmdids)
  \cup Cov("C29_ChildrenAsNatural", env.cmdname = "set" /\ env.forcedSince # {})
  \cup Cov("C29_NeverActive", env.cmdname = "set")
  \cup Cov("C27_ReloadProjection", env.cmdname = "reload_workflow" /\ DOMAIN env.cmdpre # {})

\* the first database flush after a remove command (remove_task_from_flows queues its UPDATEs): the history
\* rows of the removed instances no longer mention the removed flows.  Only judged when nothing else that
\* writes rows for those instances (another command, a respawn) happened in between.
RmMatch(fs) == IF env.rm.flow = {} THEN fs ELSE {x \in fs : ToString(x) \in env.rm.flow}
RemoveFlushedViol(ev) ==
  IF ~(env.rm.active /\ env.rm.ok) THEN {}
  ELSE Chk("C30_HistoryErased", \A i \in env.rm.ids \cap DOMAIN ev.dbhist : \A fs \in ev.dbhist[i] : RmMatch(fs) = {})
RemoveFlushedCov(ev) ==
  Cov("C30_HistoryErased", env.rm.active /\ env.rm.ok /\ \E i \in env.rm.ids \cap DOMAIN ev.dbhist : ev.dbhist[i] # {})
  \cup Cov("C30_HistoryErasedSeveralRows", env.rm.active /\ env.rm.ok /\
            \E i \in env.rm.ids \cap DOMAIN ev.dbhist : Cardinality(ev.dbhist[i]) > 1)

\* boot after a stop: what was restored from the database
RestoredTask(b) == [st |-> IF b.st = "preparing" THEN "waiting" ELSE b.st,
                    sub |-> IF b.st = "preparing" THEN b.sub - 1 ELSE b.sub,
                    flows |-> b.flows, held |-> b.held, sat |-> b.sat]
\* C43: the stop point of a workflow that shut itself down at it is forgotten; otherwise it survives a restart
\* (the latter is C43_StopPointKept, judged at every later iteration)
BootStopViol(ev) ==
  Chk("C43_StopPointForgotten",
      \* (a plain restart: back to the final cycle point)
      (ev.restart /\ env.downkind = "auto" /\ env.cmdStop # NoPoint) => ev.stop_point = W.fcp)
\* a clean stop request waits for the active jobs
SchedStopViol(ev) ==
  \* (jobs that were out when the stop was requested)
  Chk("C43_CleanStopWaits",
      ev.reason = "REQUEST(CLEAN)" =>
         \A i \in SyncIds(ev) \cap env.activeAtCleanReq : SyncRec(ev, i).st \notin {"submitted", "running"})
  \* recorded separately (known finding): a task that was still preparing when the clean stop was requested does
  \* not hold the stop back (TaskPool.can_stop only looks at submitted/running tasks), but its jobs-submit
  \* command is executed while the process pool drains: the scheduler exits with that job out
  \cup Chk("C43_CleanStopWaits_JobSubmittedDuringShutdown",
      ev.reason = "REQUEST(CLEAN)" =>
         \A i \in SyncIds(ev) \ env.activeAtCleanReq : SyncRec(ev, i).st \notin {"submitted", "running"})
\* C20: a restart - after a clean stop or after a crash at any point - takes each task's status from the
\* task_pool table it finds (the table that is rewritten together with the prerequisites, once per main-loop
\* iteration), not from a table that is committed at other moments: a task the table lists is restored in the
\* status of one of its rows (preparing is restored as waiting, with the same submit number)
BootDbViol(ev) ==
  IF ~(ev.restart /\ ev.hasdb) THEN {}
  ELSE Chk("C20_RestoredStatusFromPoolTable",
           \A i \in SyncIds(ev) :
              LET rows == {d \in DbRows(ev) : d[1] = Name(i) /\ d[2] = Pt(i)} IN
              rows # {} => \E d \in rows : \/ SyncRec(ev, i).st = d[4]
                                           \/ (d[4] = "preparing" /\ SyncRec(ev, i).st = "waiting"))
BootViol(ev) ==
  IF ~(ev.restart /\ env.downkind = "stop") THEN {}
  ELSE Chk("C19_RestoreProjection",
           \A i \in DOMAIN env.prestop :
              /\ i \in SyncIds(ev)
              /\ LET r == SyncRec(ev, i) IN
                    [st |-> r.st, sub |-> r.sub, flows |-> r.flows, held |-> r.held, sat |-> r.sat]
                       = RestoredTask(env.prestop[i]))
  \cup Chk("C19_RestoreScalars", Scalars(ev) = env.prescal)
  \cup Chk("C06_PersistAcrossRestart",
           /\ ev.tasks_to_hold = env.prescal.tasks_to_hold /\ ev.hold_point = env.prescal.hold_point
           /\ \A i \in DOMAIN env.prestop : i \in SyncIds(ev) => SyncRec(ev, i).held = env.prestop[i].held)
  \cup Chk("C08_FlowCounterSurvives", ev.flow_counter >= env.flowctr)
  \* a stop task that has not finished yet is still in force after a restart (also a second one, also after a reload)
  \cup Chk("C43_StopTaskKeptAcrossRestart", env.prescal.stop_task # "none" => ev.stop_task = env.prescal.stop_task)
BootCov(ev) == Cov("C19_RestoreProjection", ev.restart /\ env.downkind = "stop" /\ DOMAIN env.prestop # {})
  \cup Cov("C19_RestorePreparing", ev.restart /\ env.downkind = "stop" /\ \E i \in DOMAIN env.prestop : env.prestop[i].st = "preparing")
  \cup Cov("C06_PersistAcrossRestart", ev.restart /\ env.downkind = "stop"
            /\ (env.prescal.tasks_to_hold # {} \/ env.prescal.hold_point # NoPoint))
  \cup Cov("C43_StopTaskKeptAcrossRestart", ev.restart /\ env.downkind = "stop" /\ env.prescal.stop_task # "none")
\* first iteration after the restart poll has been answered
RestoredViol(ev) ==
  IF env.downkind # "stop" THEN {}
  ELSE Chk("C19_OutputsRestored",
           \A i \in DOMAIN env.prestop : (i \in SyncIds(ev) /\ env.prestop[i].st # "waiting")
                                             => env.prestop[i].outs \subseteq SyncRec(ev, i).outs)
  \* recorded separately (known finding): completed outputs of a *waiting* task are not reloaded
  \cup Chk("C19_OutputsRestored_WaitingTask",
           \A i \in DOMAIN env.prestop : (i \in SyncIds(ev) /\ env.prestop[i].st = "waiting")
                                             => env.prestop[i].outs \subseteq SyncRec(ev, i).outs)
RestoredCov(ev) == Cov("C19_OutputsRestored", env.downkind = "stop" /\ \E i \in DOMAIN env.prestop : env.prestop[i].outs # {})
  \cup Cov("C19_OutputsRestoredWaiting", env.downkind = "stop" /\ \E i \in DOMAIN env.prestop :
              env.prestop[i].outs # {} /\ env.prestop[i].st = "waiting")
\* a job comes into existence
\* did the database ever record that this submit number had been submitted?
\* (for a job launched before the last crash: what had been committed when the process died)
DbKnewSubmitted(job) ==
  \/ job \in env.jobsSinceBoot
  \/ \E r \in env.committedAtCrash : r[1] = job[1] /\ r[2] = job[2] /\ r[3] >= job[3]
                                      /\ r[4] \in {"submitted", "running", "succeeded", "failed", "submit-failed"}
LaunchViol(ev) ==
  LET dup == ev.job \in env.jobs
      rerun == \E j \in env.succeeded : j[1] = ev.job[1] /\ j[2] = ev.job[2]
  IN Chk("C20_NoDuplicateSubmitNum", dup => ~DbKnewSubmitted(ev.job))
     \cup Chk("C20_NoRerunInFlow", rerun => ~DbKnewSubmitted(ev.job))
     \* recorded separately (known finding): the launch was never committed - the process died between the
     \* execution of the jobs-submit command and the commit of its result
     \cup Chk("C20_NoDuplicateSubmitNum_UncommittedLaunch", ~(dup /\ ~DbKnewSubmitted(ev.job)))
                  \cup Chk("C02_NoDuplicateSubmitNum", env.restarted \/ ev.job \notin env.jobs)

\* set_stop(AUTO): the scheduler decides to shut itself down
CanRunAtSync(ev, i) ==
  LET s == SyncRec(ev, i) IN
     \/ s.st \in ActiveStatuses
     \/ (s.st = "waiting" /\ ~s.rh /\ s.preok)
PartiallySat(ev, i) == LET s == SyncRec(ev, i) IN s.st = "waiting" /\ s.sat # {} /\ ~s.preok /\ Pt(i) <= StopPt
SetStopQuiescent(ev) ==
     \A i \in SyncIds(ev) : LET s == SyncRec(ev, i) IN
        /\ s.st \notin ActiveStatuses
        /\ ~(s.st = "waiting" /\ ~s.rh /\ s.preok /\ ~s.held /\ s.xok /\ Pt(i) <= StopPt)
        /\ ~(s.st \in FinalStatuses /\ ~Complete(W, Name(i), s.outs))
        /\ ~PartiallySat(ev, i)
SetStopViol(ev) ==
  (ev.mode = "AUTO" /\ ~env.hadStopTask) =>
     \A i \in SyncIds(ev) : LET s == SyncRec(ev, i) IN
        /\ s.st \notin ActiveStatuses
        /\ ~(s.st = "waiting" /\ ~s.rh /\ s.preok /\ ~s.held /\ s.xok /\ Pt(i) <= StopPt)
        /\ ~(s.st \in FinalStatuses /\ ~Complete(W, Name(i), s.outs))
        /\ ~PartiallySat(ev, i)

\* stall: the scheduler reports a stall
StallViol(ev) ==
  \A i \in SyncIds(ev) : LET s == SyncRec(ev, i) IN
     /\ s.st \notin ActiveStatuses
     /\ ~(s.st = "waiting" /\ ~s.rh /\ s.preok /\ ~s.held /\ s.xok /\ Pt(i) <= StopPt)

\* quiescent: the environment has nothing more to deliver and three idle main-loop iterations have passed.
\* Unless paused / stopping, no task that is ready may be left unsubmitted (C03 starvation clause).
QActiveIn(ev, q) == Cardinality({j \in SyncIds(ev) : QueueOf(W, Name(j)) = q /\ SyncRec(ev, j).st \in ActiveStatuses})
Starved(ev, i) ==
  LET s == SyncRec(ev, i)  q == QueueOf(W, Name(i)) IN
     /\ s.st = "waiting" /\ ~s.rh /\ s.preok /\ s.xok /\ ~s.held /\ Pt(i) <= StopPt
     /\ (QueueLimit(W, q) = 0 \/ QActiveIn(ev, q) < QueueLimit(W, q))

\* end of run: closure (only when nothing ended incomplete and the scheduler stopped by itself)
Launched == {i \in DOMAIN hist : hist[i].n > 0}
SpawnedByOutput(t, p) == \E d \in done : \E c \in Children(W, d[1], d[2], d[3]) : c.t = t /\ c.p = p
\* the graph's closure: parentless instances plus children of completed outputs
Spawnable(t, p) ==
  \/ (GraphParentless(W, t, p, W.start) /\ p >= W.start)
  \/ SpawnedByOutput(t, p)
\* the instances cylc's spawning can reach: the first parentless point found at start-up (only the first
\* point of each recurrence is examined), children of completed outputs, and from any instance that got a
\* proxy the next parentless point (TaskDef.next_point_parentless / TaskPool.spawn_next_parentless)
RECURSIVE ReachIter(_, _, _)
ReachIter(t, S, k) ==
  IF k = 0 THEN S
  ELSE LET S2 == S \cup ({NextParentless(W, t, q) : q \in S} \ {NoPoint}) IN
       IF S2 = S THEN S ELSE ReachIter(t, S2, k - 1)
CylcReach(t) == ReachIter(t, ({NextParentless(W, t, NoPoint)} \ {NoPoint}) \cup {p \in AllPoints(W) : SpawnedByOutput(t, p)},
                          Cardinality(AllPoints(W)))
Expected == {i \in W.tasks \X AllPoints(W) :
               /\ ValidPoint(W, i[1], i[2]) /\ i[2] >= W.start /\ i[2] <= StopPt
               /\ Spawnable(i[1], i[2])
               /\ ReadyByGraph(W, i[1], i[2], done)}
\* graph-parentless instances that cylc's spawning never reaches (known findings, see below)
NeverReached == {i \in Expected : i[2] \notin CylcReach(i[1])}
BeyondStopAlt == {i \in W.tasks \X AllPoints(W) :
                    \E L \in Deps(W, i[1], i[2]) : \E a \in Atoms(L.lhs) : AtomPoint(W, a, i[2]) > StopPt}
\* no instance that the graph spawns is left with prerequisites that can never be satisfied
NoStuck == \A i \in W.tasks \X AllPoints(W) :
             (ValidPoint(W, i[1], i[2]) /\ i[2] >= W.start /\ i[2] <= StopPt /\ Spawnable(i[1], i[2]))
                => ReadyByGraph(W, i[1], i[2], done)
\* a run that ends stalled / idle instead of shutting down: every instance the graph spawns (parentless, or
\* child of a completed output) whose prerequisites are satisfied by the completed outputs and whose point lies
\* within the runahead limit in force has been given a job (nothing holds it back: no job is active, no command
\* interfered).  The known spawning findings of the closure clause are excepted here too.
QuietClean(ev) == /\ ~Opt.manual /\ ~Opt.stopreq /\ ~Opt.stopmid /\ ~Opt.faults /\ ~ev.paused /\ ~W.hassuicide
                  /\ env.downkind # "crash" /\ ev.rhlimit # NoPoint /\ ev.tasks_to_hold = {} /\ ev.hold_point = NoPoint
                  /\ ~W.hasxt /\ DOMAIN W.expire = {}
QuiescentViol(ev) ==
  Chk("C03_NoStarvation", (~ev.paused /\ ~Opt.stopreq) => \A i \in SyncIds(ev) : ~Starved(ev, i))
  \cup Chk("C01_NothingLeftBehind",
         QuietClean(ev) => \A i \in Expected \ (Launched \cup BeyondStopAlt \cup NeverReached) : i[2] > ev.rhlimit)
QuiescentCov(ev) == Cov("C03_NoStarvation", ~ev.paused /\ ~Opt.stopreq /\ SyncIds(ev) # {})
                    \cup Cov("C01_NothingLeftBehind", QuietClean(ev))
\* tasks that were in the in-memory pool when the process died and never came back
LostForGood == env.lostAtCrash \ env.spawnedSinceBoot
EndViol(ev) ==
  LET clean == ~Opt.manual /\ ~env.incomplete /\ ev.reason = "AUTOMATIC" /\ ~W.hassuicide /\ env.downkind # "crash"
               /\ ~Opt.stopreq /\ ~Opt.stopmid
      completable == ~Opt.manual /\ ~env.incomplete /\ Opt.allcomplete /\ ~Opt.stopreq /\ ~W.hassuicide /\ NoStuck IN
     Chk("C01_ExactClosure",
         clean => ((Launched \subseteq Expected /\ (Expected \ Launched) \subseteq (BeyondStopAlt \cup NeverReached))
                     \/ PrintT(<<"DIAG", tid, "closure: launched-not-expected", Launched \ Expected,
                                 "expected-not-launched", Expected \ Launched>>) = FALSE))
  \* C46: after a warm start exactly the closure from the start point runs (prerequisites on instances before
  \* the start point count as satisfied, nothing before it runs, nothing from it on is skipped)
  \cup Chk("C46_ExactClosureFromStart",
         (clean /\ W.start > W.icp) =>
            (Launched \subseteq Expected /\ (Expected \ Launched) \subseteq (BeyondStopAlt \cup NeverReached)))
  \* recorded separately: cylc refuses to spawn an instance any of whose prerequisite atoms lies beyond the
  \* stop point, even when an OR alternative is satisfied (see known_findings.txt)
  \cup Chk("C01_ExactClosure_BeyondStopAlternative", clean => (Expected \ Launched) \cap BeyondStopAlt = {})
  \* recorded separately: a graph-parentless instance is found only if it is the first point of one of the
  \* task's recurrences at start-up, or the next point after an instance that got a proxy
  \*  - a sequential task with graph parents is never treated as parentless (TaskDef.is_parentless), so its
  \*    first instance never runs when all its graph parents are before the initial point
  \cup Chk("C01_ExactClosure_SequentialFirstInstanceNeverSpawned",
           clean => {i \in (Expected \ Launched) \cap NeverReached : i[1] \in W.seqtasks} = {})
  \*  - a recurrence whose first point has a parent (e.g. through another, overlapping recurrence) is taken
  \*    to be parented throughout (TaskDef.next_point_parentless), so later parentless points are missed
  \cup Chk("C01_ExactClosure_ParentlessPointBehindParentedOne",
           clean => {i \in (Expected \ Launched) \cap NeverReached : i[1] \notin W.seqtasks} = {})
  \* with a stop task the scheduler stops once that task has succeeded
  \cup Chk("C43_StopTaskStops",
           \* (a task that had already succeeded when it was named as stop task does not count)
           (env.cmdStopTask[1] # "none" /\ <<env.cmdStopTask[1], env.cmdStopTask[2], "succeeded">> \in done \ env.doneAtStopTask
            /\ env.downkind # "crash") => ev.reason = "AUTOMATIC")
  \cup Chk("C01_ShutsDown", completable => ev.reason = "AUTOMATIC")
  \cup Chk("C04_NoRunaheadDeadlock", completable => ev.reason = "AUTOMATIC")
  \cup Chk("C43_ShutdownWhenNothingLeft", (completable /\ env.stop # NoPoint) => ev.reason = "AUTOMATIC")
  \* C10: whatever the interleaving of messages, duplicates and polls, what the scheduler finally believes
  \* about an instance agrees with what its jobs really did
  \cup Chk("C10_FinalMatchesJob",
           (ev.reason \in {"AUTOMATIC", "stalled", "quiescent"} /\ ~Opt.manual /\ env.downkind # "crash") =>
              /\ \A d \in done : d[3] = "succeeded" => \E j \in env.succeeded : j[1] = d[1] /\ j[2] = d[2]
              /\ \A d \in done : d[3] = "failed" => \E j \in env.failedjobs : j[1] = d[1] /\ j[2] = d[2]
              /\ \A j \in env.succeeded : (\A k \in env.jobs : (k[1] = j[1] /\ k[2] = j[2]) => k[3] <= j[3])
                                             => <<j[1], j[2], "succeeded">> \in done)
  \cup Chk("C19_SameOutcome", (Opt.hastwin /\ env.downkind = "stop") =>
              ((Launched = Opt.twin.launched /\ done = Opt.twin.done /\ ev.reason = Opt.twin.reason)
                 \/ PrintT(<<"DIAG", tid, "twin: launched-only-here", Launched \ Opt.twin.launched, "only-in-twin",
                             Opt.twin.launched \ Launched, "outputs-only-here", done \ Opt.twin.done,
                             "outputs-only-in-twin", Opt.twin.done \ done, ev.reason, Opt.twin.reason>>) = FALSE))
  \* recorded separately (known findings):
  \*  - the process died before the task pool was ever committed: the restart finds an empty pool
  \*  - the process died during start-up, before the database held the workflow parameters: it cannot restart
  \cup Chk("C20_NoLoss_CrashDuringStartup", ev.reason # "restart_failed")
  \cup Chk("C20_NoLoss_CrashBeforeFirstPoolCommit",
           (Opt.hastwin /\ env.downkind = "crash" /\ env.earlyCrash /\ ev.reason # "restart_failed")
               => Opt.twin.launched \subseteq Launched)
  \*  - a task spawned in memory whose task_states row was committed early (in TaskPool.remove) while the
  \*    task_pool table is only rewritten at the end of the iteration: after the crash it is neither in
  \*    the pool nor respawnable ("task was removed")
  \cup Chk("C20_NoLoss_SpawnedTaskLostBehindEarlyCommit",
           (Opt.hastwin /\ env.downkind = "crash" /\ ~env.earlyCrash) =>
               (LostForGood = {} \/ (Opt.twin.launched \subseteq Launched /\ ev.reason = Opt.twin.reason)))
  \cup Chk("C20_NoLoss", (Opt.hastwin /\ env.downkind = "crash" /\ ~env.earlyCrash /\ LostForGood = {}) =>
              \* (outputs are compared only when no job was launched twice: two live copies of one job
              \*  is the known finding C20_NoDuplicateSubmitNum_UncommittedLaunch and scrambles its messages)
              ((Opt.twin.launched \subseteq Launched /\ (env.hadDup \/ Opt.twin.done \subseteq done))
                 \/ PrintT(<<"DIAG", tid, "crash twin: only-in-twin", Opt.twin.launched \ Launched,
                             "outputs-only-in-twin", Opt.twin.done \ done, ev.reason, Opt.twin.reason>>) = FALSE))
  \cup Chk("C20_SameEnd", (Opt.hastwin /\ env.downkind = "crash" /\ ~env.earlyCrash
                             /\ ~env.hadDup /\ LostForGood = {}) => ev.reason = Opt.twin.reason)
  \cup Chk("C20_NothingExtra", (Opt.hastwin /\ env.downkind = "crash") => Launched \subseteq Opt.twin.launched)
EndCov(ev) == Cov("C10_FinalMatchesJob", env.succeeded # {} /\ ev.reason \in {"AUTOMATIC", "stalled", "quiescent"})
              \cup Cov("C10_FinalMatchesJobUnderFaults", Opt.faults /\ env.succeeded # {})
              \cup Cov("C43_ShutdownWhenNothingLeft", env.stop # NoPoint /\ Opt.allcomplete /\ ~Opt.stopreq)
              \cup Cov("C43_StopTaskStops", env.cmdStopTask[1] # "none" /\ <<env.cmdStopTask[1], env.cmdStopTask[2], "succeeded">> \in done \ env.doneAtStopTask)
              \cup Cov("C19_SameOutcome", Opt.hastwin /\ env.downkind = "stop")
              \cup Cov("C20_NoLoss", Opt.hastwin /\ env.downkind = "crash")
              \cup Cov("C01_ExactClosure", ~Opt.manual /\ ~env.incomplete /\ ev.reason = "AUTOMATIC")
              \cup Cov("C46_ExactClosureFromStart", ~Opt.manual /\ ~env.incomplete /\ ev.reason = "AUTOMATIC" /\ W.start > W.icp)
              \cup Cov("C01_ShutsDown", ~Opt.manual /\ ~env.incomplete /\ Opt.allcomplete /\ ~Opt.stopreq /\ ~W.hassuicide /\ NoStuck)

-----------------------------------------------------------------------------
(* ------------------------- following the log --------------------------- *)
Upd(f, k, v) == [x \in DOMAIN f \cup {k} |-> IF x = k THEN v ELSE f[x]]
Del(f, k) == [x \in DOMAIN f \ {k} |-> f[x]]

NextPool(ev) ==
  CASE ev.e = "spawn" -> Upd(pool, ev.t.id, ev.t)
    [] ev.e = "remove" -> Del(pool, ev.t.id)
    [] ev.e = "state" -> IF ev.t.id \in DOMAIN pool THEN Upd(pool, ev.t.id, ev.t) ELSE pool
    \* (a message for a proxy that has left the pool - e.g. replaced by a trigger - does not touch its successor)
    [] ev.e = "msg" -> IF ev.t.id \in DOMAIN pool /\ ev.inpool THEN Upd(pool, ev.t.id, ev.t) ELSE pool
    [] ev.e = "prepare" -> IF ev.t.id \in DOMAIN pool THEN Upd(pool, ev.t.id, ev.t) ELSE pool
    [] ev.e = "merge" -> IF ev.id \in DOMAIN pool /\ ev.inpool THEN [pool EXCEPT ![ev.id].flows = ev.after] ELSE pool
    [] ev.e \in {"loop_end", "boot", "restored", "cmd_done"} -> [i \in SyncIds(ev) |-> SyncRec(ev, i)]   \* re-synchronise
    [] ev.e \in {"sched_stop", "crash"} -> <<>>          \* the process is gone; the pool is rebuilt from the DB
    [] OTHER -> pool

NewOuts(ev) == IF ev.e \in {"state", "msg", "prepare", "spawn"} THEN {<<Name(ev.t.id), Pt(ev.t.id), o>> : o \in ev.t.outs} ELSE {}
NextDone(ev) == done \cup NewOuts(ev)

NextHist(ev) ==
  CASE ev.e = "prepare" ->
         LET h == HistOf(ev.t.id) IN
         Upd(hist, ev.t.id, [h EXCEPT !.n = h.n + 1, !.flows = h.flows \cup ev.t.flows, !.retry = FALSE])
    [] ev.e = "state" /\ ev.t.st = "waiting" /\ ev.b.st # "waiting" /\ "_retry_task" \in ev.cx ->
         LET h == HistOf(ev.t.id) IN
         Upd(hist, ev.t.id, [h EXCEPT !.retry = TRUE,
                                      !.efail = IF "_process_message_failed" \in ev.cx THEN h.efail + 1 ELSE h.efail,
                                      !.sfail = IF "_process_message_failed" \in ev.cx THEN h.sfail ELSE h.sfail + 1])
    [] ev.e = "state" /\ ev.t.st = "running" /\ ev.b.st # "running" ->
         \* the submission try counter starts afresh once a job starts
         LET h == HistOf(ev.t.id) IN Upd(hist, ev.t.id, [h EXCEPT !.sfail = 0])
    [] OTHER -> hist

NextEnv(ev) ==
  CASE ev.e = "sched_stop" /\ ev.reason # "AUTOMATIC" ->
         [env EXCEPT !.prestop = [i \in SyncIds(ev) |-> SyncRec(ev, i)], !.prescal = Scalars(ev),
                     !.downkind = IF @ = "crash" THEN "crash" ELSE "stop"]
    [] ev.e = "sched_stop" /\ ev.reason = "AUTOMATIC" -> [env EXCEPT !.downkind = "auto"]
    [] ev.e = "set_stop" /\ ev.mode = "REQUEST_CLEAN" ->
         [env EXCEPT !.activeAtCleanReq = {i \in SyncIds(ev) : SyncRec(ev, i).st \in {"submitted", "running"}}]
    [] ev.e = "crash" -> [env EXCEPT !.prestop = pool, !.downkind = "crash",
                                     !.committedAtCrash = env.committed, !.jobsSinceBoot = {}, !.spawnedSinceBoot = {},
                                     !.earlyCrash = @ \/ ~env.poolcommitted]
    [] ev.e = "env_launch" -> [env EXCEPT !.jobs = @ \cup {ev.job}, !.hadDup = @ \/ ev.job \in env.jobs,
                                          !.jobsSinceBoot = @ \cup {ev.job},
                                          \* a fresh run of this job: what the previous run sent no longer counts
                                          !.seenMsgs = {m \in @ : ~(m[1] = <<ev.job[1], ev.job[2]>> /\ m[2] = ev.job[3])}]
    [] ev.e = "xt_call" -> [env EXCEPT !.xtActive = @ \cup {ev.sig},
                                       !.xtLast = [x \in DOMAIN @ \cup {ev.sig} |-> IF x = ev.sig THEN ev.clock ELSE @[x]]]
    [] ev.e = "xt_ret" -> [env EXCEPT !.xtActive = @ \ {ev.sig},
                                      !.xtOK = IF ev.ok THEN @ \cup {ev.sig} ELSE @,
                                      !.xtNeeders = IF ev.ok
                                                    THEN [x \in DOMAIN @ \cup {ev.sig} |->
                                                            IF x = ev.sig THEN {i \in DOMAIN pool : ev.sig \in pool[i].xneed} ELSE @[x]]
                                                    ELSE @,
                                      !.xtEverOK = IF ev.ok THEN @ \cup {ev.sig} ELSE @,
                                      !.xtLastOK = IF ev.ok THEN @ \cup {ev.sig} ELSE @ \ {ev.sig}]
    [] ev.e = "spawn" -> [env EXCEPT !.spawnedSinceBoot = @ \cup {ev.t.id}, !.flowsEver = @ \cup ev.t.flows,
                                     !.rm = IF ev.t.id \in @.ids THEN [@ EXCEPT !.ok = FALSE] ELSE @]
    [] ev.e = "remove_flushed" -> [env EXCEPT !.rm = [@ EXCEPT !.active = FALSE]]
    [] ev.e = "loop_begin" -> [env EXCEPT !.clock = ev.clock]
    [] ev.e = "flow" -> [env EXCEPT !.flowsEver = @ \cup {ev.got} \cup ev.known]
    [] ev.e = "cmd" ->
         [env EXCEPT !.cmdStop = IF ev.name = "stop" /\ ev.stopcp # NoPoint /\ ev.stopcp <= W.fcp /\ ev.stopcp >= W.icp
                                  THEN ev.stopcp ELSE @,
                     !.rm = IF ev.name = "remove_tasks"
                            THEN [active |-> TRUE, ok |-> ~@.active, ids |-> ev.ids, flow |-> ev.flow]
                            ELSE [@ EXCEPT !.ok = FALSE],
                     !.cmdStopTask = IF ev.name = "stop" /\ ev.stoptask[1] # "none" /\ ev.stoptask[1] \in W.tasks
                                     THEN ev.stoptask ELSE @,
                     !.doneAtStopTask = IF ev.name = "stop" /\ ev.stoptask[1] # "none" /\ ev.stoptask[1] \in W.tasks
                                        THEN done ELSE @,
                     !.cmdDone0 = done,
                     !.cmdpre = pool, !.cmdname = ev.name, !.cmdids = ev.ids, !.cmdflow = ev.flow, !.forcedSince = {},
                     !.trig = IF ev.name = "force_trigger_tasks"
                              THEN LET real == {i \in ev.ids : ValidPoint(W, Name(i), Pt(i)) /\ InBounds(W, Pt(i))} IN
                                   \* (ids that name no instance of the graph match nothing)
                                   \* n = runs since the trigger; a member triggered again before it ran keeps the unused run
                                   [ids |-> real, done |-> {}, ran |-> {},
                                    \* (credits of members named by earlier trigger commands are kept)
                                    n |-> [i \in real \cup DOMAIN @.n |->
                                             IF i \in real THEN (IF i \in DOMAIN @.n /\ @.n[i] <= 0 THEN @.n[i] - 1 ELSE 0)
                                             ELSE @.n[i]],
                                    dflt |-> ev.flow = {},
                                    live |-> {i \in real \cap DOMAIN pool : pool[i].st \in ActiveStatuses},
                                    \* outputs of earlier jobs of members that will be re-run
                                    stale |-> UNION {{<<Name(i), Pt(i), o>> : o \in pool[i].outs} :
                                                       i \in {j \in real \cap DOMAIN pool : pool[j].st \notin ActiveStatuses}}]
                              ELSE @,
                     !.completedIn = IF ev.name \in {"remove_tasks", "force_trigger_tasks", "set"}
                                     THEN {c \in @ : c[1] \notin ev.ids} ELSE @]
    [] ev.e = "remove" /\ ev.reason = "completed" -> [env EXCEPT !.completedIn = @ \cup {<<ev.t.id, ev.t.flows>>}]
    [] ev.e = "prepare" /\ ev.t.id \in DOMAIN env.trig.n ->
         [env EXCEPT !.trig.n = [@ EXCEPT ![ev.t.id] = @ + 1],
                     !.trig.ran = IF ev.t.id \in env.trig.ids THEN @ \cup {ev.t.id} ELSE @]
    [] ev.e = "msg" ->
         [env EXCEPT !.tainted = IF ev.flag = "received" /\ ev.inpool /\ ~ev.forced /\ ev.b.st = "waiting"
                                     /\ ev.b.etry = 0 /\ ev.b.stry = 0
                                     /\ <<ev.t.id, ev.sub, ev.msg>> \in env.seenMsgs /\ ev.t.st # ev.b.st
                                  THEN @ \cup {ev.t.id} ELSE @,
                     \* outputs completed since the trigger; an output that an earlier job of a re-run member had
                     \* already completed counts again once the new job reports it
                     !.trig.done = @ \cup {<<Name(ev.t.id), Pt(ev.t.id), o>> : o \in ev.t.outs \ ev.b.outs}
                                     \cup (IF ev.t.id \in env.trig.ran /\ ev.sub = ev.t.sub
                                              /\ ~ev.forced /\ ev.inpool /\ ev.msg \in ev.t.outs
                                           THEN {<<Name(ev.t.id), Pt(ev.t.id), ev.msg>>} ELSE {}),
                     !.seenMsgs = IF ev.flag = "received" /\ "msg" \notin ev.cx
                                  THEN @ \cup {<<ev.t.id, ev.sub, ev.msg>>} ELSE @,
                     !.forcedSince = IF ev.forced THEN @ \cup {<<Name(ev.t.id), Pt(ev.t.id), o>> : o \in ev.t.outs \ ev.b.outs} ELSE @]
    [] ev.e = "state" /\ Opt.faults /\ "_submit_task_job_callback" \in ev.cx /\ ev.b.st # ev.t.st
          /\ ~Lifecycle(ev.b.st, ev.t.st, "_retry_task" \in ev.cx) ->
         [env EXCEPT !.tainted = @ \cup {ev.t.id}]    \* state corrupted by a stale submit callback (known finding)
    [] ev.e = "env_job" /\ ev.step = "succeeded" -> [env EXCEPT !.succeeded = @ \cup {ev.job}]
    [] ev.e = "env_job" /\ ev.step = "failed" -> [env EXCEPT !.failedjobs = @ \cup {ev.job}]
    [] ev.e = "cmd_done" -> [env EXCEPT !.stop = ev.stop_point, !.tohold = ev.tasks_to_hold, !.holdpt = ev.hold_point,
                                        !.hadStopTask = @ \/ ev.stop_task # "none"]
    [] ev.e \in {"loop_end", "boot"} ->
         [env EXCEPT !.stop = ev.stop_point, !.tohold = ev.tasks_to_hold, !.holdpt = ev.hold_point,
                     !.flowctr = ev.flow_counter,
                     !.dueprev = IF ev.e = "loop_end" THEN DueNow(ev) ELSE {},
                     \* (a stop point that was reached - the workflow shut itself down - is not in force after a restart)
                     !.cmdStop = IF ev.e = "boot" /\ env.downkind = "auto" THEN NoPoint ELSE @,
                     !.stop0 = IF ev.e = "boot" /\ ~ev.restart THEN ev.stop_point ELSE @,
                     \* a succeeded signature is forgotten once no pooled task still waits for it
                     !.xtOK = IF ev.e = "loop_end"
                              THEN {g \in @ : \E i \in SyncIds(ev) : g \in SyncRec(ev, i).xneed} ELSE {},
                     !.xtOKold = IF ev.e = "loop_end" THEN env.xtOK ELSE {},
                     !.xtActive = IF ev.e = "boot" THEN {} ELSE @,
                     !.xtLast = IF ev.e = "boot" THEN <<>> ELSE @,
                     !.committed = IF ev.e = "loop_end" /\ ev.hasdb THEN @ \cup ev.dbstates ELSE @,
                     !.poolcommitted = @ \/ (ev.e = "loop_end" /\ ev.hasdb /\ ev.dbpool # <<>>),
                     !.lostAtCrash = IF ev.e = "boot" /\ ev.restart /\ env.downkind = "crash"
                                     THEN @ \cup (DOMAIN env.prestop \ SyncIds(ev)) ELSE @,
                     !.restarted = env.restarted \/ (ev.e = "boot" /\ ev.restart),
                     !.incomplete = env.incomplete \/ \E i \in SyncIds(ev) :
                          SyncRec(ev, i).st \in FinalStatuses /\ ~Complete(W, Name(i), SyncRec(ev, i).outs)]
    [] OTHER -> env

Violations(ev) ==
  CASE ev.e = "spawn" -> SpawnViol(ev)
    [] ev.e = "remove" -> RemoveViol(ev)
    [] ev.e = "state" -> StateViol(ev)
    [] ev.e = "prepare" -> PrepareViol(ev)
    [] ev.e = "msg" -> MsgViol(ev)
    [] ev.e = "q_release" -> QReleaseViol(ev)
    [] ev.e = "rh_compute" -> RhViol(ev)
    [] ev.e = "loop_end" -> LoopEndViol(ev) \cup XtLoopViol(ev)
    [] ev.e = "xt_call" -> XtCallViol(ev)
    [] ev.e = "set_stop" -> Chk("C03_ShutdownQuiescent", SetStopViol(ev))
                            \* with a stop task, the automatic stop comes only once that task has succeeded (or the
                            \* workflow has nothing left to do anyway)
                            \cup Chk("C43_StopTaskNotEarly",
                                     (ev.mode = "AUTO" /\ env.hadStopTask /\ env.cmdStopTask[1] # "none") =>
                                        (<<env.cmdStopTask[1], env.cmdStopTask[2], "succeeded">> \in done \ env.doneAtStopTask
                                         \/ SetStopQuiescent(ev)))
    [] ev.e = "stall" -> Chk("C03_StallIsReal", StallViol(ev))
                         \* a runahead-limited task that lies within the limit of the present pool is about to be
                         \* released and, its prerequisites being satisfied, will run: the workflow is not stalled
                         \cup Chk("C03_StallIsReal_RunaheadReleasable",
                                  \A i \in SyncIds(ev) : LET s == SyncRec(ev, i) IN
                                     ~(s.st = "waiting" /\ s.rh /\ ~s.held /\ s.preok /\ s.xok /\ Pt(i) <= StopPt
                                       /\ Pt(i) <= RunaheadLimit(W, Min({Pt(j) : j \in SyncIds(ev)}), ev.maxfut, StopPt)))
    [] ev.e = "end" -> EndViol(ev)
    [] ev.e = "boot" -> BootViol(ev) \cup BootStopViol(ev) \cup BootDbViol(ev)
    [] ev.e = "sched_stop" -> SchedStopViol(ev)
    [] ev.e = "quiescent" -> QuiescentViol(ev)
    [] ev.e = "merge" -> MergeViol(ev)
    [] ev.e = "ds_update" -> DsViol(ev)
    [] ev.e = "flow" -> FlowViol(ev)
    [] ev.e = "cmd_done" -> CmdDoneViol(ev) \cup ReloadQueuedViol(ev)
    [] ev.e = "remove_flushed" -> RemoveFlushedViol(ev)
                             \cup Chk("C43_StopPointKept", env.cmdStop # NoPoint => ev.stop_point = env.cmdStop)
    [] ev.e = "restored" -> RestoredViol(ev)
    [] ev.e = "env_launch" -> LaunchViol(ev)
    [] OTHER -> {}

Covered(ev) ==
  CASE ev.e = "spawn" -> SpawnCov(ev)
    [] ev.e = "remove" -> RemoveCov(ev)
    [] ev.e = "state" -> StateCov(ev)
    [] ev.e = "prepare" -> PrepareCov(ev)
    [] ev.e = "msg" -> MsgCov(ev)
    [] ev.e = "q_release" -> QReleaseCov(ev)
    [] ev.e = "rh_compute" -> RhCov(ev)
    [] ev.e = "loop_end" -> LoopEndCov(ev) \cup XtLoopCov(ev)
    [] ev.e = "xt_call" -> XtCallCov(ev)
    [] ev.e = "set_stop" -> Cov("C03_ShutdownQuiescent", ev.mode = "AUTO")
    [] ev.e = "stall" -> {"C03_StallIsReal"}
    [] ev.e = "end" -> EndCov(ev)
    [] ev.e = "boot" -> BootCov(ev) \cup Cov("C20_RestoredStatusFromPoolTable", ev.restart /\ ev.hasdb /\ ev.dbpool # <<>>)
                          \cup Cov("C43_StopPointForgotten", ev.restart /\ env.downkind = "auto" /\ env.cmdStop # NoPoint)
                          \cup Cov("C43_StopPointKeptAcrossRestart", ev.restart /\ env.downkind = "stop" /\ env.cmdStop # NoPoint)
    [] ev.e = "sched_stop" -> Cov("C43_CleanStopWaits", ev.reason = "REQUEST(CLEAN)")
    [] ev.e = "quiescent" -> QuiescentCov(ev)
    [] ev.e = "ds_update" -> DsCov(ev)
    [] ev.e = "merge" -> Cov("C08_MergeIsUnion", ev.added # {} /\ ev.added # ev.before)
    [] ev.e = "flow" -> Cov("C08_NewFlowIsFresh", ev.asked = -1 /\ env.flowsEver # {})
    [] ev.e = "cmd_done" -> CmdDoneCov(ev)
    [] ev.e = "remove_flushed" -> RemoveFlushedCov(ev)
    [] ev.e = "restored" -> RestoredCov(ev)
    [] ev.e = "env_launch" -> {"C20_NoDuplicateSubmitNum"} \cup Cov("C20_NoRerunInFlow", env.downkind = "crash")
    [] OTHER -> {}

-----------------------------------------------------------------------------
Init == /\ tid \in DOMAIN Runs
        /\ l = 1
        /\ pool = <<>>
        /\ done = {}
        /\ hist = <<>>
        /\ env = [stop |-> NoPoint, tohold |-> {}, holdpt |-> NoPoint, restarted |-> FALSE, incomplete |-> FALSE,
                  prestop |-> <<>>, prescal |-> <<>>, downkind |-> "none", committed |-> {}, poolcommitted |-> FALSE, lostAtCrash |-> {}, earlyCrash |-> FALSE, hadStopTask |-> FALSE, hadDup |-> FALSE, committedAtCrash |-> {}, jobsSinceBoot |-> {}, spawnedSinceBoot |-> {}, jobs |-> {}, succeeded |-> {}, failedjobs |-> {}, tainted |-> {}, seenMsgs |-> {}, xtActive |-> {}, xtLast |-> <<>>, xtOK |-> {}, xtOKold |-> {}, xtEverOK |-> {}, xtLastOK |-> {}, xtNeeders |-> <<>>, flowsEver |-> {},
                  trig |-> [ids |-> {}, done |-> {}, n |-> <<>>, dflt |-> FALSE, live |-> {}, stale |-> {}, ran |-> {}], clock |-> 0, dueprev |-> {}, cmdStop |-> NoPoint, rm |-> [active |-> FALSE, ok |-> FALSE, ids |-> {}, flow |-> {}], activeAtCleanReq |-> {}, stop0 |-> -999, doneAtStopTask |-> {}, cmdStopTask |-> <<"none", -999>>, cmdDone0 |-> {}, cmdpre |-> <<>>, cmdname |-> "none", cmdids |-> {},
                  cmdflow |-> {}, forcedSince |-> {}, completedIn |-> {}, flowctr |-> 0]
        /\ viol = {}
        /\ cov = {}

Step == /\ l <= Len(Tr)
        /\ LET ev == Tr[l] IN
              /\ viol' = viol \cup {<<c, l>> : c \in Violations(ev)}
              /\ cov' = cov \cup Covered(ev)
              /\ pool' = NextPool(ev)
              /\ done' = NextDone(ev)
              /\ hist' = NextHist(ev)
              /\ env' = NextEnv(ev)
        /\ l' = l + 1
        /\ UNCHANGED tid

Finish == /\ l = Len(Tr) + 1
          /\ PrintT(<<"VERDICT", tid, viol, cov>>)
          /\ l' = l + 1
          /\ UNCHANGED <<tid, pool, done, hist, env, viol, cov>>

Next == Step \/ Finish
Spec == Init /\ [][Next]_vars
=============================================================================
