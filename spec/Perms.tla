-------------------------------- MODULE Perms --------------------------------
(* C44: private workflow files are created owner-only, whatever the umask.   *)
(*                                                                           *)
(* File modes are 9-bit numbers; creating a file or directory gives          *)
(*     mode' = requested & ~umask          (an existing file keeps its mode) *)
(* and chmod sets the mode outright.  The state machine is the scheduler's   *)
(* start-up sequence as far as it touches the private database, the CurveZMQ *)
(* key files and the directories that hold them, one action per system call  *)
(* that creates / removes / chmods one of them or changes the process umask: *)
(*   Scheduler.install : register (.service dir), key_housekeeping =         *)
(*       remove_keys_on_server ; create_server_keys (client_public_keys dir, *)
(*       umask 0177, server.key, server.key_secret, client.key_secret,       *)
(*       client_public_keys/client_localhost.key, umask restored)            *)
(*   Scheduler.configure : WorkflowDatabaseManager.on_workflow_start =       *)
(*       unlink private DB unless restarting ; sqlite creates .service/db ;  *)
(*       chmod 0600 ; public DB log/db synchronised (keeps/gets its own mode)*)
(* Variants: a fresh start; a restart (DB and .service exist, keys were      *)
(* removed at shutdown); a restart after a crash where DB, leftover keys and *)
(* key directory have been made world-accessible.                            *)
EXTENDS Naturals, Bitwise, TLC

CONSTANTS Umasks,      \* process umasks at scheduler start (MC: 0..511)
          Variants     \* subset of {"fresh", "restart", "restart_loose"}

ABSENT == 1000         \* not a mode: the file does not exist
ALL == 511             \* 0777
GROUP_OTHER == 63      \* 0077
OWNER == 448           \* 0700
REQ_FILE == 438        \* 0666: open(..., O_CREAT) as done by Python, zmq and shutil
REQ_DIR == 511         \* 0777: os.makedirs
REQ_SQLITE == 420      \* 0644: sqlite3's default for a new database file
PERM_PRIVATE == 384    \* 0600
KEY_UMASK == 127       \* 0177

Files == {"srv_dir", "cpk_dir", "server_pub", "server_priv", "client_priv", "client_pub_copy", "pri_db", "pub_db"}
Private == {"pri_db", "server_priv", "client_priv"}
KeyFiles == {"server_pub", "server_priv", "client_priv", "client_pub_copy"}

Masked(req, um) == req & (ALL - um)
\* start-up can proceed at all only if the owner's own bits are not masked (directories it has to use)
CanStart(um) == (um & OWNER) = 0

VARIABLES umask0, variant, cur, saved, fs, pc
vars == <<umask0, variant, cur, saved, fs, pc>>

InitFs(v) ==
  [f \in Files |->
     CASE v = "fresh" -> ABSENT
       [] v = "restart" ->
            (CASE f = "srv_dir" -> 493 [] f = "pri_db" -> 384 [] f = "pub_db" -> 420 [] OTHER -> ABSENT)
       [] v = "restart_loose" ->
            (CASE f = "srv_dir" -> 493 [] f = "pri_db" -> 438 [] f = "pub_db" -> 420
               [] f = "cpk_dir" -> 511 [] OTHER -> 438)]

Init ==
  /\ umask0 \in Umasks /\ variant \in Variants
  /\ cur = umask0 /\ saved = umask0
  /\ fs = InitFs(variant)
  /\ pc = IF CanStart(umask0) THEN "mk_srv_dir" ELSE "blocked"

\* creating something that exists leaves its mode alone (O_CREAT without O_EXCL, makedirs exist_ok)
Create(f, req) == fs' = IF fs[f] # ABSENT THEN fs ELSE [fs EXCEPT ![f] = Masked(req, cur)]
Remove(S) == fs' = [f \in Files |-> IF f \in S THEN ABSENT ELSE fs[f]]
Chmod(f, m) == fs' = [fs EXCEPT ![f] = m]
Step(from, to) == pc = from /\ pc' = to /\ UNCHANGED <<umask0, variant>>

MkSrvDir      == Step("mk_srv_dir", "remove_keys")        /\ Create("srv_dir", REQ_DIR) /\ UNCHANGED <<cur, saved>>
RemoveKeys    == Step("remove_keys", "mk_cpk_dir")        /\ Remove(KeyFiles \cup {"cpk_dir"}) /\ UNCHANGED <<cur, saved>>
MkCpkDir      == Step("mk_cpk_dir", "set_umask")          /\ Create("cpk_dir", REQ_DIR) /\ UNCHANGED <<cur, saved>>
SetUmask      == Step("set_umask", "write_server_pub")    /\ saved' = cur /\ cur' = KEY_UMASK /\ UNCHANGED fs
WriteSrvPub   == Step("write_server_pub", "write_server_priv") /\ Create("server_pub", REQ_FILE) /\ UNCHANGED <<cur, saved>>
WriteSrvPriv  == Step("write_server_priv", "copy_client_priv") /\ Create("server_priv", REQ_FILE) /\ UNCHANGED <<cur, saved>>
CopyCliPriv   == Step("copy_client_priv", "copy_server_pub")   /\ Create("client_priv", REQ_FILE) /\ UNCHANGED <<cur, saved>>
CopySrvPub    == Step("copy_server_pub", "restore_umask")      /\ Create("client_pub_copy", REQ_FILE) /\ UNCHANGED <<cur, saved>>
RestoreUmask  == Step("restore_umask", "db_unlink")       /\ cur' = saved /\ UNCHANGED <<saved, fs>>
DbUnlink      == Step("db_unlink", "db_open")             /\ UNCHANGED <<cur, saved>>
                 /\ IF variant = "fresh" THEN Remove({"pri_db"}) ELSE UNCHANGED fs
DbOpen        == Step("db_open", "db_chmod")              /\ Create("pri_db", REQ_SQLITE) /\ UNCHANGED <<cur, saved>>
DbChmod       == Step("db_chmod", "sync_pub")             /\ Chmod("pri_db", PERM_PRIVATE) /\ UNCHANGED <<cur, saved>>
\* copy_pri_to_pub: the public file is created if missing (0666 & ~umask), replaced by a copy of the private
\* DB and chmod'ed back to the mode it had
SyncPub       == Step("sync_pub", "done")                 /\ Create("pub_db", REQ_FILE) /\ UNCHANGED <<cur, saved>>

Next == \/ MkSrvDir \/ RemoveKeys \/ MkCpkDir \/ SetUmask \/ WriteSrvPub \/ WriteSrvPriv \/ CopyCliPriv
        \/ CopySrvPub \/ RestoreUmask \/ DbUnlink \/ DbOpen \/ DbChmod \/ SyncPub
Spec == Init /\ [][Next]_vars

-----------------------------------------------------------------------------
TypeOK == /\ \A f \in Files : fs[f] \in 0..511 \cup {ABSENT}
          /\ cur \in 0..511 /\ saved \in 0..511

\* C44: once start-up completes the private DB and both private keys exist and have no group/other bits
C44_PrivateAfterStartup ==
  pc = "done" => \A f \in Private : fs[f] # ABSENT /\ (fs[f] & GROUP_OTHER) = 0

\* stronger, for the keys: from the moment the old keys have been removed, no private key file is ever
\* group/other accessible, not even transiently (they are created under umask 0177, not chmod'ed later)
AfterRemoval == pc \notin {"mk_srv_dir", "remove_keys", "blocked"}
C44_KeysNeverLoose ==
  AfterRemoval => \A f \in {"server_priv", "client_priv"} : fs[f] = ABSENT \/ (fs[f] & GROUP_OTHER) = 0

\* the umask the scheduler runs under afterwards is the one it was started with
UmaskRestored == pc \in {"db_unlink", "db_open", "db_chmod", "sync_pub", "done"} => cur = umask0

\* every umask under which start-up can proceed reaches "done" (checked as: no other terminal state)
Terminal == pc \in {"done", "blocked"} \/ ENABLED Next
=============================================================================
