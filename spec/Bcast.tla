-------------------------------- MODULE Bcast --------------------------------
(* C22: broadcasts override in precedence order and persist exactly.          *)
(*                                                                            *)
(* State machine of the broadcast store of a running scheduler together with  *)
(* its persistence in the run database (table broadcast_states and the queue  *)
(* of not-yet-committed deletes / inserts), written from the documented       *)
(* behaviour of `cylc broadcast` (set / --cancel / --clear / --expire), not   *)
(* from the implementation.                                                   *)
(*                                                                            *)
(* A broadcast store is a set of leaves: <<point, namespace, path>> -> value, *)
(* where path is the key path of a setting inside the nested runtime section, *)
(* e.g. <<"script">> or <<"environment", "A">> (2-level nesting).  This is     *)
(* the nested dictionary broadcasts[point][namespace] = {...} read leaf-wise. *)
(*   points     = the all-cycle point ALL ("*") and two cycle points P1 < P2  *)
(*   namespaces = the chain root > FAM > t (t inherits FAM inherits root);    *)
(*                task u inherits root only and is never a broadcast target:  *)
(*                it shows that broadcasts do not leak sideways               *)
(* Actions: Put (a list of setting dictionaries; one dictionary may carry     *)
(* several leaves at either nesting level, as the GraphQL / Python API        *)
(* allows, or one leaf per dictionary as the CLI sends them), Clear (by       *)
(* points / namespaces / cancel keys, each optional), Expire(cutoff), Commit  *)
(* (the scheduler's per-iteration DB transaction: DELETEs first, then INSERT  *)
(* OR REPLACE), Restart (clean stop = final commit; the store is then rebuilt *)
(* from the table alone).                                                     *)
(* `act` records the action (with parameters) that produced the state and     *)
(* `eff` the effective runtime configuration of every task at every cycle, so *)
(* that a replay harness can drive the real BroadcastMgr from TLC's output    *)
(* and compare after every step.                                              *)
EXTENDS Naturals, Sequences, FiniteSets, TLC

CONSTANTS MaxOps,      \* bound on the number of Put/Clear/Expire operations
          PutPoints,   \* menu: sets of points a Put may target
          PutNS,       \* menu: sets of namespaces a Put may target
          PutSettings, \* menu: sequences of setting dictionaries (path -> value)
          ClrPoints,   \* menu: point filters of Clear ({} = no filter)
          ClrNS,       \* menu: namespace filters of Clear ({} = no filter)
          ClrKeys,     \* menu: sets of cancel paths ({} = everything)
          Cutoffs      \* menu: expire cutoffs (cycle point numbers)

ALL == "ALL"
CyclePoints == {"P1", "P2"}
AllPoints == CyclePoints \cup {ALL}
PointNum(p) == IF p = "P1" THEN 1 ELSE 2
NS == {"root", "FAM", "t"}
Tasks == {"t", "u"}
\* linearised ancestors, root first
Anc(task) == IF task = "t" THEN <<"root", "FAM", "t">> ELSE <<"root", "u">>

Paths == {<<"script">>, <<"environment", "A">>, <<"environment", "B">>}
Cells == AllPoints \X NS \X Paths
Nil == "-"                       \* "no value"
Empty == [k \in {} |-> Nil]
At(f, k) == IF k \in DOMAIN f THEN f[k] ELSE Nil
\* g overrides f (TLCEval: evaluate eagerly; semantically the identity)
Over(f, g) == TLCEval([k \in DOMAIN f \cup DOMAIN g |-> IF k \in DOMAIN g THEN g[k] ELSE f[k]])
Without(f, K) == TLCEval([k \in DOMAIN f \ K |-> f[k]])
RECURSIVE OverSeq(_, _)
OverSeq(f, gs) == IF gs = <<>> THEN f ELSE OverSeq(Over(f, Head(gs)), Tail(gs))

-----------------------------------------------------------------------------
(* Static (flow.cylc) configuration of the test workflow: per namespace, and *)
(* per task after inheritance (root first, the task itself last).            *)
StaticNS(n) ==
  CASE n = "root" -> (<<"script">> :> "s_root" @@ <<"environment", "A">> :> "a_root")
    [] n = "FAM"  -> (<<"environment", "B">> :> "b_fam")
    [] n = "t"    -> (<<"script">> :> "s_t")
    [] n = "u"    -> Empty
Static(task) == OverSeq(Empty, [i \in 1..Len(Anc(task)) |-> StaticNS(Anc(task)[i])])

-----------------------------------------------------------------------------
VARIABLES bc,     \* in-memory broadcasts: Cells -> value (only the leaves that are set)
          tbl,    \* committed rows of broadcast_states: Cells -> value
          pdel,   \* row keys queued for DELETE
          pins,   \* rows queued for INSERT OR REPLACE (a later insert of the same key wins)
          nops,   \* number of operations so far
          act,    \* the action that led here (with its parameters)
          eff     \* effective configuration: <<task, cycle, path>> -> value
vars == <<bc, tbl, pdel, pins, nops, act, eff>>

\* Mechanism reading of the documentation: "all-cycle broadcasts are applied
\* first, then the cycle's; within each, root first, then each ancestor, the
\* task itself last" - over the task's static configuration.
LayersOf(task, cyc) == [i \in 1..(2 * Len(Anc(task))) |->
                          IF i <= Len(Anc(task)) THEN <<ALL, Anc(task)[i]>>
                          ELSE <<cyc, Anc(task)[i - Len(Anc(task))]>>]
\* (constant tables, evaluated once by TLC)
Layers == [tc \in Tasks \X CyclePoints |-> LayersOf(tc[1], tc[2])]
StaticT == [task \in Tasks |-> Static(task)]
\* applying the layers in order over the static configuration = for every leaf
\* the value written by the last layer that defines it
GetMech(b, task, cyc, q) ==
  LET L == Layers[<<task, cyc>>]
      D == {i \in 1..Len(L) : <<L[i][1], L[i][2], q>> \in DOMAIN b}
  IN IF D = {} THEN At(StaticT[task], q)
     ELSE LET m == CHOOSE i \in D : \A j \in D : j <= i IN b[<<L[m][1], L[m][2], q>>]
EffOf(b) ==
  LET G == TLCEval([k \in Tasks \X CyclePoints \X Paths |-> GetMech(b, k[1], k[2], k[3])])
  IN TLCEval([k \in {j \in DOMAIN G : G[j] # Nil} |-> G[k]])

\* Declarative reading: for every leaf the most specific broadcast wins - a
\* broadcast to the task's own cycle beats any all-cycle broadcast, and within
\* the same point the namespace nearest to the task wins; else the static value.
Rank(task, n) == CHOOSE i \in 1..Len(Anc(task)) : Anc(task)[i] = n
GetDecl(b, task, cyc, q) ==
  LET cands(p) == {n \in NS : (\E i \in 1..Len(Anc(task)) : Anc(task)[i] = n) /\ <<p, n, q>> \in DOMAIN b}
      best(p)  == CHOOSE n \in cands(p) : \A m \in cands(p) : Rank(task, m) <= Rank(task, n)
  IN IF cands(cyc) # {} THEN b[<<cyc, best(cyc), q>>]
     ELSE IF cands(ALL) # {} THEN b[<<ALL, best(ALL), q>>]
     ELSE At(StaticT[task], q)

\* the table after the pending transaction (deletes, then inserts)
Committed(t, d, i) == Over(Without(t, d), i)

Init == /\ bc = Empty /\ tbl = Empty /\ pdel = {} /\ pins = Empty /\ nops = 0
        /\ act = [name |-> "Init"] /\ eff = EffOf(Empty)

\* Put: every dictionary of the list is merged, in order, into every targeted
\* (point, namespace); every leaf so set is recorded for the table.
Put(P, N, S) ==
  /\ nops < MaxOps
  /\ LET new  == OverSeq(Empty, S)
         rows == TLCEval([k \in P \X N \X DOMAIN new |-> new[k[3]]])
     IN /\ bc' = Over(bc, rows)
        /\ pins' = Over(pins, rows)
  /\ eff' = EffOf(bc')
  /\ UNCHANGED <<tbl, pdel>>
  /\ nops' = nops + 1
  /\ act' = [name |-> "Put", P |-> P, N |-> N, S |-> S]

Matches(P, N, K) == {k \in DOMAIN bc : /\ (P = {} \/ k[1] \in P) /\ (N = {} \/ k[2] \in N)
                                       /\ (K = {} \/ k[3] \in K)}
DoClear(P, N, K) ==
  LET M == Matches(P, N, K)
  IN /\ bc' = Without(bc, M)
     /\ pdel' = pdel \cup M
     /\ pins' = Without(pins, M)
     /\ eff' = EffOf(bc')
     /\ UNCHANGED tbl

Clear(P, N, K) ==
  /\ nops < MaxOps
  /\ DoClear(P, N, K)
  /\ nops' = nops + 1
  /\ act' = [name |-> "Clear", P |-> P, N |-> N, K |-> K]

\* Expire: cycle-specific broadcasts for points earlier than the cutoff go; ALL never does.
Expire(c) ==
  /\ nops < MaxOps
  /\ LET P == {p \in CyclePoints : PointNum(p) < c}
     IN IF P = {} THEN UNCHANGED <<bc, tbl, pdel, pins, eff>> ELSE DoClear(P, {}, {})
  /\ nops' = nops + 1
  /\ act' = [name |-> "Expire", c |-> c]

Commit ==
  /\ (pdel # {} \/ pins # Empty)
  /\ tbl' = Committed(tbl, pdel, pins)
  /\ pdel' = {} /\ pins' = Empty
  /\ UNCHANGED <<bc, nops, eff>>
  /\ act' = [name |-> "Commit"]

\* Restart: the store is whatever the table holds after the final commit.
Restart ==
  /\ act.name # "Restart"
  /\ tbl' = Committed(tbl, pdel, pins)
  /\ bc' = tbl'
  /\ eff' = EffOf(bc')
  /\ pdel' = {} /\ pins' = Empty
  /\ UNCHANGED nops
  /\ act' = [name |-> "Restart"]

Next == \/ \E P \in PutPoints, N \in PutNS, S \in PutSettings : Put(P, N, S)
        \/ \E P \in ClrPoints, N \in ClrNS, K \in ClrKeys : Clear(P, N, K)
        \/ \E c \in Cutoffs : Expire(c)
        \/ Commit
        \/ Restart
Spec == Init /\ [][Next]_vars

-----------------------------------------------------------------------------
TypeOK == /\ DOMAIN bc \subseteq Cells /\ DOMAIN tbl \subseteq Cells
          /\ pdel \subseteq Cells /\ DOMAIN pins \subseteq Cells
          /\ \A k \in DOMAIN bc : bc[k] # Nil
          /\ eff = EffOf(bc)

\* C22 clause 1: what a task receives (mechanism: static, then ALL, then the
\* cycle, each root -> ... -> task) is, leaf by leaf, the value of the most
\* specific broadcast, else the static value.
C22_Precedence ==
  \A task \in Tasks, cyc \in CyclePoints, q \in Paths :
     At(eff, <<task, cyc, q>>) = GetDecl(bc, task, cyc, q)

\* C22 clause 4: at every moment a clean stop + restart reproduces the store
\* exactly (= the table after the pending transaction holds exactly its leaves).
C22_RestartIdentical == Committed(tbl, pdel, pins) = bc
RestartStep == act'.name = "Restart" => bc' = bc
C22_RestartIdenticalStep == [][RestartStep]_vars

\* C22 clause 2: Clear removes exactly the targeted leaves.
ClearExactStep ==
  act'.name = "Clear" =>
    \A k \in Cells :
       At(bc', k) = IF /\ (act'.P = {} \/ k[1] \in act'.P) /\ (act'.N = {} \/ k[2] \in act'.N)
                       /\ (act'.K = {} \/ k[3] \in act'.K)
                    THEN Nil ELSE At(bc, k)
C22_ClearExact == [][ClearExactStep]_vars

\* C22 clause 3: Expire removes cycle-specific broadcasts earlier than the cutoff only.
ExpireStep ==
  act'.name = "Expire" =>
    \A k \in Cells :
       At(bc', k) = IF k[1] # ALL /\ PointNum(k[1]) < act'.c THEN Nil ELSE At(bc, k)
C22_ExpireOnlyEarlierCycle == [][ExpireStep]_vars

\* Put sets exactly the given leaves, a later dictionary of the list winning (sanity)
PutStep ==
  act'.name = "Put" =>
    \A k \in Cells :
       At(bc', k) = IF k[1] \in act'.P /\ k[2] \in act'.N /\ k[3] \in DOMAIN OverSeq(Empty, act'.S)
                    THEN OverSeq(Empty, act'.S)[k[3]] ELSE At(bc, k)
PutExact == [][PutStep]_vars
=============================================================================
