------------------------------- MODULE Install -------------------------------
(* C48: installed run directories are numbered and runN tracks the latest.   *)
(*                                                                           *)
(* State machine of ONE workflow directory ~/cylc-run/<wf>:                  *)
(*   runs : the run directories that exist, each with a content stamp        *)
(*          (names run1, run2, ... ; explicit run names ; FLAT = the workflow*)
(*          directory itself used as the run directory, --no-run-name)       *)
(*   runN : the target of the runN symlink (NONE when there is no symlink)   *)
(*   hist : the operations attempted so far and their outcome (history var;  *)
(*          it makes every TLC state one behaviour prefix, so the dumped     *)
(*          states ARE the set of behaviours of length <= MaxOps)            *)
(*   ever : run numbers ever allocated (history variable, for the strict     *)
(*          reading of "without reusing a number", reported as observation)  *)
(*                                                                           *)
(* One action per operation of the user interface; the numbered install is   *)
(* written as the algorithm of its critical section (choose the number from  *)
(* runN if the link is usable, else from the directory names; unlink runN;   *)
(* refuse if the directory exists; create; relink) so that the C48 clauses   *)
(* are theorems about the reachable states that TLC has to establish, not    *)
(* restatements of the action.                                               *)
EXTENDS Naturals, Sequences, FiniteSets, TLC

CONSTANTS MaxOps,      \* bound on the number of operations in a history
          RunNames,    \* explicit run names tried with --run-name
          Priors       \* states the directory may be in at the start: sets of run numbers P, standing for the
                       \* earlier history "install run1 .. run<max P> one after the other, then clean every run
                       \* not in P" (the highest run survives, so runN points to it).  {} = a fresh directory.

FLAT == "FLAT"
NONE == "none"
Max(S) == IF S = {} THEN 0 ELSE CHOOSE m \in S : \A x \in S : x <= m
MaxNum == MaxOps + 1 + Max(UNION Priors)
RunName(i) == "run" \o ToString(i)
Numbered == {RunName(i) : i \in 1..MaxNum}
Num(r) == CHOOSE i \in 1..MaxNum : RunName(i) = r
AllNames == Numbered \cup RunNames \cup {FLAT}

VARIABLES runs, runN, hist, ever
vars == <<runs, runN, hist, ever>>

Dirs == DOMAIN runs
NumberedDirs == Dirs \cap Numbered
NamedDirs == Dirs \cap RunNames
HasFlat == FLAT \in Dirs
Stamp == Len(hist) + 1          \* the source is edited before every operation
Without(f, r) == [x \in DOMAIN f \ {r} |-> f[x]]
With(f, r, v) == [x \in DOMAIN f \cup {r} |-> IF x = r THEN v ELSE f[x]]

Log(op, arg, ok, new, reuse) ==
  hist' = Append(hist, [op |-> op, arg |-> arg, ok |-> ok, new |-> new, reuse |-> reuse])
Refuse(op, arg) == Log(op, arg, FALSE, NONE, FALSE) /\ UNCHANGED <<runs, runN, ever>>

RECURSIVE NumList(_)
NumList(P) == IF P = {} THEN "" ELSE LET m == CHOOSE x \in P : \A y \in P : x <= y
                                      IN ToString(m) \o (IF P = {m} THEN "" ELSE "," \o NumList(P \ {m}))
\* the earlier history is logged as one pseudo-operation "prior" (it counts as one of the MaxOps operations)
Init == \E P \in Priors :
          IF P = {} THEN runs = [x \in {} |-> 0] /\ runN = NONE /\ hist = <<>> /\ ever = {}
          ELSE /\ runs = [x \in {RunName(i) : i \in P} |-> 1]
               /\ runN = RunName(Max(P))
               /\ ever = 1..Max(P)
               /\ hist = <<[op |-> "prior", arg |-> NumList(P), ok |-> TRUE, new |-> RunName(Max(P)), reuse |-> FALSE]>>

\* get_next_rundir_number: from runN when the link exists and resolves, else from the names.
RunNUsable == runN # NONE /\ runN \in Dirs
NextNum == IF RunNUsable THEN Num(runN) + 1
           ELSE Max({Num(r) : r \in NumberedDirs}) + 1

\* cylc install  (numbered)
Install ==
  LET n == NextNum
      new == RunName(n) IN
  IF NamedDirs # {} \/ HasFlat
    THEN Refuse("install", "")              \* "--run-name required" / nested run dirs
  ELSE IF new \in Dirs
    THEN \* collision: refused, but runN has already been unlinked by then
         /\ runN' = NONE /\ UNCHANGED <<runs, ever>>
         /\ Log("install", "", FALSE, NONE, FALSE)
  ELSE /\ runs' = With(runs, new, Stamp)
       /\ runN' = new
       /\ ever' = ever \cup {n}
       /\ Log("install", "", TRUE, new, n \in ever)

\* cylc install --run-name=name
InstallRunName(name) ==
  IF NumberedDirs # {} \/ HasFlat \/ name \in Dirs
    THEN Refuse("install-run-name", name)
  ELSE /\ runs' = With(runs, name, Stamp)
       /\ UNCHANGED <<runN, ever>>
       /\ Log("install-run-name", name, TRUE, name, FALSE)

\* cylc install --no-run-name
InstallNoRunName ==
  IF Dirs # {}
    THEN Refuse("install-no-run-name", "")
  ELSE /\ runs' = With(runs, FLAT, Stamp)
       /\ UNCHANGED <<runN, ever>>
       /\ Log("install-no-run-name", "", TRUE, FLAT, FALSE)

\* cylc reinstall <wf>/<run>: the one operation that is allowed to change an existing run dir
Reinstall(r) ==
  /\ r \in Dirs
  /\ runs' = [runs EXCEPT ![r] = Stamp]
  /\ UNCHANGED <<runN, ever>>
  /\ Log("reinstall", r, TRUE, NONE, FALSE)

\* cylc clean <wf>/<run>: removes the run dir; removes runN if it pointed to it
Clean(r) ==
  /\ r \in Dirs
  /\ runs' = Without(runs, r)
  /\ runN' = IF runN = r THEN NONE ELSE runN
  /\ UNCHANGED ever
  /\ Log("clean", r, TRUE, NONE, FALSE)

Next ==
  /\ Len(hist) < MaxOps
  /\ \/ Install
     \/ \E name \in RunNames : InstallRunName(name)
     \/ InstallNoRunName
     \/ \E r \in AllNames : Reinstall(r)
     \/ \E r \in AllNames : Clean(r)

Spec == Init /\ [][Next]_vars

-----------------------------------------------------------------------------
TypeOK ==
  /\ Dirs \subseteq AllNames
  /\ \A r \in Dirs : runs[r] \in 1..MaxOps
  /\ runN \in Numbered \cup {NONE}
  /\ Len(hist) <= MaxOps

\* the three kinds of install never coexist
Exclusive ==
  /\ (HasFlat => Dirs = {FLAT})
  /\ ~(NumberedDirs # {} /\ NamedDirs # {})

InstallOps == {"install", "install-run-name", "install-no-run-name"}
LastNumberedInstall ==
  LET I == {i \in 1..Len(hist) : hist[i].op \in {"install", "prior"} /\ hist[i].ok} IN
  IF I = {} THEN NONE ELSE hist[Max(I)].new

\* runN, while it exists, points to an existing run, the highest-numbered one,
\* which is the most recently installed numbered run
C48_RunNState ==
  runN # NONE =>
    /\ runN \in NumberedDirs
    /\ \A r \in NumberedDirs : Num(r) <= Num(runN)
    /\ runN = LastNumberedInstall

\* the number the next numbered install would take is never taken
C48_NextIsFree == RunName(NextNum) \notin Dirs

\* --- action properties (e = the operation just logged) ---
E == hist'[Len(hist')]

\* an install (of any kind) never changes or removes an existing run directory
C48_NeverOverwrite ==
  [][E.op \in InstallOps =>
       \A r \in DOMAIN runs : r \in DOMAIN runs' /\ runs'[r] = runs[r]]_vars

\* a new numbered run's number exceeds every existing run's number and, while runN
\* exists, the number it points to (the conservative reading of "without reusing a number")
C48_NumberFresh ==
  [][(E.op = "install" /\ E.ok) =>
       /\ E.new \in Numbered /\ E.new \notin DOMAIN runs
       /\ \A r \in NumberedDirs : Num(E.new) > Num(r)
       /\ (runN # NONE => Num(E.new) > Num(runN))]_vars

\* after every numbered install runN points to that run
C48_RunNIsLatest ==
  [][(E.op = "install" /\ E.ok) => (runN' = E.new /\ E.new \in DOMAIN runs')]_vars

\* successive numbered installs are never refused (so they do create run1, run2, ...)
C48_SuccessiveInstalls ==
  [][(E.op = "install" /\ NamedDirs = {} /\ ~HasFlat) => E.ok]_vars

\* --- strict reading, NOT a claimed invariant: no number is ever allocated twice.  ---
\* TLC refutes it (install, install, clean run2, install); reported as an observation.
Strict_NeverReuseEver == \A i \in 1..Len(hist) : ~hist[i].reuse
=============================================================================
