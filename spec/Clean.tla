-------------------------------- MODULE Clean --------------------------------
(* C38: `cylc clean` deletes only inside the workflow.                       *)
(*                                                                           *)
(* A case is a run-directory tree t plus one --rm pattern (or no pattern =   *)
(* wholesale clean).  The module defines, from the documented meaning of     *)
(* `cylc clean --rm` (shell-style globs relative to the run directory, `**`  *)
(* recursive, trailing `/` = directories only, symlinks other than the       *)
(* standard symlink dirs are never followed), which paths are matched and    *)
(* which nodes must be gone afterwards.  TLC enumerates all trees of at most *)
(* MaxNodes nodes x all relevant patterns as initial states, checks the      *)
(* containment clauses on the definition, and every state is materialised on *)
(* disk and given to cylc.flow.clean.                                        *)
(*                                                                           *)
(* Tree universe (logical paths relative to the run dir):                    *)
(*   <root>            real dir | standard symlink ("run" symlink dir)       *)
(*   a, a/x            file | dir                                            *)
(*   .h                hidden file                                           *)
(*   l | a/l | share/l a NON-standard symlink: to a directory outside (that  *)
(*                     contains a file x), to a file outside, broken, or to  *)
(*                     the directory a inside the run dir                    *)
(*   share, share/cycle, W (= work or log)   real dir | standard symlink dir *)
(*   share/x, share/cycle/x, W/x             files                           *)
(* Node kinds: dir file std outdir outfile broken indir, and "outnode" for   *)
(* the file that lives in the outside directory behind an outdir link.       *)
EXTENDS Naturals, Sequences, FiniteSets, TLC

CONSTANTS MaxNodes,    \* bound on the number of nodes in the run dir (the root excluded)
          AllDirOnly,  \* TRUE: every pattern also with a trailing "/"; FALSE: only where that can matter
          Roots,       \* kinds of run dir enumerated: subset of {"real", "std"} (lets the harness split the
                       \* enumeration over several TLC processes)
          WNames       \* names used for the third standard symlink dir: subset of {"work", "log"}

Shapes ==
  [ root : Roots,
    a : {"no", "file", "dir"}, ax : {"no", "file", "dir"}, hid : {"no", "file"},
    lk : {"no", "outdir", "outfile", "broken", "indir"}, lkpos : {"top", "a", "share"},
    share : {"no", "dir", "std"}, sx : {"no", "file"},
    cycle : {"no", "dir", "std"}, cx : {"no", "file"},
    w : {"no", "dir", "std"}, wname : WNames, wx : {"no", "file"} ]

B(x) == IF x = "no" THEN 0 ELSE 1
Size(t) == B(t.a) + B(t.ax) + B(t.hid) + B(t.lk) + B(t.share) + B(t.sx) + B(t.cycle) + B(t.cx) + B(t.w) + B(t.wx)

LegalTree(t) ==
  /\ Size(t) <= MaxNodes
  /\ (t.ax # "no" => t.a = "dir")
  /\ (t.sx # "no" => t.share # "no")
  /\ (t.cycle # "no" => t.share # "no")
  /\ (t.cx # "no" => t.cycle # "no")
  /\ (t.wx # "no" => t.w # "no")
  /\ (t.w = "no" => t.wname = CHOOSE n \in WNames : TRUE)
  /\ (t.lk = "no" => t.lkpos = "top")
  /\ (t.lkpos = "a" => t.a = "dir")
  /\ (t.lkpos = "share" => t.share # "no")
  /\ (t.lk = "indir" => t.a = "dir" /\ t.lkpos # "a")

LinkPath(t) == CASE t.lkpos = "top" -> <<"l">> [] t.lkpos = "a" -> <<"a", "l">> [] t.lkpos = "share" -> <<"share", "l">>

Opt(cond, path, kind) == IF cond THEN {<<path, kind>>} ELSE {}
Entries(t) ==
  {<< <<>>, IF t.root = "std" THEN "std" ELSE "dir" >>}
  \cup Opt(t.a # "no", <<"a">>, t.a)
  \cup Opt(t.ax # "no", <<"a", "x">>, t.ax)
  \cup Opt(t.hid # "no", <<".h">>, "file")
  \cup Opt(t.lk # "no", LinkPath(t), t.lk)
  \cup Opt(t.lk = "outdir", LinkPath(t) \o <<"x">>, "outnode")
  \cup Opt(t.share # "no", <<"share">>, t.share)
  \cup Opt(t.sx # "no", <<"share", "x">>, "file")
  \cup Opt(t.cycle # "no", <<"share", "cycle">>, t.cycle)
  \cup Opt(t.cx # "no", <<"share", "cycle", "x">>, "file")
  \cup Opt(t.w # "no", <<t.wname>>, t.w)
  \cup Opt(t.wx # "no", <<t.wname, "x">>, "file")

\* kind function of a tree: logical path -> kind (computed once per tree)
KindFn(t) == LET ents == Entries(t) IN
  [p \in {e[1] : e \in ents} |-> (CHOOSE e \in ents : e[1] = p)[2]]

\* All operators below take K = KindFn(t).
IsPrefix(p, q) == Len(p) <= Len(q) /\ SubSeq(q, 1, Len(p)) = p
\* what clean may walk through: real directories and the standard symlink dirs, nothing else
Traversable(k) == k \in {"dir", "std"}
\* what a trailing "/" (and a trailing "**" matching zero components) accepts: anything that IS a directory
\* when looked at through symlinks
DirLike(k) == k \in {"dir", "std", "outdir", "indir"}
Hidden(name) == name = ".h"

\* every proper prefix of p (the run dir included) is traversable
Walkable(K, p) == \A i \in 0..(Len(p) - 1) : Traversable(K[SubSeq(p, 1, i)])
Inside(K) == {p \in DOMAIN K : Walkable(K, p)}
OutNodes(K) == {p \in DOMAIN K : K[p] = "outnode"}

\* component-wise glob:  literal | "*" (one non-hidden component) | "**" (zero or more non-hidden components)
\* fullkind = kind of the whole candidate path (needed when a trailing "**" matches zero components:
\* "a/**" yields "a/" only if a is a directory)
RECURSIVE M(_, _, _)
M(pat, rest, fullkind) ==
  IF pat = <<>> THEN rest = <<>>
  ELSE LET c == Head(pat) IN
    IF c = "**" THEN
      IF Len(pat) = 1
        THEN IF rest = <<>> THEN DirLike(fullkind)
             ELSE \A i \in 1..Len(rest) : ~Hidden(rest[i])
        ELSE \/ M(Tail(pat), rest, fullkind)
             \/ (rest # <<>> /\ ~Hidden(Head(rest)) /\ M(pat, Tail(rest), fullkind))
    ELSE IF c = "*" THEN rest # <<>> /\ ~Hidden(Head(rest)) /\ M(Tail(pat), Tail(rest), fullkind)
    ELSE rest # <<>> /\ Head(rest) = c /\ M(Tail(pat), Tail(rest), fullkind)

\* pat = <<>> is the wholesale clean (no --rm): it "matches" the run directory itself
Match(K, pat, donly, p) ==
  /\ Walkable(K, p)
  /\ M(pat, p, K[p])
  /\ (donly => DirLike(K[p]))

Matched(K, pat, donly) == {p \in DOMAIN K : Match(K, pat, donly, p)}

\* a node is gone iff a matched path is a prefix of it and everything from the matched path down to
\* its parent is traversable (deleting a non-standard symlink does not delete what is behind it)
GoneFrom(K, mset) ==
  {q \in DOMAIN K : \E p \in mset :
      /\ IsPrefix(p, q)
      /\ \A i \in Len(p)..(Len(q) - 1) : Traversable(K[SubSeq(q, 1, i)])}

\* ---- patterns ----
C1(wn) == {"a", "l", ".h", "share", wn, "zz", "*", "**"}
C2a(wn) == {"a", "l", "share", wn, "*", "**"}
C2b == {"x", "l", "cycle", "*", "**"}
C3a == {"share", "*", "**"}
C3b == {"cycle", "l", "*"}
C3c == {"x", "*", "**"}
AllPats(wn) ==
  {<<c>> : c \in C1(wn)}
  \cup {<<c1, c2>> : c1 \in C2a(wn), c2 \in C2b}
  \cup {<<c1, c2, c3>> : c1 \in C3a, c2 \in C3b, c3 \in C3c}
NoDoubleStar(p) == \A i \in 1..(Len(p) - 1) : ~(p[i] = "**" /\ p[i + 1] = "**")
\* A pattern is relevant for a tree when a plain glob that follows every symlink would return something for
\* it (this keeps exactly the dangerous patterns that reach through non-standard links); "zz" is the no-match pattern.

\* The cases of one tree: the wholesale clean, and every relevant pattern without trailing slash and -- all of
\* them, or (quick tier) only for patterns that end in a wildcard or whose match set changes -- with it.
\* (One glob evaluation per pattern: G = what a link-following glob returns; the match set is G restricted to
\* walkable paths, and to directories for a trailing slash.  MatchedIsDefinition checks it against Matched.)
CasesFor(K, wn) ==
  {[p |-> <<>>, d |-> FALSE, m |-> Matched(K, <<>>, FALSE)]}
  \cup UNION {
      LET G  == {q \in DOMAIN K : M(p, q, K[q])}
          mf == {q \in G : Walkable(K, q)}
          mt == {q \in mf : DirLike(K[q])}
      IN IF G = {} /\ p # <<"zz">> THEN {}
         ELSE {[p |-> p, d |-> FALSE, m |-> mf]}
              \cup (IF AllDirOnly \/ p[Len(p)] \in {"*", "**"} \/ mt # mf
                    THEN {[p |-> p, d |-> TRUE, m |-> mt]} ELSE {})
      : p \in {q \in AllPats(wn) : NoDoubleStar(q)}}

RECURSIVE Join(_)
Join(p) == IF Len(p) = 1 THEN p[1] ELSE p[1] \o "/" \o Join(Tail(p))
Text(p, donly) == IF p = <<>> THEN "" ELSE Join(p) \o (IF donly THEN "/" ELSE "")

\* the legal trees, built group by group (same set as {t \in Shapes : LegalTree(t)}, far fewer candidates)
AGroup == {<<"no", "no">>, <<"file", "no">>, <<"dir", "no">>, <<"dir", "file">>, <<"dir", "dir">>}
SGroup == {<<"no", "no", "no", "no">>}
          \cup {<<s, sx, "no", "no">> : s \in {"dir", "std"}, sx \in {"no", "file"}}
          \cup {<<s, sx, c, cx>> : s \in {"dir", "std"}, sx \in {"no", "file"}, c \in {"dir", "std"}, cx \in {"no", "file"}}
WGroup == {<<"no", CHOOSE n \in WNames : TRUE, "no">>}
          \cup {<<w, n, wx>> : w \in {"dir", "std"}, n \in WNames, wx \in {"no", "file"}}
LGroup == {<<"no", "top">>}
          \cup {<<k, pos>> : k \in {"outdir", "outfile", "broken", "indir"}, pos \in {"top", "a", "share"}}
Trees ==
  {t \in {[root |-> r, a |-> ag[1], ax |-> ag[2], hid |-> h, lk |-> lg[1], lkpos |-> lg[2],
           share |-> sg[1], sx |-> sg[2], cycle |-> sg[3], cx |-> sg[4],
           w |-> wg[1], wname |-> wg[2], wx |-> wg[3]] :
             r \in Roots, ag \in AGroup, h \in {"no", "file"}, lg \in LGroup, sg \in SGroup, wg \in WGroup} :
     LegalTree(t)}
ASSUME Trees \subseteq Shapes

VARIABLES tree, pattern, dironly, text, kinds, matched, gone
vars == <<tree, pattern, dironly, text, kinds, matched, gone>>

Init ==
  /\ tree \in Trees
  /\ kinds = KindFn(tree)
  /\ \E c \in CasesFor(kinds, tree.wname) :
        /\ pattern = c.p /\ dironly = c.d /\ matched = c.m
        /\ text = Text(c.p, c.d)
        /\ gone = GoneFrom(kinds, c.m)
Next == UNCHANGED vars
Spec == Init /\ [][Next]_vars

\* ---- the C38 clauses, on the definition ----
\* only paths inside the run dir or inside the targets of its standard symlink dirs are deleted
C38_OnlyInside == gone \subseteq Inside(kinds)
\* what lies behind a non-standard symlink is never deleted
C38_NoFollowOtherLinks ==
  /\ gone \cap OutNodes(kinds) = {}
  /\ \A q \in gone : \A i \in 0..(Len(q) - 1) :
        kinds[SubSeq(q, 1, i)] \notin {"outdir", "outfile", "broken", "indir"}
\* every matched path is deleted (and everything below it that belongs to the workflow)
C38_AllMatchesGone == matched \subseteq gone
\* the wholesale clean removes the whole workflow, a no-match pattern removes nothing
WholesaleAll == pattern = <<>> => gone = Inside(kinds)
NoMatchNothing == matched = {} => gone = {}
\* the enumeration above agrees with the definition of the match set
MatchedIsDefinition == matched = Matched(kinds, pattern, dironly)
=============================================================================
