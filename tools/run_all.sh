#!/bin/sh
# run every registered quick (or $1) check sequentially with VERIF_SEED (default 0); summary in /tmp/run_all_s$SEED.out
tier=${1:-quick}
seed=${VERIF_SEED:-0}
cd /verif
out=/tmp/run_all_s$seed.out
mkdir -p /tmp/run_all_s$seed
: > $out
for f in checks.d/C*.json; do
  p=$(basename $f .json)
  s=$(date +%s)
  VERIF_SEED=$seed VERIF_NO_EVIDENCE=${VERIF_NO_EVIDENCE:-} timeout -s KILL 1800 ./check $p --tier $tier > /tmp/run_all_s$seed/$p.log 2>&1
  rc=$?
  e=$(date +%s)
  echo "$p rc=$rc wall=$((e-s))s $(grep -c '^VIOLATION' /tmp/run_all_s$seed/$p.log) violations $(grep -c '^KNOWN-FINDING' /tmp/run_all_s$seed/$p.log) known" >> $out
done
echo DONE >> $out
