#!/bin/sh
# run every registered quick (or $1) check sequentially; summary in /tmp/run_all.out
tier=${1:-quick}
cd /verif
: > /tmp/run_all.out
for f in checks.d/C*.json; do
  p=$(basename $f .json)
  s=$(date +%s)
  timeout -s KILL 1800 ./check $p --tier $tier > /tmp/run_all_$p.log 2>&1
  rc=$?
  e=$(date +%s)
  echo "$p rc=$rc wall=$((e-s))s $(grep -c '^VIOLATION' /tmp/run_all_$p.log) violations $(grep -c '^KNOWN-FINDING' /tmp/run_all_$p.log) known" >> /tmp/run_all.out
done
echo DONE >> /tmp/run_all.out
