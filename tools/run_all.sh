#!/bin/sh
# run every registered quick (or $1) check sequentially with VERIF_SEED (default 0); summary in /tmp/run_all_s$SEED.out
# SNAP=1: run from a snapshot of /verif and of /repo HEAD (so that work can go on in both while it runs; no evidence)
tier=${1:-quick}
seed=${VERIF_SEED:-0}
out=/tmp/run_all_s$seed.out
mkdir -p /tmp/run_all_s$seed
: > $out
dir=/verif
if [ -n "$SNAP" ]; then
  dir=/dev/shm/vsnap-$seed
  rm -rf $dir; mkdir -p $dir
  rsync -a --exclude .git --exclude replays --exclude evidence /verif/ $dir/
  mkdir -p $dir/evidence $dir/replays
  wt=/tmp/rsnap-$seed
  git -C /repo worktree remove --force $wt 2>/dev/null
  git -C /repo worktree add -q --detach $wt HEAD
  export PYTHONPATH=$wt
  export VERIF_NO_EVIDENCE=1
fi
cd $dir
for f in checks.d/C*.json; do
  p=$(basename $f .json)
  s=$(date +%s)
  VERIF_SEED=$seed VERIF_NO_EVIDENCE=${VERIF_NO_EVIDENCE:-} timeout -s KILL 1800 ./check $p --tier $tier > /tmp/run_all_s$seed/$p.log 2>&1
  rc=$?
  e=$(date +%s)
  echo "$p rc=$rc wall=$((e-s))s $(grep -c '^VIOLATION' /tmp/run_all_s$seed/$p.log) violations $(grep -c '^KNOWN-FINDING' /tmp/run_all_s$seed/$p.log) known" >> $out
done
echo DONE >> $out
if [ -n "$SNAP" ]; then
  git -C /repo worktree remove --force $wt
  rm -rf $dir
fi
