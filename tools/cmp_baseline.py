#!/venv/bin/python
"""Compare a junit xml with BASELINE.json stable_pass: tools/cmp_baseline.py junit.xml"""
import json, sys, xml.etree.ElementTree as ET
base = json.load(open('/root/.vp/BASELINE.json'))
stable = set(base['stable_pass'])
res = {}
for tc in ET.parse(sys.argv[1]).getroot().iter('testcase'):
    name = tc.get('name'); cls = tc.get('classname')
    base_name = name.split('[')[0]
    ok = not any(c.tag in ('failure', 'error') for c in tc)
    skipped = any(c.tag == 'skipped' for c in tc)
    for key in (f"{cls}::{name}", f"{cls}::{base_name}"):
        if skipped: continue
        res[key] = res.get(key, True) and ok
bad = sorted(k for k in stable if k in res and not res[k])
missing = sorted(k for k in stable if k not in res)
print("stable:", len(stable), "seen:", sum(1 for k in stable if k in res), "failing stable:", len(bad), "missing:", len(missing))
for b in bad: print("FAIL", b)
for m in missing[:15]: print("MISSING", m)
