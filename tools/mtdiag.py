#!/venv/bin/python
"""Diagnose a model-trace divergence: tools/mtdiag.py '<features json>' WF_SEED RUN STEP [NRUNS]
Prints the logged state before the step, the logged state after it, and every successor the model's
action has from the state before (so that the difference can be read off)."""
import os, sys, json, tempfile, shutil, re
sys.path.insert(0, '/verif'); os.environ['CYLC_FLOW_VERIF'] = '1'
from harness.engines import schedmt
from harness import tlc
feats = dict(schedmt.BASE_FEATURES); feats.update(json.loads(sys.argv[1]))
seed, run, step = int(sys.argv[2]), int(sys.argv[3]), int(sys.argv[4])
nruns = int(sys.argv[5]) if len(sys.argv) > 5 else 4
commands = bool(int(os.environ.get("MT_COMMANDS", "0")))
scratch = tempfile.mkdtemp(prefix='mtdiag-', dir='/dev/shm')
try:
    wf = schedmt._one_wf({"seed": seed, "scratch": scratch, "features": feats, "nruns": nruns, "commands": commands, "manual": bool(int(os.environ.get("MT_MANUAL", "0")))})
    if "error" in wf:
        print(wf["error"]); sys.exit(2)
    print(wf["flow"])
    d = wf["dir"]
    back = int(os.environ.get("MT_BACK", "0"))      # start that many logged steps earlier (e.g. to have db set by StopNow)
    with open(os.path.join(d, "Diag.tla"), "w") as f:
        f.write("""---- MODULE Diag ----
EXTENDS SchedMT
R == MT_Runs[%d]
DInit == LET s == R[%d].st IN
  /\\ pool = AsModelPool(s.pool) /\\ rhl = s.rhl /\\ rhbase = s.rhbase /\\ q = s.q /\\ cmds = s.cmds /\\ jobs = s.jobs
  /\\ net = s.net /\\ acks = s.acks /\\ stopped = s.stopped /\\ futseen = s.futseen /\\ maxfut = s.maxfut
  /\\ tohold = s.tohold /\\ holdpt = s.holdpt /\\ stopcmd = (IF s.stop = W.fcp THEN NoPoint ELSE s.stop) /\\ cb = 9 /\\ trig = s.trig /\\ fset = {}
  /\\ done = OutsOf(s.pool) /\\ ran = {} /\\ fb = [dup |-> 0, crash |-> 0]
  /\\ db = [has |-> FALSE, pool |-> <<>>, tohold |-> {}, holdpt |-> NoPoint, stopcmd |-> NoPoint]
  /\\ tid = %d /\\ l = %d /\\ bad = {}
DNext == \\/ l < %d /\\ Strict(R[l + 1]) /\\ l' = l + 1 /\\ UNCHANGED <<tid, bad>>
         \\/ l = %d /\\ Act(R[l + 1]) /\\ l' = l + 1 /\\ UNCHANGED <<tid, bad>>
            /\\ PrintT(<<"SUCC", trig', pool', rhl', rhbase', futseen', maxfut', tohold', holdpt', stopcmd', q', cmds', jobs', net', acks', stopped'>>)
DSpec == DInit /\\ [][DNext]_mtvars
====
""" % (run, step - 1 - back, run, step - 1 - back, step - 1, step - 1))
    with open(os.path.join(d, "Diag.cfg"), "w") as f:
        f.write(open(os.path.join(d, "RunMT.cfg")).read().replace("SPECIFICATION MTSpec", "SPECIFICATION DSpec"))
    res = tlc.run_tlc(os.path.join(d, "Diag.tla"), os.path.join(d, "Diag.cfg"), workers=1, timeout=600, scratch=d, heap="2g")
    data = open(os.path.join(d, "MTData.tla")).read()
    import importlib
    from harness.sched import modeltrace
    # re-run to get the python-side states (deterministic)
    from harness.sched import gen
    import random
    rng = random.Random(seed); w = gen.generate(rng, features=feats)
    steps = None
    for k in range(run):
        home = tempfile.mkdtemp(prefix="r", dir=scratch)
        plan = modeltrace.command_plan(w, rng, manual=bool(int(os.environ.get("MT_MANUAL", "0")))) if commands and k % 2 == 1 else None
        r = modeltrace.one_mt_run(w, rng.randrange(1 << 30), rng.randrange(1 << 30), home,
                                  mode="complete_novanish" if k % 4 < 2 else "any_novanish", plan=plan)
        steps = r["steps"]
    a, b = steps[step - 2], steps[step - 1]
    print("EVENT", b["ev"], b["arg"], "(harness event index %d)" % b["i"])
    def show(tag, st):
        print(tag)
        for k, v in st.items():
            if k == "pool":
                for i, t in v.items():
                    print("   ", i, json.dumps(t))
            else:
                print("  ", k, json.dumps(v))
    show("BEFORE", a["st"]); show("AFTER (logged)", b["st"])
    print("MODEL SUCCESSORS:")
    for m in re.finditer(r'<<\s*"SUCC".*?(?=\n<<\s*"SUCC"|\nModel checking|\nError|\Z)', res.out, re.S):
        print(re.sub(r"\s+", " ", m.group(0))[:6000])
    if '"SUCC"' not in res.out:
        print("  (none: the action is not enabled in the state before)")
        print(res.out[-1500:] if not res.ok else "")
finally:
    shutil.rmtree(scratch, ignore_errors=True)
