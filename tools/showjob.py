#!/venv/bin/python
"""Re-run the job of a replay file and print compact events around an index: showjob.py replay.json [idx] [width]"""
import os, sys, json, tempfile, shutil
sys.path.insert(0, '/verif'); os.environ['CYLC_FLOW_VERIF'] = '1'
if os.environ.get("PYTHONHASHSEED") != "0":
    os.environ["PYTHONHASHSEED"] = "0"; os.execv(sys.executable, [sys.executable] + sys.argv)
from harness.sched import runner
rep = json.load(open(sys.argv[1]))["replay"]
idx = int(sys.argv[2]) if len(sys.argv) > 2 else rep.get("event_index")
width = int(sys.argv[3]) if len(sys.argv) > 3 else 15
job = dict(rep["job"]); job["scratch"] = tempfile.mkdtemp(prefix='sj-', dir='/dev/shm')
r = runner.one_run(job); shutil.rmtree(job["scratch"], ignore_errors=True)
if 'error' in r: print(r['error']); sys.exit(1)
print(r['flow'])
for e in r['events']:
    if not (idx - width <= e['i'] <= idx + 2): continue
    t = e.get('t') or {}; b = e.get('b') or {}
    extra = {k: v for k, v in e.items() if k not in ('t', 'b', 'sync', 'db', 'cx', 'i', 'e')}
    print(e['i'], e['e'], e.get('cx'), 'B:', b.get('st'), b.get('sub'), b.get('etry'), b.get('outs'), 'T:', t.get('id'), t.get('st'), t.get('sub'), t.get('etry'), t.get('outs'), t.get('flows'), json.dumps(extra)[:300])
