#!/venv/bin/python
"""Run one model-checking config: tools/mc.py MC_base [cfgname] [workers]"""
import sys, os
sys.path.insert(0, '/verif')
from harness import tlc
name = sys.argv[1]; cfg = sys.argv[2] if len(sys.argv) > 2 else name
workers = int(sys.argv[3]) if len(sys.argv) > 3 else 8
d = '/verif/spec/mc'
try:
    r = tlc.run_tlc(f'{d}/{name}.tla', f'{d}/{cfg}.cfg', workers=workers, timeout=3000, heap='8g', extra=sys.argv[4:])
except tlc.TLCError as e:
    print(str(e)[-6000:]); sys.exit(2)
print('ok', r.ok, 'kind', r.kind, r.violated, 'distinct', r.distinct, 'generated', r.generated, 'depth', r.depth, 'wall', round(r.wall_s,1))
if not r.ok:
    print(r.out[-7000:])
