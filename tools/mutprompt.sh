#!/bin/sh
# usage: tools/mutprompt.sh Cnn /tmp/mut-Cnn  -> prints the prompt for a seeding sub-agent
P=$(jq -r "select(.id==\"$1\") | \"\(.title).\n\(.statement)\"" /verif/properties.jsonl)
/venv/bin/python - "$2" "$P" <<'PY'
import sys
t = open('/verif/tools/mutant_prompt.txt').read()
print(t.replace('__WT__', sys.argv[1]).replace('__PROP__', sys.argv[2]))
PY
