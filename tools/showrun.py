#!/venv/bin/python
"""Debug helper: re-run one scenario seed and print events around an index.  usage: showrun.py SEED SCENARIO [IDX] [WIDTH]"""
import os, sys, json, tempfile, shutil
sys.path.insert(0, '/verif'); os.environ['CYLC_FLOW_VERIF'] = '1'
from harness.sched import runner
# (or: showrun.py '<job json>' [IDX] [WIDTH])
if sys.argv[1].lstrip().startswith('{'):
    job = json.loads(sys.argv[1]); sys.argv.insert(2, job["scenario"])
else:
    job = {"seed": int(sys.argv[1]), "scenario": sys.argv[2]}
idx = int(sys.argv[3]) if len(sys.argv) > 3 else None
width = int(sys.argv[4]) if len(sys.argv) > 4 else 12
scratch = tempfile.mkdtemp(prefix='show-', dir='/dev/shm')
r = runner.one_run(dict(job, scratch=scratch))
shutil.rmtree(scratch, ignore_errors=True)
if 'error' in r:
    print(r['error']); sys.exit(1)
print(r['flow']); print("end:", r['end'], "launches:", r['launches'])
def short(t):
    return {k: t[k] for k in ('id', 'st', 'rh', 'queued', 'held', 'sub', 'outs', 'flows', 'manual') if k in t}
for e in r['events']:
    if idx is not None and not (idx - width <= e['i'] <= idx + 3):
        continue
    d = {"i": e["i"], "e": e["e"], **{k: v for k, v in e.items() if k not in ("i", "e")}}
    for k in ('t', 'b'):
        if k in d: d[k] = short(d[k])
    if 'sync' in d:
        d['sync'] = {'pool': [short(t) for t in d['sync']['pool']], 'rhlimit': d['sync']['rhlimit']}
    if d['e'] in ('db_commit', 'loop_begin') and idx is None: continue
    print(json.dumps(d)[:900])
