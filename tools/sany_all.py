import glob, os, sys
V = os.path.dirname(os.path.dirname(os.path.abspath(__file__)))
sys.path.insert(0, V)
from harness import tlc
from concurrent.futures import ThreadPoolExecutor
mods = sorted(glob.glob(os.path.join(V, "spec", "**", "*.tla"), recursive=True))
def one(m):
    try:
        tlc.sany(m)
        return None
    except Exception as e:
        return f"{m}: {e}"
with ThreadPoolExecutor(8) as ex:
    errs = [e for e in ex.map(one, mods) if e]
for e in errs:
    print(e)
print(f"SANY: {len(mods)} modules, {len(errs)} errors")
sys.exit(1 if errs else 0)
