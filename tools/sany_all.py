import glob, os, sys
V = os.path.dirname(os.path.dirname(os.path.abspath(__file__)))
sys.path.insert(0, V)
from harness import tlc
from concurrent.futures import ThreadPoolExecutor
mods = sorted(glob.glob(os.path.join(V, "spec", "**", "*.tla"), recursive=True))
def one(m):
    try:
        if os.path.basename(m) == "SchedTrace.tla":
            # needs a per-run TraceData module: parse it through a stub
            import tempfile, shutil
            d = tempfile.mkdtemp(prefix="sany-")
            try:
                open(os.path.join(d, "TraceData.tla"), "w").write(
                    "---- MODULE TraceData ----\nEXTENDS Integers, Sequences, TLC\nRuns == <<>>\n====\n")
                open(os.path.join(d, "Run.tla"), "w").write("---- MODULE Run ----\nEXTENDS SchedTrace\n====\n")
                tlc.sany(os.path.join(d, "Run.tla"))
            finally:
                shutil.rmtree(d, ignore_errors=True)
            return None
        if os.path.basename(m) == "SchedMT.tla":
            import tempfile, shutil
            d = tempfile.mkdtemp(prefix="sany-")
            try:
                open(os.path.join(d, "MTData.tla"), "w").write(
                    "---- MODULE MTData ----\nEXTENDS Integers, Sequences, TLC\nMT_Runs == <<>>\nMT_Ends == <<>>\n====\n")
                open(os.path.join(d, "RunMT.tla"), "w").write("---- MODULE RunMT ----\nEXTENDS SchedMT\n====\n")
                tlc.sany(os.path.join(d, "RunMT.tla"))
            finally:
                shutil.rmtree(d, ignore_errors=True)
            return None
        tlc.sany(m)
        return None
    except Exception as e:
        return f"{m}: {e}"
with ThreadPoolExecutor(8) as ex:
    errs = [e for e in ex.map(one, mods) if e]
for e in errs:
    print(e)
print(f"SANY: {len(mods)} modules, {len(errs)} errors")
sys.exit(1 if errs else 0)
