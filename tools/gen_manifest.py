#!/venv/bin/python
"""Compose /verif/MANIFEST.json from checks.d/*.json fragments."""
import glob, json, os, sys
V = os.path.dirname(os.path.dirname(os.path.abspath(__file__)))
props = [json.loads(l)["id"] for l in open(os.path.join(V, "properties.jsonl"))]
base = json.load(open(os.path.join(V, "checks.d", "_manifest_base.json")))
checks, claimed = [], set()
for p in props:
    f = os.path.join(V, "checks.d", f"{p}.json")
    if not os.path.exists(f):
        continue
    c = json.load(open(f))
    c.pop("module", None)
    c["property_id"] = p
    c.setdefault("quick_cmd", f"./check {p} --tier quick")
    c.setdefault("thorough_cmd", f"./check {p} --tier thorough")
    c.setdefault("evidence_file", f"/verif/evidence/{p}.json")
    c.setdefault("replay_cmd_template", f"./check {p} --replay {{path}}")
    checks.append(c)
    claimed.add(p)
na_file = os.path.join(V, "checks.d", "_not_applicable.json")
na = json.load(open(na_file)) if os.path.exists(na_file) else {}
base["checks"] = checks
base["not_applicable"] = [
    {"property_id": p, "reason": na.get(p, "no check built yet for this property; see DESIGN.md section 6 for the planned TLA+ route")}
    for p in props if p not in claimed]
json.dump(base, open(os.path.join(V, "MANIFEST.json"), "w"), indent=1)
print(f"MANIFEST.json: {len(checks)} checks, {len(base['not_applicable'])} not_applicable")
try:
    import jsonschema
    jsonschema.validate(base, json.load(open("/root/.vp/MANIFEST.schema.json")))
    print("schema ok")
except ImportError:
    print("jsonschema not available; not validated")
