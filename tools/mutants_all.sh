#!/bin/sh
# run every seeded change against the check(s) named in its meta.json ("ran": "tools/mutant.sh <name> <checks...>")
# output: /tmp/mutants_all.out   (one line per seeded change and check: DETECTED / MISSED)
: > /tmp/mutants_all.out
for d in /verif/seeded/*/; do
  n=$(basename $d)
  checks=$(/venv/bin/python -c "import json,sys; print(' '.join(json.load(open('$d/meta.json'))['ran'].split()[2:]))" 2>/dev/null)
  [ -z "$checks" ] && checks=$n
  out=$(/verif/tools/mutant.sh $n $checks 2>&1)
  for c in $checks; do
    line=$(echo "$out" | grep "^$n vs $c:")
    case "$line" in
      *"exit 1"*) echo "$n vs $c DETECTED $(echo "$out" | grep 'key=' | head -3 | tr -s ' ' | tr '\n' ';')" >> /tmp/mutants_all.out ;;
      *) echo "$n vs $c MISSED  $line" >> /tmp/mutants_all.out ;;
    esac
  done
done
echo DONE >> /tmp/mutants_all.out
