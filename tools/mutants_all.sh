#!/bin/sh
# run every seeded change against the check(s) named in its meta.json ("ran": "tools/mutant.sh <name> <checks...>")
# LANES (default 3) seeded changes are run concurrently.
# output: /tmp/mutants_all.out   (one line per seeded change and check: DETECTED / MISSED)
: > /tmp/mutants_all.out
one() {
  n=$1
  d=/verif/seeded/$n
  checks=$(/venv/bin/python -c "import json,sys; print(' '.join(json.load(open('$d/meta.json'))['ran'].split()[2:]))" 2>/dev/null)
  [ -z "$checks" ] && checks=$n
  out=$(/verif/tools/mutant.sh $n $checks 2>&1)
  for c in $checks; do
    line=$(echo "$out" | grep "^$n vs $c:")
    case "$line" in
      *"exit 1"*) echo "$n vs $c DETECTED $(echo "$out" | grep 'key=' | head -3 | tr -s ' ' | tr '\n' ';')" >> /tmp/mutants_all.out ;;
      *) echo "$n vs $c MISSED  $line" >> /tmp/mutants_all.out ;;
    esac
  done
}
lanes=${LANES:-3}
i=0
for d in /verif/seeded/*/; do
  i=$((i+1))
  eval "L$((i % lanes))=\"\$L$((i % lanes)) $(basename $d)\""
done
k=0
while [ $k -lt $lanes ]; do
  eval "list=\$L$k"
  ( for n in $list; do one $n; done ) &
  k=$((k+1))
done
wait
echo DONE >> /tmp/mutants_all.out
