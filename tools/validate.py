#!/usr/bin/env python3-vt
"""Validate MANIFEST.json and evidence files against the schemas (run with python3-vt)."""
import glob, json, sys, os
import jsonschema
V = os.path.dirname(os.path.dirname(os.path.abspath(__file__)))
bad = 0
man = json.load(open(f"{V}/MANIFEST.json"))
jsonschema.validate(man, json.load(open("/root/.vp/MANIFEST.schema.json")))
evs = json.load(open("/root/.vp/EVIDENCE.schema.json"))
for c in man["checks"]:
    f = c["evidence_file"]
    if not os.path.exists(f):
        print("missing", f); bad += 1; continue
    try:
        ev = json.load(open(f))
        jsonschema.validate(ev, evs)
        if ev["level"] != c["level_claimed"]["category"]:
            print("level mismatch", f); bad += 1
    except Exception as e:
        print("INVALID", f, str(e)[:300]); bad += 1
print(f"manifest ok; {len(man['checks'])} checks; {bad} evidence problems")
sys.exit(1 if bad else 0)
