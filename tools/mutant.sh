#!/bin/sh
# tools/mutant.sh <seeded-dir-name> <Cnn> [more checks...]: run checks against /repo HEAD + seeded/<name>/patch.diff in a scratch worktree
name=$1; shift
wt=/tmp/mutwt-$name-$$
git -C /repo worktree add -q --detach $wt HEAD || exit 2
if ! git -C $wt apply /verif/seeded/$name/patch.diff 2>/dev/null; then
  git -C $wt apply -3 /verif/seeded/$name/patch.diff || { echo "PATCH DOES NOT APPLY"; git -C /repo worktree remove --force $wt; exit 2; }
fi
for c in "$@"; do
  out=$(cd /verif && PYTHONPATH=$wt VERIF_NO_EVIDENCE=1 ./check $c ${TIER:+--tier $TIER} 2>&1)
  echo "$name vs $c: $(echo "$out" | tail -1)"
  echo "$out" | grep -A1 "^VIOLATION" | grep "key=" | sort | uniq -c | head -8
done
git -C /repo worktree remove --force $wt
