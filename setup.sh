#!/bin/sh
# setup_cmd: verify the offline toolchain and pre-parse every specification with SANY.
set -e
cd "$(dirname "$0")"
java -version 2>&1 | head -1
test -f /opt/veriftools/tla/tla2tools.jar
/venv/bin/python -c "import cylc.flow, sys; assert cylc.flow.__file__.startswith('/repo/'), cylc.flow.__file__; print('cylc.flow from', cylc.flow.__file__)"
/venv/bin/python tools/sany_all.py
echo setup ok
