"""Run TLC / SANY and parse the output."""
from __future__ import annotations
import os, re, shutil, subprocess, tempfile, time
from dataclasses import dataclass, field
from . import tlaparse

JARS = "/opt/veriftools/tla/tla2tools.jar:/opt/veriftools/tla/CommunityModules-deps.jar"
SPEC_DIR = os.path.join(os.path.dirname(os.path.dirname(os.path.abspath(__file__))), "spec")

class TLCError(Exception):
    """Machinery failure (parse error, crash, timeout) - never a property verdict."""

@dataclass
class TLCResult:
    ok: bool                       # finished with no error
    generated: int = 0
    distinct: int = 0
    depth: int = 0
    violated: str | None = None    # name of violated invariant / property
    kind: str | None = None        # 'invariant' | 'property' | 'deadlock' | 'postcondition' | 'assert'
    trace: list = field(default_factory=list)   # [(hdr, {var: value})]
    out: str = ""
    wall_s: float = 0.0
    prints: list = field(default_factory=list)  # raw PrintT lines
    coverage: dict = field(default_factory=dict)

def lib_path(*dirs):
    return os.pathsep.join([SPEC_DIR, os.path.join(SPEC_DIR, "oracle"), os.path.join(SPEC_DIR, "mc"), *dirs])

def run_tlc(module_path: str, cfg_path: str | None = None, *, workers: int | str = 16, timeout: int = 600,
            extra: list[str] | None = None, env: dict | None = None, scratch: str | None = None,
            libdirs: list[str] | None = None, java_props: list[str] | None = None, heap: str = "4g",
            deadlock: bool = False, expect_error_ok: bool = True) -> TLCResult:
    mod_dir = os.path.dirname(os.path.abspath(module_path))
    mod = os.path.basename(module_path)
    own_scratch = scratch is None
    if own_scratch:
        scratch = tempfile.mkdtemp(prefix="tlc-", dir=os.environ.get("VERIF_SCRATCH"))
    meta = os.path.join(scratch, "meta-%d-%d" % (os.getpid(), time.time_ns() % 10**9))
    if str(workers) == "1":
        # many short single-worker JVMs run side by side (trace batches): keep each one to one core
        jvm = ["-XX:+UseSerialGC", "-XX:TieredStopAtLevel=1", "-XX:CICompilerCount=1"]
    else:
        jvm = ["-XX:+UseParallelGC"]
    cmd = ["java", *jvm, f"-Xmx{heap}", f"-DTLA-Library={lib_path(*(libdirs or []))}"]
    cmd += java_props or []
    cmd += ["-cp", JARS, "tlc2.TLC", "-workers", str(workers), "-metadir", meta, "-noGenerateSpecTE"]
    if not deadlock:
        cmd += ["-deadlock"]
    if cfg_path:
        cmd += ["-config", os.path.abspath(cfg_path)]
    cmd += extra or []
    cmd += [mod]
    e = dict(os.environ)
    e.update(env or {})
    t0 = time.time()
    try:
        p = subprocess.run(cmd, cwd=mod_dir, env=e, capture_output=True, text=True, timeout=timeout)
    except subprocess.TimeoutExpired as ex:
        raise TLCError(f"TLC timeout after {timeout}s: {' '.join(cmd)}") from ex
    finally:
        shutil.rmtree(meta, ignore_errors=True)
        if own_scratch:
            shutil.rmtree(scratch, ignore_errors=True)
    out = p.stdout + p.stderr
    res = parse_output(out)
    res.wall_s = time.time() - t0
    if res.kind is None and not res.ok:
        raise TLCError("TLC failed:\n" + out[-4000:])
    return res

_gen = re.compile(r'(\d+) states generated, (\d+) distinct states found')
_depth = re.compile(r'The depth of the complete state graph search is (\d+)')

def parse_output(out: str) -> TLCResult:
    res = TLCResult(ok=False, out=out)
    for m in _gen.finditer(out):
        res.generated, res.distinct = int(m.group(1)), int(m.group(2))
    m = _depth.search(out)
    if m:
        res.depth = int(m.group(1))
    m = re.search(r'Error: Invariant (\S+) is violated', out)
    if m:
        res.violated, res.kind = m.group(1), 'invariant'
    m2 = re.search(r'Error: Action property (\S+) is violated', out) or re.search(r'Error: Temporal properties were violated', out)
    if m2 and not m:
        res.kind = 'property'
        res.violated = m2.group(1) if m2.groups() else 'temporal'
    if 'Error: Deadlock reached' in out:
        res.kind, res.violated = 'deadlock', 'deadlock'
    if re.search(r'Error: .*[Pp]ostcondition', out) or 'POSTCONDITION' in out and 'violated' in out.lower() and res.kind is None:
        res.kind, res.violated = 'postcondition', 'postcondition'
    if res.kind is None and re.search(r'Error: The (first|second) argument of Assert|Error: Assumption', out):
        res.kind, res.violated = 'assert', 'assert'
    if res.kind in ('invariant', 'property', 'deadlock'):
        # error trace
        i = out.find('Error:')
        res.trace = tlaparse.parse_states(out[i:])
    if 'Model checking completed. No error has been found' in out or \
       ('Finished in' in out and 'Error:' not in out):
        res.ok = True
    res.prints = [l for l in out.splitlines() if l.startswith('"') or l.startswith('<<') or l.startswith('[')]
    return res

def sany(module_path: str, libdirs=None) -> None:
    mod_dir = os.path.dirname(os.path.abspath(module_path))
    cmd = ["java", f"-DTLA-Library={lib_path(*(libdirs or []))}", "-cp", JARS, "tla2sany.SANY", os.path.basename(module_path)]
    p = subprocess.run(cmd, cwd=mod_dir, capture_output=True, text=True, timeout=120)
    out = p.stdout + p.stderr
    if p.returncode != 0 or 'error' in out.lower() and 'Semantic errors' in out or 'Parse Error' in out or '*** Errors' in out:
        raise TLCError(f"SANY failed on {module_path}:\n{out[-3000:]}")

def dump_states(module_path: str, cfg_path: str, *, workers=16, timeout=600, libdirs=None, heap="4g"):
    """Run TLC with -dump and return (TLCResult, [ {var: value} ... ])."""
    scratch = tempfile.mkdtemp(prefix="tlcdump-", dir=os.environ.get("VERIF_SCRATCH"))
    try:
        dump = os.path.join(scratch, "states")
        res = run_tlc(module_path, cfg_path, workers=workers, timeout=timeout, extra=["-dump", dump],
                      scratch=scratch, libdirs=libdirs, heap=heap)
        with open(dump + ".dump") as f:
            txt = f.read()
        states = [s for _, s in tlaparse.parse_states(txt)]
        return res, states
    finally:
        shutil.rmtree(scratch, ignore_errors=True)
