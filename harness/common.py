"""Shared check plumbing: context, verdicts, evidence, known findings."""
from __future__ import annotations
import hashlib, json, os, random, re, shutil, sys, tempfile, time
from dataclasses import dataclass, field

VERIF = os.path.dirname(os.path.dirname(os.path.abspath(__file__)))
REPO = os.environ.get("VERIF_REPO", "/repo")
KNOWN_FILE = os.path.join(VERIF, "known_findings.txt")

class MachineryError(Exception):
    pass

@dataclass
class Violation:
    key: str
    text: str
    replay: dict

def load_known():
    """Return {prop: {key: text}} for 'known:' lines (fixed: lines suppress nothing)."""
    known: dict[str, dict[str, str]] = {}
    if not os.path.exists(KNOWN_FILE):
        return known
    for line in open(KNOWN_FILE):
        line = line.strip()
        m = re.match(r'^known:\s+property=(C\d+)\s+key=(\S+)\s+(.*)$', line)
        if m:
            known.setdefault(m.group(1), {})[m.group(2)] = m.group(3)
    return known

class Ctx:
    def __init__(self, prop: str, tier: str, seed: int, level: str):
        self.prop, self.tier, self.seed, self.level = prop, tier, seed, level
        self.rng = random.Random(seed)
        self.violations: list[Violation] = []
        self.coverage: dict = {}
        self.assumptions: list[str] = []
        self.t0 = time.time()
        self.scratch = tempfile.mkdtemp(prefix=f"verif-{prop}-", dir=os.environ.get("VERIF_SCRATCH") or ("/dev/shm" if os.access("/dev/shm", os.W_OK) else "/var/tmp"))
        os.environ["VERIF_SCRATCH"] = self.scratch
        self.notes: list[str] = []
    @property
    def quick(self):
        return self.tier == "quick"
    def violation(self, key: str, text: str, replay: dict | None = None):
        if any(v.key == key for v in self.violations):
            return
        self.violations.append(Violation(key, text, replay or {}))
    def cleanup(self):
        shutil.rmtree(self.scratch, ignore_errors=True)

def finish(ctx: Ctx) -> int:
    known = load_known().get(ctx.prop, {})
    rc = 0
    n_viol = 0
    seen_known = set()
    rdir = os.path.join(VERIF, "replays", ctx.prop)
    for v in ctx.violations:
        if v.key in known:
            if v.key not in seen_known:
                print(f"KNOWN-FINDING: property={ctx.prop} {known[v.key]} [key={v.key}]")
                seen_known.add(v.key)
            continue
        n_viol += 1
        os.makedirs(rdir, exist_ok=True)
        h = hashlib.sha1(v.key.encode()).hexdigest()[:10]
        path = os.path.join(rdir, f"{h}.json")
        with open(path, "w") as f:
            json.dump({"property": ctx.prop, "key": v.key, "text": v.text, "seed": ctx.seed,
                       "tier": ctx.tier, "replay": v.replay}, f, indent=1, default=str)
        print(f"VIOLATION property={ctx.prop} replay={path}")
        print(f"  key={v.key}\n  {v.text}")
        rc = 1
    cov = dict(ctx.coverage)
    cov.setdefault("known_findings_seen", sorted(seen_known))
    ev = {"property_id": ctx.prop, "tier": ctx.tier, "seed": ctx.seed, "level": ctx.level,
          "coverage": cov, "assumptions": ctx.assumptions, "wall_s": round(time.time() - ctx.t0, 2),
          "violations": n_viol}
    evdir = os.path.join(VERIF, "evidence") if not os.environ.get("VERIF_NO_EVIDENCE") else os.path.join(ctx.scratch, "evidence")
    os.makedirs(evdir, exist_ok=True)
    with open(os.path.join(evdir, f"{ctx.prop}.json"), "w") as f:
        json.dump(ev, f, indent=1, default=str, sort_keys=True)
    for n in ctx.notes:
        print(n)
    print(f"{ctx.prop} tier={ctx.tier} seed={ctx.seed} violations={n_viol} known={len(seen_known)} "
          f"wall={ev['wall_s']}s -> exit {rc}")
    return rc

def parallel_map(fn, items, procs=16, chunksize=1):
    """Process-pool map (fork); fn must be a top-level function. A dead worker raises (machinery failure)."""
    from concurrent.futures import ProcessPoolExecutor
    import multiprocessing as mp
    if procs <= 1 or len(items) <= 1:
        return [fn(x) for x in items]
    with ProcessPoolExecutor(min(procs, len(items)), mp_context=mp.get_context("fork")) as ex:
        return list(ex.map(fn, items, chunksize=chunksize))
