"""Parser for TLA+ values as printed by TLC (dumps, error traces, -simulate files, PrintT)."""
from __future__ import annotations
import re

class ModelValue(str):
    def __repr__(self):
        return f"MV({str.__repr__(self)})"

class TLAParseError(Exception):
    pass

_tok = re.compile(r'''\s*(?:
    (?P<str>"(?:[^"\\]|\\.)*")
  | (?P<num>-?\d+)
  | (?P<op><<|>>|\|->|:>|@@|\.\.|[\[\]{}(),])
  | (?P<id>[A-Za-z_][A-Za-z0-9_!]*)
)''', re.X)

def _tokens(s):
    pos = 0
    n = len(s)
    out = []
    while pos < n:
        m = _tok.match(s, pos)
        if not m:
            if s[pos:].strip() == '':
                break
            raise TLAParseError(f"bad token at {pos}: {s[pos:pos+40]!r}")
        pos = m.end()
        kind = m.lastgroup
        out.append((kind, m.group(kind)))
    return out

def _unescape(s):
    body = s[1:-1]
    return re.sub(r'\\(.)', lambda m: {'n': '\n', 't': '\t', 'r': '\r', 'f': '\f'}.get(m.group(1), m.group(1)), body)

class _P:
    def __init__(self, toks):
        self.t = toks
        self.i = 0
    def peek(self):
        return self.t[self.i] if self.i < len(self.t) else (None, None)
    def next(self):
        tok = self.peek()
        self.i += 1
        return tok
    def expect(self, v):
        k, x = self.next()
        if x != v:
            raise TLAParseError(f"expected {v} got {x} at tok {self.i}")
    def value(self):
        v = self.atom()
        # function composition a :> b @@ c :> d handled in paren; intervals
        k, x = self.peek()
        if x == '..':
            self.next()
            hi = self.atom()
            return frozenset(range(v, hi + 1))
        return v
    def atom(self):
        k, x = self.next()
        if k == 'str':
            return _unescape(x)
        if k == 'num':
            return int(x)
        if k == 'id':
            if x == 'TRUE':
                return True
            if x == 'FALSE':
                return False
            return ModelValue(x)
        if x == '{':
            items = []
            if self.peek()[1] == '}':
                self.next()
                return frozenset()
            while True:
                items.append(freeze(self.value()))
                k2, x2 = self.next()
                if x2 == '}':
                    break
                if x2 != ',':
                    raise TLAParseError(f"set: got {x2}")
            return frozenset(items)
        if x == '<<':
            items = []
            if self.peek()[1] == '>>':
                self.next()
                return tuple()
            while True:
                items.append(self.value())
                k2, x2 = self.next()
                if x2 == '>>':
                    break
                if x2 != ',':
                    raise TLAParseError(f"seq: got {x2}")
            return tuple(items)
        if x == '[':
            rec = {}
            if self.peek()[1] == ']':
                self.next()
                return rec
            while True:
                k2, name = self.next()
                self.expect('|->')
                rec[name] = self.value()
                k3, x3 = self.next()
                if x3 == ']':
                    break
                if x3 != ',':
                    raise TLAParseError(f"rec: got {x3}")
            return rec
        if x == '(':
            fn = {}
            while True:
                key = freeze(self.value())
                self.expect(':>')
                fn[key] = self.value()
                k3, x3 = self.next()
                if x3 == ')':
                    break
                if x3 != '@@':
                    raise TLAParseError(f"fn: got {x3}")
            return fn
        raise TLAParseError(f"unexpected token {x!r}")

def freeze(v):
    """Make a parsed value hashable (dict -> frozenset of items / tuple)."""
    if isinstance(v, dict):
        return FrozenDict((k, freeze(x)) for k, x in v.items())
    if isinstance(v, tuple):
        return tuple(freeze(x) for x in v)
    return v

class FrozenDict(dict):
    def __hash__(self):
        return hash(frozenset(self.items()))

def parse_value(s: str):
    p = _P(_tokens(s))
    v = p.value()
    if p.i != len(p.t):
        raise TLAParseError(f"trailing tokens in {s[:80]!r}")
    return v

def to_py(v):
    """Convert parsed value to plain JSON-able python (sets -> sorted lists, tuples -> lists)."""
    if isinstance(v, dict):
        return {str(k) if not isinstance(k, (tuple, frozenset)) else repr(to_py(k)): to_py(x) for k, x in v.items()}
    if isinstance(v, (tuple, list)):
        return [to_py(x) for x in v]
    if isinstance(v, frozenset):
        items = [to_py(x) for x in v]
        try:
            return sorted(items, key=lambda z: (str(type(z)), z))
        except TypeError:
            return sorted(items, key=repr)
    if isinstance(v, ModelValue):
        return str(v)
    return v

_state_hdr = re.compile(r'^State (\d+):(.*)$')

def parse_states(text: str):
    """Parse a TLC state listing ('State N: <action>' followed by '/\\ var = value' lines).
    Returns list of (header_rest, {var: value})."""
    states = []
    cur = None
    buf = []
    def flush():
        nonlocal cur, buf
        if cur is None:
            return
        body = '\n'.join(buf).strip()
        if body:
            states.append((cur, parse_conj(body)))
        cur = None
        buf = []
    for line in text.splitlines():
        m = _state_hdr.match(line)
        if m:
            flush()
            cur = m.group(2).strip()
            buf = []
            continue
        if cur is not None:
            if line.strip() == '' :
                flush()
                continue
            buf.append(line)
    flush()
    return states

_conj = re.compile(r'^(?:/\\ )?([A-Za-z_][A-Za-z0-9_]*) = ', re.M)

def parse_conj(body: str):
    """Parse '/\\ x = v\n/\\ y = w' (values may span lines)."""
    ms = list(_conj.finditer(body))
    out = {}
    for i, m in enumerate(ms):
        end = ms[i + 1].start() if i + 1 < len(ms) else len(body)
        out[m.group(1)] = parse_value(body[m.end():end])
    return out
