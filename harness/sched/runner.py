"""Generate workflows, run them on the real scheduler (16 worker processes), validate the traces with TLC."""
from __future__ import annotations
import json, os, random, re, shutil, subprocess, sys, tempfile, time, traceback
from .. import tlc, tlaparse
from . import gen, tracetla

SPEC_DIR = tlc.SPEC_DIR

def one_run(job):
    """Worker: generate + execute one run. job = dict(seed, features, mode, policy, scenario). Returns dict."""
    os.environ["CYLC_FLOW_VERIF"] = "1"
    from . import driver, scenarios
    seed = job["seed"]
    for attempt in range(3):
        rng = random.Random(seed)
        home = tempfile.mkdtemp(prefix=f"run{seed}-", dir=job["scratch"])
        try:
            sc = scenarios.SCENARIOS[job.get("scenario", "plain")]
            return sc(job, rng, home)
        except Exception as exc:
            text = "".join(traceback.format_exception(exc))
            if "BrokenBarrierError" in text and attempt < 2:
                # the scheduler's network-server thread did not come up within cylc's own 10 s start-up
                # timeout (overloaded machine): not a verdict about anything, run the same case again
                continue
            return {"seed": seed, "error": text[-3000:]}
        finally:
            shutil.rmtree(home, ignore_errors=True)

def validate(runs: list, scratch: str, *, chunk=12, procs=16, timeout=900):
    """runs: [{'w_tla':..., 'events': [...], 'opt': {...}}].  Returns list of verdicts
    [{'viol': [(clause, orig_event_index)], 'cov': set()}], same order."""
    from concurrent.futures import ThreadPoolExecutor
    chunks = [list(range(i, min(i + chunk, len(runs)))) for i in range(0, len(runs), chunk)]
    def do_chunk(ci):
        idxs = chunks[ci]
        d = os.path.join(scratch, f"tlc-{ci}")
        os.makedirs(d, exist_ok=True)
        texts, maps = [], []
        for k in idxs:
            t, m = tracetla.run_tla(runs[k]["w_tla"], runs[k]["events"], runs[k]["opt"])
            texts.append(t)
            maps.append(m)
        tracetla.write_tracedata(os.path.join(d, "TraceData.tla"), texts)
        with open(os.path.join(d, "Run.tla"), "w") as f:
            f.write("---- MODULE Run ----\nEXTENDS SchedTrace\n====\n")
        with open(os.path.join(d, "Run.cfg"), "w") as f:
            f.write("SPECIFICATION Spec\n")
        res = tlc.run_tlc(os.path.join(d, "Run.tla"), os.path.join(d, "Run.cfg"), workers=1, timeout=timeout,
                          scratch=d, heap="2g")
        if not res.ok:
            raise tlc.TLCError(f"trace validation did not complete (chunk {ci}):\n{res.out[-3000:]}")
        verdicts = parse_verdicts(res.out)
        diags = parse_tuples(res.out, "DIAG")
        out = {}
        for j, k in enumerate(idxs):
            v = verdicts.get(j + 1)
            if v is None:
                raise tlc.TLCError(f"no verdict for run {k} in chunk {ci}:\n{res.out[-2000:]}")
            viol = [(c, maps[j][l - 1] if 0 < l <= len(maps[j]) else -1) for c, l in v["viol"]]
            out[k] = {"viol": sorted(viol, key=lambda x: x[1]), "cov": v["cov"],
                      "diag": [tlaparse.to_py(d[2:]) for d in diags if d[1] == j + 1]}
        shutil.rmtree(d, ignore_errors=True)
        return out, res.distinct, res.generated
    allv = {}
    states = trans = 0
    with ThreadPoolExecutor(procs) as ex:
        for out, d, g in ex.map(do_chunk, range(len(chunks))):
            allv.update(out)
            states += d
            trans += g
    return [allv[k] for k in range(len(runs))], states, trans

def parse_tuples(out: str, tag: str):
    """All PrintT'd tuples << "tag", ... >> in TLC output (bracket matching; values may span lines)."""
    vals = []
    for m in re.finditer(r'<<\s*"%s",' % tag, out):
        i = m.start()
        depth = 0
        j = i
        while j < len(out):
            if out.startswith("<<", j):
                depth += 1
                j += 2
                continue
            if out.startswith(">>", j):
                depth -= 1
                j += 2
                if depth == 0:
                    break
                continue
            j += 1
        vals.append(tlaparse.parse_value(out[i:j]))
    return vals

def parse_verdicts(out: str):
    """PrintT lines: <<"VERDICT", tid, {<<clause, l>>...}, {cov...}>> (may span lines)."""
    verdicts = {}
    for m in re.finditer(r'<<\s*"VERDICT",', out):
        # bracket matching from m.start()
        i = m.start()
        depth = 0
        j = i
        while j < len(out):
            if out.startswith("<<", j):
                depth += 1
                j += 2
                continue
            if out.startswith(">>", j):
                depth -= 1
                j += 2
                if depth == 0:
                    break
                continue
            j += 1
        val = tlaparse.parse_value(out[i:j])
        _, tid, viol, cov = val
        verdicts[tid] = {"viol": [(c, l) for c, l in viol], "cov": set(cov)}
    return verdicts
