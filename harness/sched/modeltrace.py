"""Model traces: run the real scheduler and log, at the return of every method that is one action of the
design model spec/Sched.tla, the projection of the real state onto the model's variables
(pool, rhl, q, cmds, jobs, net, acks, stopped).  spec/SchedMT.tla then checks that every logged step is
that action of the model taken from the previous logged state (see harness/engines/schedmt.py)."""
from __future__ import annotations
import functools, json, os, random, zlib

from . import driver, instrument, gen
from .instrument import TR, out_name

CUR = None            # the active MTDriver, or None
_installed = False

def _wrap(cls, name, maker):
    orig = getattr(cls, name)
    tag = "mt:" + maker.__name__
    if getattr(orig, "_verif_mt", None) == tag:
        return
    new = maker(orig)
    new._verif_mt = tag
    setattr(cls, name, new)

def _boundary(ev, argf=None):
    """Wrap a method: when the outermost wrapped call returns, log a model step named `ev`."""
    def maker(orig):
        @functools.wraps(orig)
        def wrapper(self, *a, **kw):
            mt = CUR
            if mt is None or not mt.active:
                return orig(self, *a, **kw)
            mt.depth += 1
            try:
                r = orig(self, *a, **kw)
            finally:
                mt.depth -= 1
            if mt.depth == 0:
                mt.boundary(ev, argf(self, a, kw, r) if argf else None)
            return r
        wrapper.__name__ = "mt_" + ev
        return wrapper
    maker.__name__ = "mk_" + ev
    return maker

def install():
    global _installed
    if _installed:
        return
    _installed = True
    from cylc.flow.task_pool import TaskPool
    from cylc.flow.scheduler import Scheduler
    from cylc.flow.task_events_mgr import TaskEventsManager
    _wrap(TaskPool, "compute_runahead", _boundary("ComputeRunahead"))
    _wrap(TaskPool, "release_runahead_tasks", _boundary("ReleaseRunahead"))
    _wrap(TaskPool, "queue_if_ready", _boundary("QueueIfReady", lambda self, a, kw, r: instrument.tid(a[0])))
    _wrap(Scheduler, "release_tasks_to_run", _boundary("ReleaseQueues"))

    def mk_msg(orig):
        def process_message(self, itask, severity, message, event_time=None, flag="(internal)", submit_num=None,
                            forced=False):
            mt = CUR
            if mt is None or not mt.active:
                return orig(self, itask, severity, message, event_time, flag, submit_num, forced)
            mt.depth += 1
            try:
                r = orig(self, itask, severity, message, event_time, flag, submit_num, forced)
            finally:
                mt.depth -= 1
            if mt.depth == 0:
                mt.message_processed(itask, message, flag, submit_num)
            return r
        return process_message
    _wrap(TaskEventsManager, "process_message", mk_msg)

    def mk_pq(orig):
        def process_queued_task_messages(self):
            mt = CUR
            if mt is None or not mt.active:
                return orig(self)
            r = orig(self)
            mt.queue_drained()
            return r
        return process_queued_task_messages
    _wrap(Scheduler, "process_queued_task_messages", mk_pq)

    def mk_auto(orig):
        def check_auto_shutdown(self):
            r = orig(self)
            mt = CUR
            if mt is not None and mt.active and r:
                mt.stopped = "auto"
                mt.boundary("AutoShutdown")
                mt.active = False
            return r
        return check_auto_shutdown
    _wrap(Scheduler, "check_auto_shutdown", mk_auto)

    def mk_stall(orig):
        def check_workflow_stalled(self):
            was = self.is_stalled
            r = orig(self)
            mt = CUR
            if mt is not None and mt.active and r and not was:
                mt.stopped = "stalled"
                mt.boundary("Stall")
                mt.active = False
            return r
        return check_workflow_stalled
    _wrap(Scheduler, "check_workflow_stalled", mk_stall)


class MTDriver(driver.Driver):
    """Driver that logs model steps."""
    def __init__(self, *a, **kw):
        super().__init__(*a, **kw)
        self.states = []
        self.last = None
        self.depth = 0
        self.active = False
        self.stopped = "no"
        self.launched = {}      # (point, name, sub) -> ok     jobs of pending submit commands already executed
        self.acked = set()      # jobs whose submit callback has been processed
        self.answering = None   # jobs of the command whose callback is running
        self.inflight = []      # messages handed to the scheduler's queue, not yet processed: (key, msg)
        self.ended = False
        self.down = False
        self.hidden = set()     # jobs of the batch being executed that have not come into existence yet
        self.cmd_rng = random.Random(zlib.crc32(repr(a[3] if len(a) > 3 else 0).encode()))

    # ---- projection
    def _jid(self, key):
        return [key[1], TR.pt(key[0]), int(key[2])]

    def project(self):
        schd = self.schd
        sp = instrument.sync_proj(schd)
        if self.down:
            # the process is gone: no pool, no queues, no limit; what jobs send is lost
            sp = dict(sp, pool=[], rhlimit=None, queues={qn: [] for qn in sp["queues"]})
        pool = {}
        for t in sp["pool"]:
            pool[f"{t['id'][0]}.{t['id'][1]}"] = {
                "st": t["st"], "rh": t["rh"], "queued": t["queued"], "held": t["held"], "manual": bool(t["manual"]),
                "outs": sorted(t["outs"]),
                "sat": sorted(t["sat"]), "sub": t["sub"], "efail": t["etry"], "sfail": t["stry"]}
        cmds, acks = [], []
        pending = list(self.pool.pending) if self.pool is not None else []
        for cmd in pending:
            if cmd.kind != "jobs-submit":
                continue
            for d in cmd.job_dirs():
                key = self._parse_dir(d)
                if key in self.launched:
                    if key not in self.acked:
                        acks.append(self._jid(key) + [bool(self.launched[key])])
                else:
                    cmds.append(self._jid(key))
        for key in (self.answering or []):
            if key not in self.acked:
                acks.append(self._jid(key) + [bool(self.launched.get(key))])
        jobs, net = {}, {}
        for key, j in self.world.jobs.items():
            if key in self.hidden:
                continue
            jk = "%s.%d.%d" % (key[1], TR.pt(key[0]), key[2])
            jobs[jk] = {"script": [self._m(x) for x in list(j.emitted) + list(j.script)], "pos": len(j.emitted)}
            net[jk] = []
        for key, msg in self.inflight:
            net["%s.%d.%d" % (key[1], TR.pt(key[0]), key[2])].append(self._m(msg))
        for m in self.net:
            key = m["key"]
            net["%s.%d.%d" % (key[1], TR.pt(key[0]), key[2])].append(self._m(m["msg"]))
        fut = {}
        for name, tdef in schd.config.taskdefs.items():
            fut[name] = instrument._interval_int(tdef.max_future_prereq_offset) or 0
        rb = None if self.down else getattr(schd.pool, "_prev_runahead_base_point", None)
        stop = sp["stop_point"]
        trig = [] if self.down else sorted(instrument.tid(it) for it in schd.pool.tasks_to_trigger_now)
        return {"tohold": sorted(sp["tasks_to_hold"]), "holdpt": sp["hold_point"], "stop": stop, "trig": trig,
                "pool": pool, "rhl": sp["rhlimit"], "rhbase": TR.pt(rb) if rb is not None else None, "q": sp["queues"], "cmds": sorted(cmds), "acks": sorted(acks),
                "jobs": jobs, "net": net, "stopped": self.stopped, "futseen": fut,
                "maxfut": 0 if self.down else (instrument._interval_int(schd.pool.max_future_offset) or 0)}

    @staticmethod
    def _m(msg):
        return out_name(str(msg).split("/")[0])

    def boundary(self, ev, arg=None):
        if self.schd is None or self.ended:
            return
        st = self.project()
        if self.last is not None and st == self.last:
            return                     # nothing visible happened: stuttering
        self.states.append({"ev": ev, "arg": arg, "st": st, "i": len(TR.events)})
        self.last = st
        if ev in ("AutoShutdown", "Stall"):
            self.ended = True         # the model stops here

    # ---- scheduler-side hooks
    def message_processed(self, itask, message, flag, submit_num):
        key = (str(itask.point), itask.tdef.name, int(submit_num if submit_num is not None else itask.submit_num))
        if "_submit_task_job_callback" in TR.ctx or (self.answering and flag == "(internal)"
                                                      and self._m(message) in ("submitted", "submit-failed", "submission failed")):
            k = next((x for x in (self.answering or []) if x[:2] == key[:2] and x not in self.acked), None)
            if k is not None:
                self.acked.add(k)
                self.boundary("SubmitCallback", self._jid(k))
                return
        if flag == "(received)":
            for n, (k, m) in enumerate(self.inflight):
                if k == key and self._m(m) == self._m(message):
                    self.inflight.pop(n)
                    break
            self.boundary("Deliver", self._jid(key))
            return
        if flag == "(polled)":
            self.boundary("Poll", self._jid(key))
            return
        self.boundary("Other:" + str(flag))

    def queue_drained(self):
        """process_queued_task_messages returned: whatever was handed over and not processed (task no longer in the
        pool) has been consumed without effect on the pool."""
        while self.inflight:
            key, _m = self.inflight.pop(0)
            self.boundary("Deliver", self._jid(key))

    # ---- operator commands (executed by process_command_queue)
    async def cmd(self, name, **kw):
        """tasks=["@pool"] stands for one task that is in the pool when the command is issued."""
        if kw.get("tasks") == ["@pool"]:
            ids = sorted(it.identity for it in self.schd.pool.get_tasks())
            if not ids:
                return None
            kw = dict(kw, tasks=[self.cmd_rng.choice(ids)])
        return await super().cmd(name, **kw)

    def on_cmd_start(self, name, args):
        self.pool_at_cmd = {it.identity for it in self.schd.pool.get_tasks()}
        self.depth += 1          # the command is one step of the model: nothing inside it is logged separately

    def on_cmd_done(self, name, args):
        self.depth -= 1
        ids = []
        for tk in args.get("tasks") or []:
            try:
                p_, n_ = tk.split("/")
                ids.append([n_, int(p_)])
            except ValueError:
                pass
        if name == "hold" and len(ids) == 1:
            self.boundary("CmdHold", ids[0])
        elif name == "release" and len(ids) == 1:
            self.boundary("CmdRelease", ids[0])
        elif name == "set_hold_point":
            self.boundary("CmdHoldPoint", int(args["point"]))
        elif name == "release_hold_point":
            self.boundary("CmdReleaseHoldPoint")
        elif name == "stop" and args.get("cycle_point") is not None:
            self.boundary("CmdStopPoint", int(args["cycle_point"]))
        elif (name == "force_trigger_tasks" and len(ids) == 1 and not args.get("flow")
              and args["tasks"][0] in getattr(self, "pool_at_cmd", ())):
            self.boundary("CmdTrigger", ids[0])
        elif (name == "set" and len(ids) == 1 and not args.get("flow") and not args.get("prerequisites")
              and len(args.get("outputs") or []) == 1 and args["tasks"][0] in getattr(self, "pool_at_cmd", ())):
            self.boundary("CmdSetOut", [ids[0], args["outputs"][0]])
        else:
            self.boundary("CmdOther:" + name)

    # ---- environment actions, one model step each
    def exec_submit(self, cmd):
        super().exec_submit(cmd)
        # (the jobs of one command come into existence one after the other)
        for d in cmd.job_dirs():
            key = self._parse_dir(d)
            self.launched[key] = key in self.world.jobs and key not in self.world.submit_failed
        # log them one at a time
        keys = [self._parse_dir(d) for d in cmd.job_dirs()]
        done = dict(self.launched)
        for k in keys:
            self.launched.pop(k, None)
        self.hidden = set(keys)
        for k in keys:
            self.launched[k] = done[k]
            self.hidden.discard(k)
            self.boundary("EnvLaunch", self._jid(k))

    def answer(self, cmd):
        if cmd.kind == "jobs-submit":
            if not cmd.launched:
                self.exec_submit(cmd)
            keys = [self._parse_dir(d) for d in cmd.job_dirs()]
            self.answering = keys
            try:
                super().answer(cmd)
            finally:
                # callbacks that found nothing to do (task gone / newer submit number)
                for k in keys:
                    if k not in self.acked:
                        self.acked.add(k)
                        self.boundary("SubmitCallback", self._jid(k))
                self.answering = None
        else:
            super().answer(cmd)

    def job_step(self, key):
        n = len(self.net)
        super().job_step(key)
        if self.down:
            del self.net[n:]          # nobody listens: the message is lost
        self.boundary("EnvJobStep", self._jid(key))

    def deliver(self, i):
        m = self.net[i]
        before = len(self.net)
        super().deliver(i)
        if len(self.net) < before:
            self.inflight.append((m["key"], m["msg"]))

    async def boot(self):
        global CUR
        install()
        CUR = self
        restart = self.incarnation > 0
        self.active = False          # (what start-up does is one step of the model: Restart)
        r = await super().boot()
        self.active = True
        self.down = False
        self.stopped = "no"
        self.boundary("Restart" if restart else "Boot")
        return r

    def scheduler_stopped(self, reason):
        """The scheduler process has exited on request (it will be restarted)."""
        self.down = True
        self.stopped = "down"
        self.net = []
        self.inflight = []
        self.boundary("StopNow")


SET_OUTS = ["succeeded", "succeeded", "started", "failed", "x", "submitted", "expired"]

def command_plan(w, rng, n_iters=12, manual=False):
    """A few single-target operator commands at random iterations (the ones the design model has)."""
    cl = []
    for _ in range(rng.randint(1, 4)):
        it = rng.randint(1, n_iters)
        one = [f"{rng.randint(w.icp, w.fcp)}/{rng.choice(w.tasks)}"]
        r = rng.random()
        if r < 0.3:
            cl.append((it, "hold", {"tasks": one}))
            if rng.random() < 0.6:
                cl.append((it + rng.randint(1, 6), "release", {"tasks": one}))
        elif r < 0.45:
            cl.append((it, "release", {"tasks": one}))
        elif r < 0.65:
            cl.append((it, "set_hold_point", {"point": str(rng.randint(w.icp, w.fcp))}))
            if rng.random() < 0.7:
                cl.append((it + rng.randint(1, 8), "release_hold_point", {}))
        elif r < 0.75:
            cl.append((it, "release_hold_point", {}))
        elif r < 0.85 or not manual:
            cl.append((it, "stop", {"mode": None, "cycle_point": str(rng.randint(w.icp, w.fcp))}))
    if manual:
        # cylc trigger / cylc set --out on a task that is in the pool at that moment
        for _ in range(rng.randint(1, 3)):
            it = rng.randint(1, n_iters)
            if rng.random() < 0.6:
                cl.append((it, "force_trigger_tasks", {"tasks": ["@pool"], "flow": []}))
                if rng.random() < 0.3:
                    cl.append((it, "force_trigger_tasks", {"tasks": ["@pool"], "flow": []}))
            else:
                cl.append((it, "set", {"tasks": ["@pool"], "flow": [], "outputs": [rng.choice(SET_OUTS)]}))
    plan = {"cmds": cl}
    if rng.random() < 0.5:
        # stop --now (with the scheduler's view in sync with the jobs) and restart
        plan["stop"] = {"iter": rng.randint(2, n_iters), "mode": "REQUEST_NOW", "restart": True, "sync": True}
    return plan

def one_mt_run(w, outcome_seed, env_seed, home, mode="complete_novanish", plan=None):
    """One execution of workflow w (plain, or with operator commands); returns the list of logged model steps."""
    global CUR
    outcome = gen.make_outcome(w, random.Random(outcome_seed), mode)
    try:
        res = driver.execute(w.flow_text(), outcome, env_seed, home, driver_cls=MTDriver, plan=plan)
    finally:
        CUR = None
    drv = res.driver
    return {"steps": drv.states, "end": res.end, "launches": [list(x) for x in res.launches]}
