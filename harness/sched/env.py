"""Harness-controlled environment for an in-process cylc Scheduler:
fake process pool, simulated job world, virtual clock."""
from __future__ import annotations
import json, os, sys, time as _time
from dataclasses import dataclass, field

# ---------------------------------------------------------------- virtual clock
class VirtualClock:
    """Replaces `time` (imported as a name) in every cylc.flow module."""
    BASE = 2_000_000_000.0
    def __init__(self):
        self.now = self.BASE
        self._patched = []
    def time(self):
        return self.now
    def advance(self, d):
        self.now += d
    def install(self):
        real = _time.time
        for name, mod in list(sys.modules.items()):
            if not name.startswith("cylc.flow") or mod is None:
                continue
            for attr in ("time", "now"):
                if getattr(mod, attr, None) is real:
                    setattr(mod, attr, self.time)
                    self._patched.append((mod, attr))
    def uninstall(self):
        for mod, attr in self._patched:
            setattr(mod, attr, _time.time)
        self._patched = []

# ---------------------------------------------------------------- fake proc pool
class FakePool:
    """Stands in for cylc.flow.subprocpool.SubProcPool: records commands; the harness answers them."""
    JOBS_SUBMIT = 'jobs-submit'
    RET_CODE_WORKFLOW_STOPPING = 999
    current = None          # the instance created by the Scheduler under test
    def __init__(self):
        self.pending = []   # [Cmd]
        self.stopping = False
        self.closed = False
        self.seq = 0
        FakePool.current = self
        self.on_put = None  # hook(cmd)
        self.on_drain = None
        self.on_process = None
    # -- API used by cylc
    def put_command(self, ctx, bad_hosts=None, callback=None, callback_args=None, callback_255=None):
        self.seq += 1
        cmd = Cmd(self.seq, ctx, callback, list(callback_args or []), callback_255)
        if self.closed or (self.stopping and ctx.cmd_key == self.JOBS_SUBMIT):
            ctx.ret_code = self.RET_CODE_WORKFLOW_STOPPING
            ctx.err = "workflow stopping"
            ctx.timestamp = "2000-01-01T00:00:00Z"
            cmd.refused = True
            if self.on_put:
                self.on_put(cmd)
            if callback:
                callback(ctx, *cmd.callback_args)
            return
        self.pending.append(cmd)
        if self.on_put:
            self.on_put(cmd)
    def process(self):
        # the real pool runs queued commands to completion; while the scheduler is draining the
        # pool for shutdown the harness answers everything still pending
        if self.closed and self.pending and self.on_drain:
            self.on_drain()
        elif self.on_process:
            self.on_process()
    def is_not_done(self):
        return bool(self.pending)
    def set_stopping(self):
        self.stopping = True
    def close(self):
        self.closed = True
    def terminate(self):
        self.closed = True
        self.pending = []
    @staticmethod
    def get_temporary_file():
        import tempfile
        return tempfile.SpooledTemporaryFile()
    @classmethod
    def run_command(cls, ctx, callback=None):
        ctx.ret_code = 0
        ctx.out = ""
        return ctx
    @staticmethod
    def ssh_255_fail(ctx):
        return False
    @staticmethod
    def rsync_255_fail(ctx, platform=None):
        return False

@dataclass
class Cmd:
    n: int
    ctx: object
    callback: object
    callback_args: list
    callback_255: object
    refused: bool = False
    launched: bool = False     # for jobs-submit: jobs exist in the world
    result: object = None      # computed at execution time, delivered at answer time
    @property
    def kind(self):
        k = self.ctx.cmd_key
        if isinstance(k, tuple):
            return k[0]
        return k
    def job_dirs(self):
        kw = getattr(self.ctx, "cmd_kwargs", {}) or {}
        if kw.get("job_log_dirs"):
            return list(kw["job_log_dirs"])
        # poll / kill: dirs appended to the command after the run-dir argument
        cmd = list(self.ctx.cmd or [])
        if "--" in cmd:
            i = cmd.index("--")
            return cmd[i + 2:]
        return []

# ---------------------------------------------------------------- job world
@dataclass
class Job:
    point: str
    name: str
    submit: int
    script: list                 # remaining steps: 'started', custom message..., 'succeeded' | 'failed'
    phase: str = "submitted"     # submitted | running | succeeded | failed
    emitted: list = field(default_factory=list)
    killed: bool = False
    @property
    def key(self):
        return (self.point, self.name, self.submit)
    @property
    def final(self):
        return self.phase in ("succeeded", "failed", "vanished")

class JobWorld:
    """The true state of every job that was ever launched. Outcomes are a deterministic function
    (task, point, submit) -> script given by `outcome`, so that an interrupted run and its twin agree."""
    def __init__(self, outcome):
        self.outcome = outcome          # callable(point, name, submit) -> dict(submit_ok, script)
        self.jobs: dict = {}            # key -> Job
        self.launch_log = []            # every launch, in order: (point, name, submit)
        self.submit_failed = set()
        self.duplicates = []
    def launch(self, point, name, submit):
        """A jobs-submit command really executes for this job. Returns True if the job now exists."""
        key = (point, name, submit)
        self.launch_log.append(key)
        oc = self.outcome(point, name, submit)
        if not oc.get("submit_ok", True):
            self.submit_failed.add(key)
            if oc.get("ghost"):
                # reported as failed, but the job exists and will run
                self.jobs[key] = Job(point, name, submit, list(oc["script"]))
            return False
        if key in self.jobs:
            # the same job is launched again (same submit number): the job script runs afresh
            self.duplicates.append(key)
        self.jobs[key] = Job(point, name, submit, list(oc["script"]))
        return True
    def step(self, key):
        """Advance one job by one step; returns the message it sends (or None)."""
        j = self.jobs[key]
        if j.final or not j.script:
            return None
        s = j.script.pop(0)
        j.emitted.append(s)
        if s == "started":
            j.phase = "running"
        elif s == "succeeded":
            j.phase = "succeeded"
        elif s.startswith("failed"):
            j.phase = "failed"
        elif s == "vanish":
            # the job is evicted from the batch queue before it starts: nothing is sent, only a poll finds out
            j.phase = "vanished"
            j.script = []
            return None
        if s == "failed":
            return "failed/ERR"      # what a real job script sends from its ERR trap
        return s
    def kill(self, key):
        j = self.jobs.get(key)
        if j and not j.final:
            j.script = []
            j.phase = "failed"
            j.killed = True
            j.emitted.append("failed/TERM")
            return True
        return False
    def can_step(self):
        return [k for k, j in self.jobs.items() if not j.final and j.script]
    def poll_line(self, key, ts="2000-01-01T00:00:00Z"):
        """What `cylc jobs-poll` would print for this job now: (summary line, [message lines])."""
        point, name, submit = key
        d = f"{point}/{name}/{submit:02d}"
        j = self.jobs.get(key)
        if j is None:
            # never existed (submit failed or never launched): never ran, not in job runner
            ctx = {"job_runner_name": "background", "job_runner_exit_polled": 1, "time_submit_exit": ts}
            return f"[TASK JOB SUMMARY]{ts}|{d}|{json.dumps(ctx)}\n", []
        ctx = {"job_runner_name": "background", "job_id": str(1000 + len(d)), "time_submit_exit": ts}
        if j.phase == "vanished":
            ctx = {"job_runner_name": "background", "job_runner_exit_polled": 1, "time_submit_exit": ts}
            return f"[TASK JOB SUMMARY]{ts}|{d}|{json.dumps(ctx)}\n", []
        if j.phase == "submitted":
            ctx["job_runner_exit_polled"] = 0
        elif j.phase == "running":
            ctx["job_runner_exit_polled"] = 0
            ctx["time_run"] = ts
        elif j.phase == "succeeded":
            ctx.update(job_runner_exit_polled=1, time_run=ts, time_run_exit=ts, run_status=0)
        else:
            ctx.update(job_runner_exit_polled=1, time_run=ts, time_run_exit=ts, run_status=1,
                       run_signal="TERM" if j.killed else "ERR")
        msgs = []
        for m in j.emitted:
            if m in ("started", "succeeded") or m.startswith("failed"):
                continue
            msgs.append(f"[TASK JOB MESSAGE]{ts}|{d}|{ts}|INFO|{m}\n")
        return f"[TASK JOB SUMMARY]{ts}|{d}|{json.dumps(ctx)}\n", msgs
