"""Render recorded runs as the TLA+ module TraceData consumed by spec/SchedTrace.tla."""
from __future__ import annotations
from ..tlaemit import tla, tla_fn, Raw as _Raw

NOPOINT = -999

def _id(i):
    return "<<%s, %d>>" % (tla(i[0]), i[1])

def _ids_seq(ids):
    return "<<" + ", ".join(_id(i) for i in ids) + ">>"

def _ids_set(ids):
    return "{" + ", ".join(sorted({_id(i) for i in ids})) + "}"

def _atom(k):
    """'task.point.output' -> <<task, point, output>> (point may be negative)"""
    name, rest = k.split(".", 1)
    pt, out = rest.split(".", 1)
    return "<<%s, %d, %s>>" % (tla(name), int(pt), tla(out))

def task_tla(t):
    f = [
        ("id", _id(t["id"])), ("st", tla(t["st"])), ("held", tla(t["held"])), ("queued", tla(t["queued"])),
        ("rh", tla(t["rh"])), ("flows", tla(set(t["flows"]))), ("sub", str(t["sub"])),
        ("outs", tla(set(t["outs"]))), ("sat", "{" + ", ".join(sorted(_atom(k) for k in t["sat"])) + "}"),
        ("fsat", "{" + ", ".join(sorted(_atom(k) for k, v in t["sat"].items() if v == "forced")) + "}"),
        ("manual", tla(t["manual"])), ("preok", tla(all(p["ok"] for p in t["pre"]))),
        ("xok", tla(all(t["xsat"].values()) if t["xsat"] else True)),
        ("complete", tla(t["complete"])), ("fwait", tla(t["fwait"])),
        ("etry", str(t["etry"])), ("stry", str(t["stry"])), ("xneed", tla(set(t.get("xneed") or []))),
    ]
    return "[" + ", ".join(f"{k} |-> {v}" for k, v in f) + "]"

def _pt(p):
    return str(NOPOINT if p is None else p)

def _sync_fields(s, db=None):
    out = [
        ("pool", "<<" + ", ".join(task_tla(t) for t in s["pool"]) + ">>"),
        ("cached", _ids_seq(s["cached"])), ("cache_identical", tla(s.get("cache_identical", True))),
        ("dup", tla(set(map(tuple, s["dup"])))),
        ("buckets", tla(set(s["buckets"]))),
        ("empty_buckets", tla(set(s["empty_buckets"]))),
        ("stop_point", _pt(s["stop_point"])),
        ("hold_point", _pt(s["hold_point"])),
        ("tasks_to_hold", _ids_set(s["tasks_to_hold"])),
        ("rhlimit", _pt(s["rhlimit"])),
        ("paused", tla(s["paused"])), ("stalled", tla(s["stalled"])),
        ("maxfut", str(s["maxfut"] if isinstance(s["maxfut"], int) else 0)),
        ("flow_counter", str(s["flow_counter"])), ("stop_task", tla(s["stop_task"] or "none")),
    ]
    if db is not None and db.get("task_pool") is not None:
        rows = ", ".join("<<%s, %d, %s, %s, %s>>" % (tla(n), c, tla(set(f) if isinstance(f, list) else f), tla(st), tla(h))
                         for n, c, f, st, h in db["task_pool"])
        srows = ", ".join("<<%s, %d, %d, %s>>" % (tla(n), c, sn, tla(st)) for n, c, sn, st in db.get("task_states", []))
        out += [("hasdb", "TRUE"), ("dbpool", "<<" + rows + ">>"), ("dbstates", "{" + srows + "}")]
    else:
        out += [("hasdb", "FALSE"), ("dbpool", "<<>>"), ("dbstates", "{}")]
    return out

def event_tla(ev):
    e = ev["e"]
    cx = tla(set(ev.get("cx", [])))
    f = [("e", tla(e))]
    if e == "spawn":
        par = ev.get("parent")
        f += [("t", task_tla(ev["t"])), ("cx", cx), ("haspar", tla(bool(par))),
              ("parflows", tla(set(par["flows"])) if par else "{}"),
              ("parid", _id(par["id"]) if par else '<<"none", %d>>' % NOPOINT),
              ("parout", tla(par.get("out") or "none") if par else '"none"')]
    elif e == "merge":
        f += [("id", _id(ev["id"])), ("before", tla(set(ev["before"]))), ("added", tla(set(ev["added"]))),
              ("after", tla(set(ev["after"]))), ("inpool", tla(ev["inpool"]))]
    elif e == "flow":
        f += [("asked", str(ev["asked"] if isinstance(ev["asked"], int) else -1)), ("got", str(ev["got"])),
              ("new", tla(ev["new"])), ("known", tla(set(ev["known"])))]
    elif e == "cmd":
        a = ev.get("args") or {}
        ids = []
        for tk in a.get("tasks") or []:
            try:
                p_, n_ = tk.split("/")
                ids.append([n_, int(p_)])
            except ValueError:
                pass
        fl = a.get("flow") or []
        f += [("name", tla(ev["name"])), ("ids", _ids_set(ids)), ("flow", tla(set(str(x) for x in fl))),
              ("outs", tla(set(a.get("outputs") or []))), ("pres", tla(set(a.get("prerequisites") or []))),
              ("stopcp", str(int(a["cycle_point"])) if str(a.get("cycle_point") or "").lstrip("-").isdigit() else str(NOPOINT)),
              ("stoptask", _id([a["task"].split("/")[1], int(a["task"].split("/")[0])])
               if ev["name"] == "stop" and a.get("task") and a["task"].split("/")[0].lstrip("-").isdigit()
               else '<<"none", %d>>' % NOPOINT)]
    elif e == "remove":
        f += [("t", task_tla(ev["t"])), ("reason", tla("completed" if ev["reason"] == "completed" else ev["reason"])), ("cx", cx)]
    elif e == "state":
        f += [("b", task_tla(ev["b"])), ("t", task_tla(ev["t"])), ("forced", tla(ev["forced"])), ("cx", cx)]
    elif e == "prepare":
        f += [("t", task_tla(ev["t"])), ("manual", tla(ev["manual"]))]
    elif e == "msg":
        f += [("b", task_tla(ev["b"])), ("t", task_tla(ev["t"])), ("msg", tla(ev["msg"])), ("flag", tla(ev["flag"])),
              ("sub", str(ev["sub"] if ev["sub"] is not None and ev["sub"] >= 0 else ev["b"]["sub"])),
              ("forced", tla(ev["forced"])), ("ret", tla(ev["ret"])), ("inpool", tla(ev["inpool"])), ("cx", cx)]
    elif e == "q_release":
        f += [("released", _ids_seq(ev["released"])),
              ("queues_before", tla_fn({q: _Raw(_ids_seq(v)) for q, v in ev["queues_before"].items()})),
              ("queues_after", tla_fn({q: _Raw(_ids_seq(v)) for q, v in ev.get("queues_after", ev["queues_before"]).items()})),
              ("limits", tla_fn(ev["limits"])),
              ("members", tla_fn({q: set(v) for q, v in ev["members"].items()})),
              ("held", _ids_set(ev["held"])),
              ("active", tla_fn(ev["active"]))]
    elif e == "rh_compute":
        f += [("changed", tla(ev["changed"])), ("limit", _pt(ev["limit"])), ("points", tla(set(ev["points"]))),
              ("maxfut", str(ev["maxfut"] or 0)), ("stop", _pt(ev["stop"]))]
    elif e == "loop_end":
        f += _sync_fields(ev["sync"], ev.get("db"))
    elif e == "boot":
        f += [("restart", tla(ev["restart"]))] + _sync_fields(ev["sync"], ev.get("db"))
    elif e == "ds_update":
        def _sp(d):
            if d is None:
                return '[present |-> FALSE]'
            return ('[present |-> TRUE, st |-> %s, held |-> %s, queued |-> %s, rh |-> %s, flows |-> %s, outs |-> %s, preok |-> %s]'
                    % (tla(d["st"]), tla(d["held"]), tla(d["queued"]), tla(d["rh"]),
                       tla(set(d["flows"])) if isinstance(d["flows"], list) else tla(d["flows"]),
                       tla(set(d["outs"])), tla(d["preok"])))
        def _spmap(m):
            items = []
            for k, v in m.items():
                n_, p_ = k.rsplit(".", 1)
                items.append("<<%s, %d>> :> %s" % (tla(n_), int(p_), _sp(v)))
            return "(" + " @@ ".join(items) + ")" if items else "<<>>"
        f += _sync_fields(ev["sync"], None)
        f += [("store", _spmap(ev["store"])), ("client", _spmap(ev["client"])),
              ("client_equal", tla(ev["client_equal"])), ("checksum_ok", tla(ev["checksum_ok"])),
              ("diffclass", tla(ev.get("client_diff_class", "none")))]
    elif e == "xt_call":
        f += [("sig", tla(ev["sig"])), ("label", tla(ev["label"])), ("intvl", str(ev["intvl"])), ("clock", str(ev["clock"]))]
    elif e == "xt_ret":
        f += [("sig", tla(ev["sig"])), ("ok", tla(ev["ok"]))]
    elif e in ("cmd_done", "remove_flushed"):
        def _hist(h):
            items = []
            for k, rows in (h or {}).items():
                n_, p_ = k.rsplit(".", 1)
                items.append("<<%s, %d>> :> {%s}" % (tla(n_), int(p_), ", ".join(sorted({tla(set(r)) for r in rows}))))
            return "(" + " @@ ".join(items) + ")" if items else "<<>>"
        if e == "remove_flushed":
            f += [("dbhist", _hist(ev.get("dbhist")))]
        else:
            f += [("name", tla(ev["name"]))] + _sync_fields(ev["sync"], None)
    elif e in ("set_stop",):
        f += [("mode", tla(ev["mode"] or "none"))] + _sync_fields(ev["sync"], None)
    elif e in ("stall", "quiescent"):
        f += _sync_fields(ev["sync"], None)
    elif e == "sched_stop":
        f += [("reason", tla(ev["reason"]))] + _sync_fields(ev["sync"], None)
    elif e == "restored":
        f += _sync_fields(ev["sync"], ev.get("db"))
    elif e == "crash":
        pass
    elif e == "env_launch":
        f += [("job", "<<%s, %d, %d>>" % (tla(ev["job"][0]), ev["job"][1], ev["job"][2])), ("ok", tla(ev["ok"]))]
    elif e == "env_job":
        f += [("job", "<<%s, %d, %d>>" % (tla(ev["job"][0]), ev["job"][1], ev["job"][2])), ("step", tla(ev["step"]))]
    elif e == "end":
        f += [("reason", tla(ev["reason"]))]
    elif e == "loop_begin":
        f += [("clock", str(int(ev["clock"])))]
    else:
        return None
    return "[" + ", ".join(f"{k} |-> {v}" for k, v in f) + "]"

KEEP = {"loop_begin", "remove_flushed", "xt_call", "xt_ret", "quiescent", "ds_update", "merge", "flow", "cmd", "cmd_done", "env_job", "sched_stop", "restored", "crash", "env_launch", "spawn", "remove", "state", "prepare", "msg", "q_release", "rh_compute", "loop_end", "boot", "set_stop",
        "stall", "end"}

def run_tla(w_tla: str, events: list, opt: dict):
    """One element of Runs.  Returns (tla_text, index_map) where index_map[k] = original event index of
    the k-th (1-based) emitted event."""
    evs = []
    idx = []
    for ev in events:
        if ev["e"] not in KEEP:
            continue
        s = event_tla(ev)
        if s is None:
            continue
        evs.append(s)
        idx.append(ev["i"])
    o = "[" + ", ".join(f"{k} |-> {tla(v)}" for k, v in opt.items()) + "]"
    if "twin" not in opt:
        o = o[:-1] + ', hastwin |-> FALSE, twin |-> [launched |-> {}, done |-> {}, reason |-> "none"]]' 
    return "[w |-> %s,\n tr |-> <<\n  %s\n >>,\n opt |-> %s]" % (w_tla, ",\n  ".join(evs), o), idx

def write_tracedata(path: str, runs_tla: list):
    with open(path, "w") as f:
        f.write("---- MODULE TraceData ----\nEXTENDS Integers, Sequences, TLC\nRuns == <<\n")
        f.write(",\n".join(runs_tla))
        f.write("\n>>\n====\n")
