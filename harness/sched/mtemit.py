"""Render model traces (harness/sched/modeltrace.py) as the TLA+ module MTData consumed by spec/SchedMT.tla."""
from __future__ import annotations
from ..tlaemit import tla, Raw
from .tracetla import _atom, NOPOINT

def _id2(k):
    """'name.pt' -> <<"name", pt>>"""
    n, p = k.rsplit(".", 1)
    return '<<%s, %d>>' % (tla(n), int(p))

def _job(k):
    """'name.pt.sub' -> << <<"name", pt>>, sub >>"""
    n, p, s = k.rsplit(".", 2)
    return '<< <<%s, %d>>, %d >>' % (tla(n), int(p), int(s))

def _jid(j):
    return '<< <<%s, %d>>, %d >>' % (tla(j[0]), int(j[1]), int(j[2]))

def _fn(items):
    items = list(items)
    return "(" + " @@ ".join(f"{k} :> {v}" for k, v in items) + ")" if items else "<<>>"

def task_rec(t):
    return ("[st |-> %s, rh |-> %s, queued |-> %s, held |-> %s, manual |-> %s, outs |-> %s, sat |-> {%s}, sub |-> %d, efail |-> %d, sfail |-> %d]"
            % (tla(t["st"]), tla(t["rh"]), tla(t["queued"]), tla(t["held"]), tla(bool(t.get("manual"))), tla(set(t["outs"])),
               ", ".join(sorted(_atom(k) for k in t["sat"])), t["sub"], t["efail"], t["sfail"]))

def state_tla(st, qnames):
    pool = _fn((_id2(k), task_rec(v)) for k, v in sorted(st["pool"].items()))
    q = _fn((tla(qn), "<<" + ", ".join('<<%s, %d>>' % (tla(i[0]), i[1]) for i in st["q"].get(qn, [])) + ">>") for qn in qnames)
    cmds = "{" + ", ".join(_jid(c) for c in st["cmds"]) + "}"
    acks = "{" + ", ".join('<< <<%s, %d>>, %d, %s >>' % (tla(a[0]), a[1], a[2], tla(bool(a[3]))) for a in st["acks"]) + "}"
    jobs = _fn((_job(k), "[script |-> %s, pos |-> %d]" % (tla(list(v["script"])), v["pos"])) for k, v in sorted(st["jobs"].items()))
    net = _fn((_job(k), tla(list(v))) for k, v in sorted(st["net"].items()))
    rhl = NOPOINT if st["rhl"] is None else st["rhl"]
    rhb = NOPOINT if st.get("rhbase") is None else st["rhbase"]
    toh = "{" + ", ".join('<<%s, %d>>' % (tla(i[0]), i[1]) for i in st.get("tohold", [])) + "}"
    hp = NOPOINT if st.get("holdpt") is None else st["holdpt"]
    sp = NOPOINT if st.get("stop") is None else st["stop"]
    fut = "[" + ", ".join("%s |-> %d" % (t, int(v)) for t, v in sorted(st["futseen"].items())) + "]"
    trig = "{" + ", ".join('<<%s, %d>>' % (tla(i[0]), i[1]) for i in st.get("trig", [])) + "}"
    return ("[pool |-> %s, rhl |-> %d, rhbase |-> %d, q |-> %s, cmds |-> %s, acks |-> %s, jobs |-> %s, net |-> %s, stopped |-> %s, futseen |-> %s, maxfut |-> %d, tohold |-> %s, holdpt |-> %d, stop |-> %d, trig |-> %s]"
            % (pool, rhl, rhb, q, cmds, acks, jobs, net, tla(st["stopped"]), fut, int(st["maxfut"]), toh, hp, sp, trig))

def step_tla(s, qnames):
    ev, arg = s["ev"], s["arg"]
    if ev in ("CmdHoldPoint", "CmdStopPoint"):
        a = str(int(arg))
    elif ev == "CmdSetOut":
        a = '<< <<%s, %d>>, %s >>' % (tla(arg[0][0]), arg[0][1], tla(arg[1]))
    elif ev in ("QueueIfReady", "CmdHold", "CmdRelease", "CmdTrigger"):
        a = '<<%s, %d>>' % (tla(arg[0]), arg[1])
    elif ev in ("EnvLaunch", "EnvJobStep", "SubmitCallback", "Deliver", "Poll"):
        a = _jid(arg)
    else:
        a = "0"
    return "[ev |-> %s, arg |-> %s, st |-> %s]" % (tla(ev), a, state_tla(s["st"], qnames))

def write_mtdata(path, w, runs, ends=None):
    """w: gen.Workflow; runs: list of step lists; ends: how each run ended."""
    qnames = ["default"] + [q["name"] for q in w.queues]
    scripts = {t: set() for t in w.tasks}
    for steps in runs:
        for s in steps:
            for k, v in s["st"]["jobs"].items():
                scripts[k.rsplit(".", 2)[0]].add(tuple(v["script"]))
    sc = "[" + ", ".join("%s |-> {%s}" % (t, ", ".join(sorted(tla(list(x)) for x in scripts[t]))) for t in w.tasks) + "]"
    with open(path, "w") as f:
        f.write("---- MODULE MTData ----\nEXTENDS Integers, Sequences, TLC\n")
        f.write("MT_W == %s\n" % w.tla_record())
        f.write("MT_Scripts == %s\n" % sc)
        f.write("MT_SubmitFail == %s\n" % tla(set(w.tasks)))
        f.write("MT_Faults == [dup |-> 0, reorder |-> FALSE, crash |-> 0, net |-> TRUE]\n")
        f.write("MT_Stop == -999\n")
        f.write("MT_Ends == %s\n" % tla([str(e) for e in (ends or ["none"] * len(runs))]))
        f.write("MT_Runs == <<\n")
        f.write(",\n".join("<<\n  " + ",\n  ".join(step_tla(s, qnames) for s in steps) + "\n>>" for steps in runs))
        f.write("\n>>\n====\n")

CFG = """SPECIFICATION MTSpec
CONSTANTS
  W <- MT_W
  Scripts <- MT_Scripts
  SubmitFail <- MT_SubmitFail
  Faults <- MT_Faults
  StopAt <- MT_Stop
  CmdBudget = 99
  CmdKinds = {"hold", "release", "holdpt", "relall", "stoppt", "stopnow", "trigger", "set"}
  SetOuts = {"submitted", "started", "succeeded", "failed", "expired", "submit-failed", "x"}
"""
