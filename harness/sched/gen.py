"""Abstract workflow generator.

Draws an *abstract* workflow (tasks, recurrences as explicit point sets, arrows with boolean trigger
expressions, optional outputs, retries, sequential tasks, queues, runahead limit) and renders it
  (a) to flow.cylc text for the real scheduler, and
  (b) to a TLA+ record W for spec/Graph.tla,
so the specification never sees cylc's own parse of the graph.
"""
from __future__ import annotations
import random, zlib
from ..tlaemit import tla, tla_fn

TASKNAMES = ["a", "b", "c", "d", "e"]

# recurrence text -> point-set function (integer cycling, icp..fcp)
def _rec_points(text, icp, fcp):
    rng = range(icp, fcp + 1)
    if text == "P1":
        return list(rng)
    if text == "P2":
        return [p for p in rng if (p - icp) % 2 == 0]
    if text == "P3":
        return [p for p in rng if (p - icp) % 3 == 0]
    if text == "R1":
        return [icp]
    if text == "R1/+P1":
        return [icp + 1] if icp + 1 <= fcp else []
    if text == "R1/$":
        return [fcp]
    if text == "+P1/P2":
        return [p for p in rng if p >= icp + 1 and (p - icp - 1) % 2 == 0]
    if text == "+P1/P1":
        return [p for p in rng if p >= icp + 1]
    raise ValueError(text)

REC_TEXTS = ["P1", "P1", "P2", "P3", "R1", "R1/+P1", "R1/$", "+P1/P2", "+P1/P1"]

def atom(t, off=0, out="succeeded", abs_=False):
    return {"k": "atom", "t": t, "off": off, "abs": abs_, "out": out}

def atoms_of(e):
    if e is None:
        return []
    if e["k"] == "atom":
        return [e]
    return atoms_of(e["a"]) + atoms_of(e["b"])

class Workflow:
    def __init__(self):
        self.icp = 1
        self.fcp = 3
        self.start = 1
        self.stop = None
        self.recs = []        # [{"text":..., "pts":[...]}]
        self.lines = []       # [{"rec": i, "lhs": expr|None, "rhs": name, "suicide": bool}]
        self.tasks = []
        self.succ_opt = set()
        self.custom = {}      # task -> {out: optional?}
        self.stdopt = {}      # (task, std output) -> optional? for started/submitted/failed references
        self.eretry = {}
        self.sretry = {}
        self.seqtasks = set()
        self.queues = []      # [{"name","limit","members"}]
        self.rhn = 1
        self.extra = {}
        self.datetime = False # render as daily datetime cycling (point i <-> ICP + (i-1) days)
        self.expire = {}      # task -> clock-expire offset in hours (datetime mode only)
        self.xtrigs = {}      # label -> {"call": "echo(...)", "intvl": secs}
        self.xlines = []      # [{"rec": i, "xt": label, "rhs": task}]

    # ---------------------------------------------------------------- rendering: flow.cylc
    def _node(self, a):
        t = a["t"]
        s = t
        if a["abs"]:
            s += "[^]"
        elif a["off"]:
            s += "[%sP%d%s]" % ("-" if a["off"] < 0 else "+", abs(a["off"]), "D" if self.datetime else "")
        out = a["out"]
        if out == "succeeded":
            if t in self.succ_opt:
                s += "?"
        elif out == "failed":
            s += ":fail?"
        elif out in ("started", "submitted"):
            s += {"started": ":start", "submitted": ":submit"}[out]
        elif out == "submit-failed":
            s += ":submit-fail?"
        elif out == "expired":
            s += ":expire?"
        else:
            s += ":" + out + ("?" if self.custom[t][out] else "")
        return s

    def _expr(self, e, top=True):
        if e["k"] == "atom":
            return self._node(e)
        op = " & " if e["k"] == "and" else " | "
        s = self._expr(e["a"], False) + op + self._expr(e["b"], False)
        return s if top else "(" + s + ")"

    def _rhs(self, line):
        t = line["rhs"]
        s = ("!" if line["suicide"] else "") + t
        if t in self.succ_opt and not line["suicide"]:
            s += "?"
        return s

    ICP_ISO = "20330518T0000Z"      # the virtual clock starts at 2033-05-18T03:33:20Z
    def iso_point(self, i):
        import datetime
        d = datetime.datetime(2033, 5, 18) + datetime.timedelta(days=i - self.icp)
        return d.strftime("%Y%m%dT%H%MZ")
    def point_index(self):
        return {self.iso_point(i): i for i in range(self.icp - 5, self.fcp + 6)}
    def rec_text(self, text):
        if not self.datetime:
            return text
        return {"P1": "P1D", "P2": "P2D", "P3": "P3D", "R1": "R1", "R1/+P1": "R1/+P1D", "R1/$": "R1/$",
                "+P1/P2": "+P1D/P2D", "+P1/P1": "+P1D/P1D"}[text]
    def expire_epoch(self, t, p):
        """Expiry time of t at point p in seconds after the virtual clock's start (harness's own arithmetic)."""
        icp_epoch = 1_999_987_200     # 2033-05-18T00:00:00Z
        return icp_epoch + (p - self.icp) * 86400 + self.expire[t] * 3600 - 2_000_000_000

    def flow_text(self, extra_sched="", extra_runtime=""):
        out = ["[scheduler]", "    allow implicit tasks = True", "    UTC mode = True", "    [[events]]",
               "        stall timeout = PT0S", "        abort on stall timeout = False",
               "        inactivity timeout = P1Y", "        restart timeout = PT0S",
               "[scheduling]"]
        if self.datetime:
            out += [f"    initial cycle point = {self.iso_point(self.icp)}",
                    f"    final cycle point = {self.iso_point(self.fcp)}"]
        else:
            out += ["    cycling mode = integer", f"    initial cycle point = {self.icp}",
                    f"    final cycle point = {self.fcp}"]
        out += [f"    runahead limit = P{self.rhn}"]
        if self.stop is not None:
            out.append(f"    stop after cycle point = {self.stop}")
        if extra_sched:
            out.append(extra_sched)
        if self.xtrigs:
            out.append("    [[xtriggers]]")
            for lab, x in self.xtrigs.items():
                out.append(f"        {lab} = {x['call']}:PT{x['intvl']}S")
        if self.queues:
            out.append("    [[queues]]")
            for q in self.queues:
                out += [f"        [[[{q['name']}]]]", f"            limit = {q['limit']}",
                        f"            members = {', '.join(q['members'])}"]
        out.append("    [[graph]]")
        for i, r in enumerate(self.recs):
            ls = [l for l in self.lines if l["rec"] == i]
            if not ls and not any(x["rec"] == i for x in self.xlines):
                continue
            out.append(f"        {self.rec_text(r['text'])} = \"\"\"")
            for xl in [x for x in self.xlines if x["rec"] == i]:
                out.append(f"            @{xl['xt']} => " + self._rhs({"rhs": xl["rhs"], "suicide": False}))
            for l in ls:
                if l["lhs"] is None:
                    out.append("            " + self._rhs(l))
                else:
                    out.append("            " + self._expr(l["lhs"]) + " => " + self._rhs(l))
            out.append('        """')
        out.append("[runtime]")
        out += ["    [[root]]", "        script = true"]
        for t in self.tasks:
            out.append(f"    [[{t}]]")
            if self.eretry.get(t):
                out.append("        execution retry delays = " + ", ".join(["PT1S"] * self.eretry[t]))
            if self.sretry.get(t):
                out.append("        submission retry delays = " + ", ".join(["PT1S"] * self.sretry[t]))
            if self.custom.get(t):
                out.append("        [[[outputs]]]")
                for o in self.custom[t]:
                    out.append(f"            {o} = msg_{o}")
        if self.seqtasks or self.expire:
            # special tasks
            idx = out.index("    [[graph]]")
            sp = ["    [[special tasks]]"]
            if self.seqtasks:
                sp.append("        sequential = " + ", ".join(sorted(self.seqtasks)))
            if self.expire:
                sp.append("        clock-expire = " + ", ".join(
                    f"{t}({'-' if h < 0 else ''}PT{abs(h)}H)" for t, h in sorted(self.expire.items())))
            out[idx:idx] = sp
        if extra_runtime:
            out.append(extra_runtime)
        return "\n".join(out) + "\n"

    # ---------------------------------------------------------------- rendering: TLA+ record
    def required(self, t):
        """Required outputs as declared by the graph (documented rule)."""
        req = set()
        if t not in self.succ_opt:
            req.add("succeeded")
        for o, opt in (self.custom.get(t) or {}).items():
            if not opt and self._referenced(t, o):
                req.add(o)
        for l in self.lines:
            for a in atoms_of(l["lhs"]):
                if a["t"] == t and a["out"] in ("started", "submitted"):
                    req.add(a["out"])
        return req

    def _referenced(self, t, o):
        return any(a["t"] == t and a["out"] == o for l in self.lines for a in atoms_of(l["lhs"]))

    def _tla_expr(self, e):
        if e is None:
            return '[k |-> "none"]'
        if e["k"] == "atom":
            return ('[k |-> "atom", t |-> %s, off |-> %d, abs |-> %s, out |-> %s]'
                    % (tla(e["t"]), e["off"], tla(bool(e["abs"])), tla(e["out"])))
        return '[k |-> %s, a |-> %s, b |-> %s]' % (tla(e["k"]), self._tla_expr(e["a"]), self._tla_expr(e["b"]))

    def optsubfail(self):
        return {t for t in self.tasks if self._referenced(t, "submit-failed")}

    def tla_record(self):
        lines = ", ".join(
            '[rec |-> %d, lhs |-> %s, rhs |-> %s, suicide |-> %s]'
            % (l["rec"] + 1, self._tla_expr(l["lhs"]), tla(l["rhs"]), tla(bool(l["suicide"])))
            for l in self.lines + [{"rec": x["rec"], "lhs": None, "rhs": x["rhs"], "suicide": False} for x in self.xlines])
        recs = ", ".join(tla(set(r["pts"])) for r in self.recs)
        queues = ", ".join('[name |-> %s, limit |-> %d, members |-> %s]'
                           % (tla(q["name"]), q["limit"], tla(set(q["members"]))) for q in self.queues)
        f = {
            "tasks": tla(set(self.tasks)), "icp": str(self.icp), "fcp": str(self.fcp), "start": str(self.start),
            "recs": "<<" + recs + ">>", "lines": "<<" + lines + ">>",
            "seqtasks": tla(set(self.seqtasks)),
            "req": tla_fn({t: set(self.required(t)) for t in self.tasks}),
            "customs": tla_fn({t: set((self.custom.get(t) or {}).keys()) for t in self.tasks}),
            "optsucc": tla(set(self.succ_opt)), "optsubfail": tla(self.optsubfail()),
            "optexp": tla({t for t in self.tasks if self._referenced(t, "expired")}),
            "expire": tla_fn({t: {p: self.expire_epoch(t, p) for p in range(self.icp, self.fcp + 1)} for t in self.expire}),
            "eretry": tla_fn({t: self.eretry.get(t, 0) for t in self.tasks}),
            "sretry": tla_fn({t: self.sretry.get(t, 0) for t in self.tasks}),
            "queues": "<<" + queues + ">>", "rhkind": '"count"', "rhn": str(self.rhn),
            "hassuicide": tla(any(l["suicide"] for l in self.lines)),
            "xtintvl": tla_fn({lab: x["intvl"] for lab, x in self.xtrigs.items()}),
            "hasxt": tla(bool(self.xtrigs)),
        }
        return "[" + ", ".join(f"{k} |-> {v}" for k, v in f.items()) + "]"

    def describe(self):
        return {"icp": self.icp, "fcp": self.fcp, "rh": self.rhn,
                "graph": {r["text"]: [(self._expr(l["lhs"]) + " => " if l["lhs"] else "") + self._rhs(l)
                                      for l in self.lines if l["rec"] == i] for i, r in enumerate(self.recs)},
                "eretry": self.eretry, "sretry": self.sretry, "seq": sorted(self.seqtasks),
                "queues": self.queues}

# ------------------------------------------------------------------------ generation
def generate(rng: random.Random, *, features=None) -> Workflow:
    f = dict(max_tasks=4, max_fcp=4, retries=True, queues=True, sequential=True, custom=True, optional=True,
             future=True, absolute=False, suicide=False, submit_fail=True, xtriggers=False, expire=False)
    f.update(features or {})
    w = Workflow()
    w.fcp = rng.randint(2, f["max_fcp"])
    n = rng.randint(2, f["max_tasks"])
    w.tasks = TASKNAMES[:n]
    w.rhn = rng.choice([0, 1, 1, 2, 3])
    for t in w.tasks:
        w.custom[t] = {}
        if f["optional"] and rng.random() < (0.75 if f["optional"] == "often" else 0.3):
            w.succ_opt.add(t)
        if f["custom"] and (f["custom"] == "always" or rng.random() < 0.4):
            w.custom[t]["x"] = rng.random() < 0.4
        if f["retries"]:
            w.eretry[t] = rng.choice([0, 0, 0, 1, 2]) if f["retries"] != "always" else rng.choice([1, 2])
            w.sretry[t] = (rng.choice([0, 0, 0, 1]) if f["retries"] != "always" else rng.choice([0, 1, 2])) if f["submit_fail"] else 0
    w.expire_candidates = set(rng.sample(w.tasks, rng.randint(1, len(w.tasks)))) if f["expire"] else set()
    texts = rng.sample(sorted(set(REC_TEXTS)), 3 if f.get("recs") == "many" else rng.randint(1, 3))
    if not any(t.startswith("P") for t in texts):
        texts[0] = "P1"
    for tx in texts:
        pts = _rec_points(tx, w.icp, w.fcp)
        w.recs.append({"text": tx, "pts": pts})
    order = {t: i for i, t in enumerate(w.tasks)}
    def rand_atom(rhs, rec):
        t = rng.choice(w.tasks)
        r = rng.random()
        cyc = w.recs[rec]["text"].startswith(("P", "+"))
        if t == rhs or order[t] >= order[rhs]:
            # must be inter-cycle to keep each cycle acyclic
            if not cyc:
                t = rng.choice([x for x in w.tasks if order[x] < order[rhs]] or [None])
                if t is None:
                    return None
                off = 0
            else:
                off = rng.choice([-1, -1, -2])
        else:
            off = 0 if r < 0.7 or not cyc else rng.choice([-1, -2] + ([1] if f["future"] else []))
        if f["absolute"] and rng.random() < 0.35 and order[t] < order[rhs]:
            return atom(t, 0, "succeeded" if t not in w.custom or not w.custom[t] or rng.random() < 0.6 else "x", True)
        outs = ["succeeded", "succeeded", "succeeded"]
        if t in w.succ_opt:
            outs += ["failed", "failed"]
        if w.custom[t]:
            outs += ["x", "x"]
        outs += (["started"] * (3 if f.get("started") == "always" else 1)
                 if rng.random() < (0.9 if f.get("started") == "always" else 0.4 if f.get("started") else 0.15) else [])
        if f["expire"] and t in w.expire_candidates and rng.random() < 0.5:
            outs += ["expired", "expired"]
        if f["submit_fail"] and t in w.succ_opt and rng.random() < 0.1:
            outs += ["submit-failed"]
        return atom(t, off, rng.choice(outs))
    def rand_expr(rhs, rec, depth=0):
        r = rng.random()
        if depth >= 2 or r < 0.55:
            return rand_atom(rhs, rec)
        a, b = rand_expr(rhs, rec, depth + 1), rand_expr(rhs, rec, depth + 1)
        if a is None or b is None:
            return a or b
        return {"k": rng.choice(["and", "or"]), "a": a, "b": b}
    used = set()
    for i, r in enumerate(w.recs):
        k = rng.randint(1, 4)
        for _ in range(k):
            rhs = rng.choice(w.tasks)
            if rng.random() < 0.25:
                w.lines.append({"rec": i, "lhs": None, "rhs": rhs, "suicide": False})
                used.add(rhs)
                continue
            e = rand_expr(rhs, i)
            if e is None:
                w.lines.append({"rec": i, "lhs": None, "rhs": rhs, "suicide": False})
                used.add(rhs)
                continue
            w.lines.append({"rec": i, "lhs": e, "rhs": rhs, "suicide": False})
            used.add(rhs)
            used.update(a["t"] for a in atoms_of(e))
    # every task needs a sequence of its own (explicit appearance without offset)
    for t in w.tasks:
        has_seq = any((l["rhs"] == t and not l["suicide"]) or any(a["t"] == t and a["off"] == 0 and not a["abs"]
                      for a in atoms_of(l["lhs"])) for l in w.lines)
        if not has_seq:
            w.lines.append({"rec": 0, "lhs": None, "rhs": t, "suicide": False})
    if f["expire"]:
        w.datetime = True
        for t in sorted(w.expire_candidates):
            w.expire[t] = rng.choice([-30, -6, 6, 30, 54])
    if f["xtriggers"]:
        w.xtrigs["xa"] = {"call": "echo(1, succeed=True)", "intvl": rng.choice([2, 3, 5])}
        w.xtrigs["xb"] = {"call": "echo(cp=%(point)s, succeed=True)", "intvl": rng.choice([2, 4])}
        for _ in range(rng.randint(1, 3)):
            w.xlines.append({"rec": rng.randrange(len(w.recs)), "xt": rng.choice(["xa", "xb"]), "rhs": rng.choice(w.tasks)})
    # optional success only exists if the graph text says so somewhere ("t?" or "t:fail?")
    marked = {x["rhs"] for x in w.xlines}
    for l in w.lines:
        if not l["suicide"]:
            marked.add(l["rhs"])
        for a in atoms_of(l["lhs"]):
            if a["out"] in ("succeeded", "failed"):
                marked.add(a["t"])
    w.succ_opt &= marked
    if f["future"] == "always" and not any(a["off"] > 0 for l in w.lines for a in atoms_of(l["lhs"])):
        cyc = [i for i, r in enumerate(w.recs) if r["text"].startswith(("P", "+"))]
        if cyc and len(w.tasks) >= 2:
            x, y = rng.sample(w.tasks, 2)
            w.lines.append({"rec": rng.choice(cyc), "lhs": atom(x, 1, "succeeded"), "rhs": y, "suicide": False})
    if f["sequential"] and (f["sequential"] == "always" or rng.random() < 0.25):
        st = rng.choice(w.tasks)
        w.seqtasks.add(st)
        if f.get("recs") == "many":
            # the sequential task sits on every recurrence (its previous instance differs from one to the other)
            for i in range(len(w.recs)):
                if not any(l["rec"] == i and l["rhs"] == st and not l["suicide"] for l in w.lines):
                    w.lines.append({"rec": i, "lhs": None, "rhs": st, "suicide": False})
    if f["queues"] and (f["queues"] == "always" or rng.random() < 0.5):
        nq = rng.randint(1, 2)
        for qi in range(nq):
            w.queues.append({"name": f"q{qi + 1}", "limit": rng.choice([1, 1, 2]),
                             "members": sorted(rng.sample(w.tasks, rng.randint(1, len(w.tasks))))})
    return w

def make_outcome(w: Workflow, rng: random.Random, mode="complete", ghosts=False):
    """Deterministic job-outcome table (task, point, submit) -> dict(submit_ok, script).
    mode 'complete': every task eventually completes its required outputs (failures only while a retry
    remains, or where failure is optional); mode 'any': arbitrary outcomes."""
    table = {}
    seed = rng.randrange(1 << 30)
    def outcome(point, name, sub):
        key = (str(point), name, int(sub))
        if key in table:
            return table[key]
        r = random.Random(zlib.crc32(repr((seed, key)).encode()))
        n_e, n_s = w.eretry.get(name, 0), w.sretry.get(name, 0)
        script = ["started"]
        submit_ok = True
        customs = w.custom.get(name) or {}
        novanish = mode.endswith("_novanish")      # (jobs are never evicted: the design model has no polls)
        if mode in ("complete", "complete_novanish", "complete_failfirst"):
            # count earlier failures of this instance to stay within the retry budget
            prev = [table.get((str(point), name, k)) for k in range(1, int(sub))]
            efails = sum(1 for o in prev if o and o["submit_ok"] and o["script"][-1] == "failed")
            sfails_run = 0
            for o in reversed(prev):
                if o and (not o["submit_ok"] or o["script"] == ["vanish"]):
                    sfails_run += 1
                else:
                    break
            vanish = False
            if n_s > sfails_run and r.random() < 0.25:
                submit_ok = False
            elif n_s > sfails_run and r.random() < 0.2 and not novanish:
                vanish = True        # accepted by the job runner, evicted before it starts
            fail_ok = (efails < n_e) or (name in w.succ_opt)
            # ('complete_failfirst': wherever a failure is harmless - a retry remains, or success is optional - it happens)
            will_fail = fail_ok and r.random() < (0.85 if mode == "complete_failfirst" else 0.3)
            for o, opt in customs.items():
                if (not opt and not will_fail) or r.random() < 0.5:
                    script.append("msg_" + o)
                elif not opt and will_fail and efails >= n_e:
                    pass
            script.append("failed" if will_fail else "succeeded")
            if vanish:
                script = ["vanish"]
        else:
            ghost = False
            if r.random() < 0.2:
                submit_ok = False
                # the submit command reports failure although the job did reach the job runner
                ghost = ghosts and r.random() < 0.5
            for o in customs:
                if r.random() < 0.6:
                    script.append("msg_" + o)
            script.append("failed" if r.random() < 0.3 else "succeeded")
            # mode 'any_evict': most accepted jobs are evicted by the job runner before they start (found
            # submit-failed by a poll), so that submission retries are exhausted through that path
            if submit_ok and r.random() < (0.65 if mode == "any_evict" else 0.2) and not novanish:
                script = ["vanish"]
        table[key] = {"submit_ok": submit_ok, "script": script}
        if mode not in ("complete", "complete_novanish", "complete_failfirst") and not submit_ok and ghost:
            table[key]["ghost"] = True
        return table[key]
    outcome.table = table
    return outcome
