"""Scenario functions: each generates a workflow + schedule, executes it on the real scheduler and
returns a dict(seed, w_tla, events, opt, meta)."""
from __future__ import annotations
import random
from . import gen, driver

def _pack(seed, w, res, opt, extra=None):
    events = list(res.events)
    events.append({"e": "end", "i": len(events), "reason": {"auto": "AUTOMATIC"}.get(res.end, res.end or "none")})
    o = dict(manual=False, faults=False, allcomplete=False, stopreq=False, stopmid=False)
    o.update(opt)
    return {"seed": seed, "w_tla": w.tla_record(), "events": events, "opt": o, "end": res.end,
            "desc": w.describe(), "launches": [list(x) for x in res.launches], "flow": w.flow_text(), **(extra or {})}

def plain(job, rng, home):
    """No commands, no faults: random interleaving of environment actions, outcomes that let everything complete."""
    w = gen.generate(rng, features=job.get("features"))
    mode = job.get("mode", "complete")
    outcome = gen.make_outcome(w, rng, mode)
    res = driver.execute(w.flow_text(), outcome, rng.randrange(1 << 30), home, policy=job.get("policy"))
    return _pack(job["seed"], w, res, {"allcomplete": mode in ("complete", "complete_failfirst")})

def faults(job, rng, home):
    """Message duplication / delay, arbitrary outcomes."""
    w = gen.generate(rng, features=job.get("features"))
    outcome = gen.make_outcome(w, rng, job.get("mode", "any"), ghosts=True)
    pol = dict(p_dup=0.3, p_env=0.6, reorder=True, late_submit_callback=True)
    pol.update(job.get("policy") or {})
    res = driver.execute(w.flow_text(), outcome, rng.randrange(1 << 30), home, policy=pol)
    return _pack(job["seed"], w, res, {"faults": True, "allcomplete": False})

SCENARIOS = {"plain": plain, "faults": faults}

def _done_set(events):
    out = set()
    for e in events:
        if e["e"] in ("state", "msg", "prepare", "spawn") and "t" in e:
            t = e["t"]
            for o in t["outs"]:
                out.add((t["id"][0], t["id"][1], o))
    return out

def _twin(w, outcome_seed, env_seed, home, mode, policy=None):
    """Reference run: same workflow, outcome table and environment seed, no interruption."""
    import os, random
    outcome = gen.make_outcome(w, random.Random(outcome_seed), mode)
    res = driver.execute(w.flow_text(), outcome, env_seed, os.path.join(home, "twin"), policy=policy, name="twin")
    launched = {(e["t"]["id"][0], e["t"]["id"][1]) for e in res.events if e["e"] == "prepare"}
    n_events = len(res.events)
    n_iters = sum(1 for e in res.events if e["e"] == "loop_begin")
    return {"launched": launched, "done": _done_set(res.events),
            "reason": {"auto": "AUTOMATIC"}.get(res.end, res.end or "none")}, n_events, n_iters

def restart(job, rng, home):
    """Stop (clean / now) at a random iteration with the scheduler's view in sync, restart, run on; compare the
    restored state with the state at shutdown and the outcome with the uninterrupted twin."""
    import os, random
    w = gen.generate(rng, features=job.get("features"))
    mode = job.get("mode", "complete")
    oseed, eseed = rng.randrange(1 << 30), rng.randrange(1 << 30)
    twin, n_events, n_iters = _twin(w, oseed, eseed, home, mode)
    outcome = gen.make_outcome(w, random.Random(oseed), mode)
    k = rng.randint(1, max(1, n_iters - 1))
    smode = rng.choice(["REQUEST_NOW", "REQUEST_CLEAN", "REQUEST_NOW"])
    plan = {"stop": {"iter": k, "mode": smode, "restart": True, "sync": True}}
    res = driver.execute(w.flow_text(), outcome, eseed, os.path.join(home, "main"), plan=plan)
    return _pack(job["seed"], w, res, {"allcomplete": False, "stopreq": True, "hastwin": True, "twin": twin},
                 {"plan": plan})

def crash(job, rng, home):
    """Kill the scheduler at a random linearization point or inside a DB transaction, restart from the DB."""
    import os, random
    w = gen.generate(rng, features=job.get("features"))
    mode = job.get("mode", "complete")
    oseed, eseed = rng.randrange(1 << 30), rng.randrange(1 << 30)
    twin, n_events, n_iters = _twin(w, oseed, eseed, home, mode)
    outcome = gen.make_outcome(w, random.Random(oseed), mode)
    r = rng.random()
    if r < 0.3:
        # right after the k-th TaskPool.remove: its early commit has put the final task_states row in the
        # database while the task_pool / task_prerequisites tables still show the state of the last iteration
        kill = {"kind": "event", "name": "remove", "n": rng.randint(1, max(1, len(twin["launched"])))}
    elif r < 0.65:
        kill = {"kind": "emit", "n": rng.randint(8, max(9, n_events - 5))}
    else:
        kill = {"kind": "stmt", "n": rng.randint(1, max(2, n_events // 3))}
    kill["down_steps"] = rng.choice([0, 0, 1, 3])
    plan = {"kill": kill}
    res = driver.execute(w.flow_text(), outcome, eseed, os.path.join(home, "main"), plan=plan)
    return _pack(job["seed"], w, res, {"allcomplete": False, "stopreq": True, "hastwin": True, "twin": twin},
                 {"plan": plan})

SCENARIOS.update({"restart": restart, "crash": crash})

def _ids_for_cmds(w, rng, k=2):
    """Some task instance ids (spawned or future) as 'point/name' strings."""
    out = []
    for _ in range(k):
        t = rng.choice(w.tasks)
        p = rng.randint(w.icp, w.fcp)
        out.append(f"{p}/{t}")
    return out

def hold(job, rng, home):
    """hold / release / hold-point commands at random moments, optionally a stop + restart in between."""
    import os, random
    w = gen.generate(rng, features=job.get("features"))
    oseed, eseed = rng.randrange(1 << 30), rng.randrange(1 << 30)
    twin, n_events, n_iters = _twin(w, oseed, eseed, home, "complete")
    outcome = gen.make_outcome(w, random.Random(oseed), "complete")
    cmds = []
    for _ in range(rng.randint(1, 4)):
        it = rng.randint(1, max(1, n_iters))
        r = rng.random()
        if r < 0.45:
            cmds.append((it, "hold", {"tasks": _ids_for_cmds(w, rng, rng.randint(1, 2))}))
        elif r < 0.65:
            cmds.append((it, "release", {"tasks": _ids_for_cmds(w, rng, rng.randint(1, 2))}))
        elif r < 0.9:
            cmds.append((it, "set_hold_point", {"point": str(rng.randint(w.icp, w.fcp))}))
        else:
            cmds.append((it, "release_hold_point", {}))
    plan = {"cmds": cmds}
    if rng.random() < 0.6:
        plan["stop"] = {"iter": rng.randint(2, max(2, n_iters)), "mode": "REQUEST_NOW", "restart": True, "sync": True}
        r = rng.random()
        if r < 0.3:
            # a reload some time before the stop (the reload rewrites the workflow parameters table)
            cmds.append((rng.randint(1, plan["stop"]["iter"]), "reload_workflow", {}))
        elif r < 0.5:
            # stopped and restarted twice
            plan["stop2"] = {"after": rng.randint(1, 4), "mode": "REQUEST_NOW", "restart": True, "sync": True}
    res = driver.execute(w.flow_text(), outcome, eseed, os.path.join(home, "main"), plan=plan, policy=job.get("policy"))
    return _pack(job["seed"], w, res, {"allcomplete": False, "stopreq": True, "holds": True}, {"plan": plan})

def stopcmds(job, rng, home):
    """stop requests: at a cycle point / after a task / clean / now, optionally restart afterwards."""
    import os, random
    w = gen.generate(rng, features=job.get("features"))
    oseed, eseed = rng.randrange(1 << 30), rng.randrange(1 << 30)
    twin, n_events, n_iters = _twin(w, oseed, eseed, home, "complete")
    outcome = gen.make_outcome(w, random.Random(oseed), "complete")
    it = rng.randint(1, max(1, n_iters // 2))
    r = rng.random()
    if job.get("stopkind") == "point":
        r = r / 2          # (only stop-point requests)
    plan = {}
    kind = "point"
    if r < 0.5:
        sp = rng.randint(w.icp, w.fcp)
        plan["cmds"] = [(it, "stop", {"mode": None, "cycle_point": str(sp)})]
        r2 = rng.random()
        if r2 < 0.4:
            # a reload straight after (or a little after) the stop request
            plan["cmds"].append((it + rng.choice([0, 0, 1, 3]), "reload_workflow", {}))
        elif r2 < 0.6:
            # stopped (--now) and restarted before the stop point is reached: it must still be in force
            plan["stop"] = {"iter": it + rng.randint(1, 4), "mode": "REQUEST_NOW", "restart": True, "sync": True}
        elif r2 < 0.8:
            # restarted after the workflow has shut itself down at the stop point: the stop point is forgotten
            plan["restart_after_auto"] = True
    elif r < 0.7:
        kind = "task"
        plan["cmds"] = [(it, "stop", {"mode": None, "task": _ids_for_cmds(w, rng, 1)[0]})]
        r2 = rng.random()
        if r2 < 0.25:
            # reloaded, then stopped (--now) and restarted before the stop task has run: it must still be in force
            plan["cmds"].append((it + rng.choice([0, 1, 2]), "reload_workflow", {}))
            plan["stop"] = {"iter": it + rng.randint(2, 4), "mode": "REQUEST_NOW", "restart": True, "sync": True}
        elif r2 < 0.5:
            # stopped and restarted twice
            plan["stop"] = {"iter": it + rng.randint(1, 3), "mode": "REQUEST_NOW", "restart": True, "sync": True}
            plan["stop2"] = {"after": rng.randint(1, 3), "mode": "REQUEST_NOW", "restart": True, "sync": True}
    else:
        kind = rng.choice(["REQUEST_CLEAN", "REQUEST_NOW"])
        plan["stop"] = {"iter": it, "mode": kind, "restart": rng.random() < 0.5, "sync": False}
    run_opts = {}
    if kind == "point" and rng.random() < 0.5:
        # started with --stopcp, changed at run time
        run_opts["stopcp"] = str(rng.randint(w.icp, w.fcp))
    res = driver.execute(w.flow_text(), outcome, eseed, os.path.join(home, "main"), plan=plan, run_opts=run_opts)
    return _pack(job["seed"], w, res, {"allcomplete": kind == "point" and "stop" not in plan,
                                       "stopreq": kind != "point" or "stop" in plan, "stopkind": kind,
                                       "stopmid": kind == "point"},
                 {"plan": plan})

def warm(job, rng, home):
    """Warm start: start cycle point after the initial point."""
    w = gen.generate(rng, features=dict(job.get("features") or {}, max_fcp=5))
    w.start = rng.randint(w.icp + 1, w.fcp)
    outcome = gen.make_outcome(w, rng, "complete")
    res = driver.execute(w.flow_text(), outcome, rng.randrange(1 << 30), home, run_opts={"startcp": str(w.start)})
    return _pack(job["seed"], w, res, {"allcomplete": True})

def abstrig(job, rng, home):
    """Absolute triggers ([^]) with an optional stop + restart."""
    import os, random
    w = gen.generate(rng, features=dict(job.get("features") or {}, absolute=True, max_fcp=4))
    oseed, eseed = rng.randrange(1 << 30), rng.randrange(1 << 30)
    twin, n_events, n_iters = _twin(w, oseed, eseed, home, "complete")
    outcome = gen.make_outcome(w, random.Random(oseed), "complete")
    plan = {}
    r = rng.random()
    if r < 0.45:
        plan["stop"] = {"iter": rng.randint(2, max(2, n_iters)), "mode": "REQUEST_NOW", "restart": True, "sync": True}
    elif r < 0.7:
        plan["kill"] = {"kind": "emit", "n": rng.randint(20, max(21, n_events - 5)), "down_steps": 0}
    res = driver.execute(w.flow_text(), outcome, eseed, os.path.join(home, "main"), plan=plan)
    opt = {"allcomplete": not plan, "stopreq": bool(plan)}
    if plan:
        opt.update({"hastwin": True, "twin": twin})
    return _pack(job["seed"], w, res, opt, {"plan": plan})

SCENARIOS.update({"hold": hold, "stopcmds": stopcmds, "warm": warm, "abstrig": abstrig})

def cmds(job, rng, home):
    """Manual intervention: trigger / set outputs / remove / reload at random moments (with message duplication
    when job['dups'])."""
    import os, random
    w = gen.generate(rng, features=job.get("features"))
    oseed, eseed = rng.randrange(1 << 30), rng.randrange(1 << 30)
    mode = job.get("mode", "complete")
    twin, n_events, n_iters = _twin(w, oseed, eseed, home, mode)
    outcome = gen.make_outcome(w, random.Random(oseed), mode)
    known = sorted(twin["launched"])
    def family_ids(head=None, p_child=0.8):
        """an instance together with (some of) its graph children"""
        n, p = head or (rng.choice(known) if known else (rng.choice(w.tasks), w.icp))
        out = {f"{p}/{n}"}
        for l in w.lines:
            for a in gen.atoms_of(l["lhs"]):
                if a["t"] == n and not a["abs"] and rng.random() < p_child:
                    out.add(f"{p - a['off']}/{l['rhs']}")
        return sorted(out)
    # instances the reference run left unfinished although they produced outputs (failed, retained in the pool)
    unfinished = sorted({(n, p) for n, p, o in twin["done"] if o in ("failed", "submit-failed")}
                        - {(n, p) for n, p, o in twin["done"] if o == "succeeded"})
    def some_ids(k):
        out = []
        for _ in range(k):
            if known and rng.random() < 0.8:
                n, p = rng.choice(known)
            else:
                n, p = rng.choice(w.tasks), rng.randint(w.icp, w.fcp)
            out.append(f"{p}/{n}")
        return sorted(set(out))
    kinds = job.get("kinds") or ["trigger", "trigger", "set", "remove", "reload"]
    cl = []
    for _ in range(rng.randint(1, 3)):
        it = rng.randint(1, max(1, n_iters + 2))
        k = rng.choice(kinds)
        if k == "trigger":
            flow = rng.choice([[], [], ["new"], ["none"], ["1"]])
            cl.append((it, "force_trigger_tasks", {"tasks": some_ids(rng.randint(1, 3)), "flow": flow}))
        elif k == "set":
            ids = some_ids(rng.randint(1, 2))
            outs = rng.choice([None, None, ["succeeded"], ["started"], ["x"], ["failed"]])
            if outs == ["x"]:
                ids = [i for i in ids if w.custom.get(i.split("/")[1])] or ids
                if not all(w.custom.get(i.split("/")[1]) for i in ids):
                    outs = None
            cl.append((it, "set", {"tasks": ids, "flow": rng.choice([[], [], ["new"]]), "outputs": outs}))
        elif k == "set_reload":
            # an output completed by hand on a live task, then a reload: the reloaded proxy must keep it
            it = rng.randint(2, max(2, n_iters))
            cl.append((it, "set", {"tasks": ["@pooled"], "flow": [], "outputs": [rng.choice(["x", "x", "started", "submitted"])]}))
            cl.append((it + rng.choice([0, 1, 2]), "reload_workflow", {}))
        elif k == "flipflop":
            # two commands in one pass over the command queue that take a queued task's status away and back:
            # cylc set --out=failed (waiting -> failed), cylc trigger (failed -> waiting, back in its full queue)
            it = rng.randint(2, max(2, n_iters))
            cl.append((it, "set", {"tasks": ["@queued"], "flow": [], "outputs": ["failed"]}))
            cl.append((it, "force_trigger_tasks", {"tasks": ["@same"], "flow": []}))
        elif k == "group_trigger":
            cl.append((rng.randint(max(1, n_iters // 2), n_iters + 2), "force_trigger_tasks",
                       {"tasks": family_ids(), "flow": rng.choice([[], [], [], ["new"]])}))
        elif k == "retrigger_failed":
            # re-run a failed instance together with the tasks downstream of it, once things have gone quiet
            head = rng.choice(unfinished) if unfinished else None
            cl.append((max(1, n_iters - rng.randint(0, 3)), "force_trigger_tasks",
                       {"tasks": family_ids(head, 1.0), "flow": []}))
        elif k == "trigger_reload":
            # a trigger and a reload in the same batch of commands
            i1 = rng.randint(1, max(1, n_iters))
            cl.append((i1, "force_trigger_tasks", {"tasks": some_ids(rng.randint(1, 2)), "flow": rng.choice([[], [], ["none"]])}))
            cl.append((i1, "reload_workflow", {}))
        elif k == "remove_reload":
            # a pooled task is removed (its satisfied prerequisites forgotten), respawned by another parent, then
            # the workflow is reloaded: prerequisites whose upstream output is on record must stay as they are
            i1 = rng.randint(1, max(1, n_iters))
            cl.append((i1, "remove_tasks", {"tasks": some_ids(rng.randint(1, 2)), "flow": []}))
            cl.append((i1 + rng.randint(1, 6), "reload_workflow", {}))
        elif k == "retrig_remove":
            # run a finished instance again in a new flow, then remove it (from all flows, or one of them)
            i1 = rng.randint(max(1, n_iters // 2), n_iters + 2)
            tid_ = some_ids(1)
            cl.append((i1, "force_trigger_tasks", {"tasks": tid_, "flow": ["new"]}))
            cl.append((i1 + rng.choice([0, 1, 2, 4]), "remove_tasks",
                       {"tasks": tid_, "flow": rng.choice([[], [], ["1"], ["2"]])}))
        elif k == "remove":
            cl.append((it, "remove_tasks", {"tasks": some_ids(rng.randint(1, 2)), "flow": rng.choice([[], [], ["1"]])}))
        elif k == "reload_edit" and len(w.tasks) > 2:
            import copy
            w2 = copy.deepcopy(w)
            fut = sorted({l["rhs"] for l in w2.lines if any(a["off"] > 0 for a in gen.atoms_of(l["lhs"]))})
            r = rng.choice(fut) if fut and rng.random() < 0.8 else rng.choice(w2.tasks)
            w2.tasks = [t for t in w2.tasks if t != r]
            w2.lines = [l for l in w2.lines if l["rhs"] != r and not any(a["t"] == r for a in gen.atoms_of(l["lhs"]))]
            for t in w2.tasks:
                if not any((l["rhs"] == t) or any(a["t"] == t and a["off"] == 0 for a in gen.atoms_of(l["lhs"])) for l in w2.lines):
                    w2.lines.append({"rec": 0, "lhs": None, "rhs": t, "suicide": False})
            w2.seqtasks.discard(r)
            w2.succ_opt.discard(r)
            for q in w2.queues:
                q["members"] = [m for m in q["members"] if m != r] or [w2.tasks[0]]
            cl.append((it, "__rewrite_flow__", {"text": w2.flow_text(), "removed": r}))
            cl.append((it, "reload_workflow", {}))
        else:
            cl.append((it, "reload_workflow", {}))
    plan = {"cmds": cl}
    if job.get("restart"):
        # commands before and after a stop + restart
        plan["stop"] = {"iter": rng.randint(2, max(2, n_iters)), "mode": "REQUEST_NOW", "restart": True, "sync": True}
        for _ in range(2):
            cl.append((plan["stop"]["iter"] + rng.randint(1, 6), "force_trigger_tasks",
                       {"tasks": some_ids(1), "flow": ["new"]}))
            cl.insert(0, (max(1, plan["stop"]["iter"] - rng.randint(1, 6)), "set",
                          {"tasks": some_ids(1), "flow": ["new"], "outputs": None}))
    pol = dict(job.get("policy") or {})
    if job.get("dups"):
        pol.update(p_dup=0.3, p_redeliver=0.4)
        plan["react_retry_trigger"] = True
    res = driver.execute(w.flow_text(), outcome, eseed, os.path.join(home, "main"), plan=plan, policy=pol)
    return _pack(job["seed"], w, res, {"manual": True, "allcomplete": False, "stopreq": job.get("stopreq", True)},
                 {"plan": plan})

SCENARIOS["cmds"] = cmds

def xtrig(job, rng, home):
    """Workflows with xtriggers (one shared signature, one per-cycle signature); results come from the schedule."""
    w = gen.generate(rng, features=dict(job.get("features") or {}, xtriggers=True))
    outcome = gen.make_outcome(w, rng, "complete")
    pol = dict(p_xt_ok=rng.choice([0.3, 0.5, 0.8]), max_iters=600)
    pol.update(job.get("policy") or {})
    res = driver.execute(w.flow_text(), outcome, rng.randrange(1 << 30), home, policy=pol)
    return _pack(job["seed"], w, res, {"allcomplete": False, "stopreq": True})

SCENARIOS["xtrig"] = xtrig


def expire(job, rng, home):
    """Datetime cycling with clock-expire tasks; the virtual clock advances two hours per main-loop iteration."""
    feats = dict(job.get("features") or {}, expire=True, future=False, max_fcp=4)
    if rng.random() < 0.4:
        feats["queues"] = "always"      # limited queues: a manually triggered task may have to wait in its queue
    w = gen.generate(rng, features=feats)
    outcome = gen.make_outcome(w, rng, "complete")
    pol = dict(tick=rng.choice([3600.0, 7200.0, 14400.0]), max_iters=300)
    pol.update(job.get("policy") or {})
    plan = None
    manual = False
    if rng.random() < 0.4:
        # manual triggers / holds around expiry time (a triggered task must not expire)
        manual = True
        cl = []
        for _ in range(rng.randint(1, 3)):
            it = rng.randint(1, 12)
            ids = [f"{w.iso_point(rng.randint(w.icp, w.fcp))}/{rng.choice(sorted(w.expire) or w.tasks)}"]
            if rng.random() < 0.5:
                cl.append((it, "hold", {"tasks": ids}))
                cl.append((it + rng.randint(0, 2), "force_trigger_tasks", {"tasks": ids, "flow": []}))
            else:
                cl.append((it, "force_trigger_tasks", {"tasks": ids, "flow": []}))
        plan = {"cmds": cl}
    res = driver.execute(w.flow_text(), outcome, rng.randrange(1 << 30), home, policy=pol, point_index=w.point_index(),
                         plan=plan)
    return _pack(job["seed"], w, res, {"allcomplete": False, "stopreq": True, "manual": manual},
                 {"plan": plan} if plan else None)

SCENARIOS["expire"] = expire
