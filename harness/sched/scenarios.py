"""Scenario functions: each generates a workflow + schedule, executes it on the real scheduler and
returns a dict(seed, w_tla, events, opt, meta)."""
from __future__ import annotations
import random
from . import gen, driver

def _pack(seed, w, res, opt, extra=None):
    events = list(res.events)
    events.append({"e": "end", "i": len(events), "reason": {"auto": "AUTOMATIC"}.get(res.end, res.end or "none")})
    o = dict(manual=False, faults=False, allcomplete=False, stopreq=False)
    o.update(opt)
    return {"seed": seed, "w_tla": w.tla_record(), "events": events, "opt": o, "end": res.end,
            "desc": w.describe(), "launches": [list(x) for x in res.launches], "flow": w.flow_text(), **(extra or {})}

def plain(job, rng, home):
    """No commands, no faults: random interleaving of environment actions, outcomes that let everything complete."""
    w = gen.generate(rng, features=job.get("features"))
    mode = job.get("mode", "complete")
    outcome = gen.make_outcome(w, rng, mode)
    res = driver.execute(w.flow_text(), outcome, rng.randrange(1 << 30), home, policy=job.get("policy"))
    return _pack(job["seed"], w, res, {"allcomplete": mode == "complete"})

def faults(job, rng, home):
    """Message duplication / delay, arbitrary outcomes."""
    w = gen.generate(rng, features=job.get("features"))
    outcome = gen.make_outcome(w, rng, job.get("mode", "any"))
    pol = dict(p_dup=0.3, p_env=0.6, reorder=True)
    pol.update(job.get("policy") or {})
    res = driver.execute(w.flow_text(), outcome, rng.randrange(1 << 30), home, policy=pol)
    return _pack(job["seed"], w, res, {"faults": True, "allcomplete": False})

SCENARIOS = {"plain": plain, "faults": faults}
