"""External instrumentation of cylc-flow: class-level wrappers that emit one event per
linearization point (after the state change, in program order - the scheduler is single-threaded).
Enabled only by the harness (CYLC_FLOW_VERIF=1); nothing in /repo is modified."""
from __future__ import annotations
import functools, os

MSG_PREFIX = "msg_"          # custom output x has message "msg_x" in generated workflows

class Killed(BaseException):
    """Simulated abrupt death of the scheduler process (not an Exception: nothing in cylc catches it)."""

class Tracer:
    kill_emit = None      # die right after emitting event number n
    kill_stmt = None      # die right after executing private-DB statement number n (before its commit)
    kill_event = None     # [name, k]: die right after the k-th event called name (e.g. the k-th TaskPool.remove,
                          # i.e. between its early commit and the end-of-iteration rewrite of the task_pool table)
    stmt_count = 0
    def __init__(self):
        self.events = []
        self.ctx = []            # stack of enclosing critical sections
        self.enabled = True
        self.point_index = None  # optional map str(point) -> int for datetime workflows
        self.schd = None
        self.extra = {}
        self.parents = []
        self.ds_client = None
        self.ds_want = False
        self.ds_published = []
        self.ds_last_checksums = {}
    def emit(self, e, **a):
        if not self.enabled:
            return
        a["e"] = e
        a["i"] = len(self.events)
        a["cx"] = list(self.ctx)
        self.events.append(a)
        if self.kill_emit is not None and a["i"] == self.kill_emit:
            self.kill_emit = None
            raise Killed(f"event {a['i']}")
        if self.kill_event is not None and e == self.kill_event[0]:
            self.kill_event[1] -= 1
            if self.kill_event[1] <= 0:
                self.kill_event = None
                raise Killed(f"event {a['i']} ({e})")
        return a
    def pt(self, point):
        s = str(point)
        if self.point_index is not None:
            return self.point_index[s]
        return int(s)

TR = Tracer()
_installed = False

def out_name(msg_or_trigger):
    s = str(msg_or_trigger)
    return s[len(MSG_PREFIX):] if s.startswith(MSG_PREFIX) else s

def tid(itask):
    return [itask.tdef.name, TR.pt(itask.point)]

def proj(itask):
    """Abstract projection of a task proxy."""
    st = itask.state
    sat = {}
    pre = []
    for p in st.prerequisites:
        atoms = []
        for k, v in p.items():
            a = f"{k.task}.{TR.pt(k.point)}.{out_name(k.output)}"
            atoms.append(a)
            if v:
                sat[a] = {"satisfied naturally": "nat", "force satisfied": "forced",
                          "satisfied by skip mode": "skip", "satisfied from database": "db"}.get(v, str(v))
        pre.append({"atoms": sorted(atoms), "ok": bool(p.is_satisfied())})
    spre = [{"atoms": sorted(f"{k.task}.{TR.pt(k.point)}.{out_name(k.output)}" for k in p.keys()),
             "ok": bool(p.is_satisfied())} for p in st.suicide_prerequisites]
    return {
        "id": tid(itask), "st": st.status, "held": bool(st.is_held), "queued": bool(st.is_queued),
        "rh": bool(st.is_runahead), "flows": sorted(itask.flow_nums), "sub": itask.submit_num,
        "outs": sorted(out_name(t) for t in st.outputs.get_completed_outputs()),
        "sat": sat, "pre": pre, "spre": spre,
        "xsat": {k: bool(v) for k, v in sorted(st.xtriggers.items())},
        "xneed": _xneed(itask),
        "manual": bool(itask.is_manual_submit), "fwait": bool(itask.flow_wait),
        "prep": bool(itask.waiting_on_job_prep), "transient": bool(itask.transient),
        "etry": _try(itask, "execution"), "stry": _try(itask, "submission"),
        "complete": bool(st.outputs.is_complete()),
    }

def _xneed(itask):
    """Signatures of the (non-retry) xtriggers this task still waits for."""
    schd = TR.schd
    out = []
    if schd is None:
        return out
    for label, sat in itask.state.xtriggers.items():
        if sat or label.startswith("_cylc"):
            continue
        try:
            out.append(schd.xtrigger_mgr.get_xtrig_ctx(itask, label).get_signature())
        except Exception:
            pass
    return sorted(out)

def _try(itask, kind):
    from cylc.flow.task_action_timer import TimerFlags
    key = TimerFlags.EXECUTION_RETRY if kind == "execution" else TimerFlags.SUBMISSION_RETRY
    t = itask.try_timers.get(key)
    return t.num if t is not None else 0

def pool_proj(pool):
    """Projection of the pool from its *true* contents (active_tasks), not the cache."""
    tasks = []
    for point, d in pool.active_tasks.items():
        for itask in d.values():
            tasks.append(proj(itask))
    tasks.sort(key=lambda t: (t["id"][1], t["id"][0]))
    return tasks

def sync_proj(schd):
    pool = schd.pool
    cached_objs = pool.get_tasks()
    cached = sorted([tid(t) for t in cached_objs], key=lambda x: (x[1], x[0]))
    true_objs = {id(t) for d in pool.active_tasks.values() for t in d.values()}
    cache_identical = {id(t) for t in cached_objs} == true_objs
    buckets = sorted(TR.pt(p) for p in pool.active_tasks)
    empty_buckets = sorted(TR.pt(p) for p, d in pool.active_tasks.items() if not d)
    dup = []
    seen = set()
    for point, d in pool.active_tasks.items():
        for itask in d.values():
            k = (itask.tdef.name, str(itask.point))
            if k in seen:
                dup.append(list(k))
            seen.add(k)
    queues = {}
    tqm = pool.task_queue_mgr
    for qn, q in tqm.queues.items():
        queues[qn] = [tid(t) for t in reversed(q.deque)]
    return {
        "pool": pool_proj(pool), "cached": cached, "cache_identical": cache_identical, "buckets": buckets, "empty_buckets": empty_buckets, "dup": dup,
        "rhlimit": TR.pt(pool.runahead_limit_point) if pool.runahead_limit_point is not None else None,
        "queues": queues,
        "hold_point": TR.pt(pool.hold_point) if pool.hold_point is not None else None,
        "tasks_to_hold": sorted([[n, TR.pt(p)] for n, p in pool.tasks_to_hold], key=lambda x: (x[1], x[0])),
        "stop_point": TR.pt(pool.stop_point) if pool.stop_point is not None else None,
        "stop_task": pool.stop_task_id,
        "paused": bool(schd.is_paused), "stalled": bool(schd.is_stalled),
        "stop_mode": schd.stop_mode.name if schd.stop_mode else None,
        "flow_counter": pool.flow_mgr.counter,
        "maxfut": _interval_int(pool.max_future_offset),
    }

def _interval_int(iv):
    if iv is None:
        return None
    try:
        return int(iv)
    except Exception:
        return str(iv)

def _section(name):
    """Decorator factory: push a critical-section name on the context stack around the call."""
    def deco(fn):
        @functools.wraps(fn)
        def wrapper(*a, **kw):
            TR.ctx.append(name)
            try:
                return fn(*a, **kw)
            finally:
                TR.ctx.pop()
        return wrapper
    return deco

def _wrap(cls, name, maker):
    orig = getattr(cls, name)
    if getattr(orig, "_verif_wrapped", None) == maker.__name__:
        return
    new = maker(orig)
    new._verif_wrapped = maker.__name__
    new._verif_orig = orig
    setattr(cls, name, new)

def install():
    """Install the wrappers (idempotent)."""
    global _installed
    if _installed or not os.environ.get("CYLC_FLOW_VERIF"):
        return
    _installed = True
    from cylc.flow.task_pool import TaskPool
    from cylc.flow.task_proxy import TaskProxy
    from cylc.flow.task_events_mgr import TaskEventsManager
    from cylc.flow.task_job_mgr import TaskJobManager
    from cylc.flow.scheduler import Scheduler
    from cylc.flow.flow_mgr import FlowMgr
    from cylc.flow.workflow_db_mgr import WorkflowDatabaseManager
    from cylc.flow.task_outputs import TaskOutputs

    # ---- critical sections (context only)
    for cls, names in [
        (TaskPool, ["release_runahead_tasks", "spawn_on_output", "remove_if_complete", "clock_expire_tasks",
                    "release_queued_tasks", "merge_flows", "load_from_point", "spawn_next_parentless",
                    "set_prereqs_and_outputs", "hold_tasks", "release_held_tasks", "set_hold_point",
                    "release_hold_point", "set_stop_point", "queue_or_trigger", "_reload_taskdefs",
                    "load_db_task_pool_for_restart", "spawn_task", "queue_if_ready", "stop_flow"]),
        (TaskEventsManager, ["_retry_task", "_process_message_failed", "_process_message_submit_failed",
                             "_process_message_started", "_process_message_succeeded", "_process_message_submitted",
                             "_process_message_expired"]),
        (TaskJobManager, ["_prep_submit_task_job_error", "_kill_task_job_callback", "_poll_task_job_callback",
                          "_submit_task_job_callback"]),
        (Scheduler, ["kill_tasks", "_shutdown"]),
    ]:
        for n in names:
            if hasattr(cls, n):
                _wrap(cls, n, lambda orig, n=n: _section(n)(orig))

    # ---- pool membership
    def mk_add(orig):
        def add_to_pool(self, itask):
            had = itask.point in self.active_tasks and itask.identity in self.active_tasks[itask.point]
            r = orig(self, itask)
            if not had:
                par = TR.parents[-1] if TR.parents else None
                TR.emit("spawn", t=proj(itask), rhlimit=_rh(self), parent=par)
            return r
        return add_to_pool

    def mk_soo(orig):
        def spawn_on_output(self, itask, output, *a, **kw):
            TR.parents.append({"id": tid(itask), "flows": sorted(itask.flow_nums), "out": out_name(output)})
            try:
                return orig(self, itask, output, *a, **kw)
            finally:
                TR.parents.pop()
        return spawn_on_output
    _wrap(TaskPool, "spawn_on_output", mk_soo)

    def mk_merge(orig):
        def merge_flows(self, itask, flow_nums):
            before = sorted(itask.flow_nums)
            r = orig(self, itask, flow_nums)
            TR.emit("merge", id=tid(itask), before=before, added=sorted(flow_nums), after=sorted(itask.flow_nums),
                    parent=(TR.parents[-1] if TR.parents else None), inpool=_in_pool(itask))
            return r
        return merge_flows
    _wrap(TaskPool, "merge_flows", mk_merge)
    _wrap(TaskPool, "add_to_pool", mk_add)

    def mk_remove(orig):
        def remove(self, itask, reason=None):
            was_in = itask.point in self.active_tasks and itask.identity in self.active_tasks[itask.point]
            before = proj(itask)
            TR.ctx.append("remove")
            try:
                r = orig(self, itask, reason)
            finally:
                TR.ctx.pop()
            if was_in:
                TR.emit("remove", t=before, reason=reason or "completed")
            return r
        return remove
    _wrap(TaskPool, "remove", mk_remove)

    def mk_spawn_task(orig):
        def spawn_task(self, name, point, flow_nums, flow_wait=False):
            r = orig(self, name, point, flow_nums, flow_wait=flow_wait)
            if r is None:
                TR.emit("no_spawn", id=[name, TR.pt(point)], flows=sorted(flow_nums))
            return r
        return spawn_task
    _wrap(TaskPool, "spawn_task", mk_spawn_task)

    # ---- task state
    def mk_state_reset(orig):
        def state_reset(self, *a, **kw):
            b = proj(self)
            r = orig(self, *a, **kw)
            if r:
                # the data store builds throw-away proxies for its graph window: only pool members count
                TR.emit("state" if _in_pool(self) else "state_offpool", b=b, t=proj(self),
                        forced=bool(kw.get("forced", False)))
            return r
        return state_reset
    _wrap(TaskProxy, "state_reset", mk_state_reset)

    # ---- runahead
    def mk_compute(orig):
        def compute_runahead(self, force=False):
            r = orig(self, force=force)
            TR.emit("rh_compute", force=bool(force), changed=bool(r), limit=_rh(self),
                    points=sorted({TR.pt(p) for p in self.active_tasks}),
                    maxfut=_interval_int(self.max_future_offset),
                    stop=TR.pt(self.stop_point) if self.stop_point is not None else None)
            return r
        return compute_runahead
    _wrap(TaskPool, "compute_runahead", mk_compute)

    # ---- job preparation = the point where a job submission is committed to
    def mk_prep(orig):
        def prep_submit_task_jobs(self, itasks, check_syntax=True):
            itasks = list(itasks)
            before = {id(t): (t.state.status, t.submit_num) for t in itasks}
            manual = {id(t): bool(t.is_manual_submit) for t in itasks}
            r = orig(self, itasks, check_syntax=False)   # skip `bash -n` on the job file (speed)
            for t in itasks:
                st0, sub0 = before[id(t)]
                if st0 != "preparing":
                    TR.emit("prepare", t=proj(t), manual=manual[id(t)], prev=st0)
            return r
        return prep_submit_task_jobs
    _wrap(TaskJobManager, "prep_submit_task_jobs", mk_prep)

    # ---- messages
    def mk_msg(orig):
        def process_message(self, itask, severity, message, event_time=None, flag="(internal)", submit_num=None, forced=False):
            b = proj(itask)
            in_pool = not itask.transient
            TR.ctx.append("msg")
            try:
                r = orig(self, itask, severity, message, event_time, flag, submit_num, forced)
            finally:
                TR.ctx.pop()
            TR.emit("msg", b=b, t=proj(itask), msg=out_name(_norm_msg(message)), flag=_flag(flag),
                    sub=submit_num if submit_num is not None else -1,
                    forced=bool(forced), ret=_ret(r), inpool=in_pool)
            return r
        return process_message
    _wrap(TaskEventsManager, "process_message", mk_msg)

    # ---- outputs
    def mk_out(orig):
        def set_message_complete(self, message, forced=False):
            r = orig(self, message, forced)
            return r
        return set_message_complete

    # ---- queue release (what the queue manager itself releases)
    from cylc.flow.task_queues.independent import IndepQueueManager
    def mk_qrel(orig):
        def release_tasks(self, active):
            qb = {qn: [tid(t) for t in reversed(q.deque)] for qn, q in self.queues.items()}
            limits = {qn: q.limit for qn, q in self.queues.items()}
            members = {qn: sorted(q.members) for qn, q in self.queues.items()}
            held = sorted([tid(t) for q in self.queues.values() for t in q.deque if t.state.is_held],
                          key=lambda x: (x[1], x[0]))
            act = {k: v for k, v in dict(active).items() if v}
            r = orig(self, active)
            qa = {qn: [tid(t) for t in reversed(q.deque)] for qn, q in self.queues.items()}
            TR.emit("q_release", released=[tid(t) for t in r], queues_before=qb, queues_after=qa, limits=limits,
                    members=members, held=held, active=act)
            return r
        return release_tasks
    _wrap(IndepQueueManager, "release_tasks", mk_qrel)

    def mk_queue(orig):
        def queue_task(self, itask):
            r = orig(self, itask)
            TR.emit("queue", id=tid(itask))
            return r
        return queue_task
    _wrap(TaskPool, "queue_task", mk_queue)

    # ---- flows
    def mk_flow(orig):
        def get_flow(self, flow_num=None, meta=None):
            before = set(self.flows)
            c0 = self.counter
            r = orig(self, flow_num, meta)
            TR.emit("flow", asked=flow_num, got=r, new=r not in before, counter_before=c0, counter=self.counter,
                    known=sorted(before))
            return r
        return get_flow
    _wrap(FlowMgr, "get_flow", mk_flow)

    # ---- DB commit
    def mk_commit(orig):
        def process_queued_ops(self):
            r = orig(self)
            TR.emit("db_commit")
            return r
        return process_queued_ops
    _wrap(WorkflowDatabaseManager, "process_queued_ops", mk_commit)

    # ---- published data store (C25): server store vs pool, and a client copy fed only by published deltas
    def mk_uds(orig):
        async def update_data_structure(self, reloaded=False):
            r = await orig(self, reloaded)
            if TR.enabled:
                if TR.ds_want and TR.ds_client is None:
                    # the client connects now: snapshot first, then every delta published afterwards
                    ds_client_reset(self)
                _ds_client_pump(self)
                TR.emit("ds_update", sync=sync_proj(self), store=_store_proj(self), **_client_cmp(self))
            return r
        return update_data_structure
    _wrap(Scheduler, "update_data_structure", mk_uds)

    def mk_pub(orig):
        def _publish_deltas(self):
            if self.data_store_mgr.publish_pending:
                TR.ds_published.append(_serialise_all_deltas(self.data_store_mgr.publish_deltas))
            return orig(self)
        return _publish_deltas
    _wrap(Scheduler, "_publish_deltas", mk_pub)

    # ---- private-DB statements (kill points inside a transaction)
    from cylc.flow.rundb import CylcWorkflowDAO
    def mk_stmt(orig):
        def _execute_stmt(self, stmt, stmt_args_list):
            r = orig(self, stmt, stmt_args_list)
            if not self.is_public:
                TR.stmt_count += 1
                if TR.kill_stmt is not None and TR.stmt_count == TR.kill_stmt:
                    TR.kill_stmt = None
                    TR.emit("kill_in_txn", stmt=TR.stmt_count, sql=str(stmt)[:60])
                    raise Killed(f"statement {TR.stmt_count}")
            return r
        return _execute_stmt
    _wrap(CylcWorkflowDAO, "_execute_stmt", mk_stmt)

    # ---- scheduler level
    def mk_set_stop(orig):
        def _set_stop(self, stop_mode=None):
            r = orig(self, stop_mode)
            TR.emit("set_stop", mode=self.stop_mode.name if self.stop_mode else None, sync=sync_proj(self))
            return r
        return _set_stop
    _wrap(Scheduler, "_set_stop", mk_set_stop)

    def mk_stalled(orig):
        def check_workflow_stalled(self):
            was = self.is_stalled
            r = orig(self)
            if r and not was:
                TR.emit("stall", sync=sync_proj(self))
            return r
        return check_workflow_stalled
    _wrap(Scheduler, "check_workflow_stalled", mk_stalled)

    def mk_poll(orig):
        def poll_task_jobs(self, itasks, msg=None):
            itasks = list(itasks)
            TR.emit("poll_req", ids=[tid(t) for t in itasks])
            return orig(self, itasks, msg)
        return poll_task_jobs
    _wrap(TaskJobManager, "poll_task_jobs", mk_poll)

def _in_pool(itask):
    schd = TR.schd
    if schd is None or not hasattr(schd, "pool"):
        return False
    d = schd.pool.active_tasks.get(itask.point)
    return bool(d) and d.get(itask.identity) is itask

# ------------------------------------------------------------------ data store helpers (C25)
def _serialise_all_deltas(publish_deltas):
    """What goes on the wire: the serialised 'all' delta message."""
    for topic, delta, _meth in publish_deltas:
        if topic == b"all":
            return delta.SerializeToString()
    return None

def ds_client_reset(schd):
    """A client starts from the initial published snapshot (get_entire_workflow)."""
    from cylc.flow.data_messages_pb2 import PbEntireWorkflow
    from cylc.flow.data_store_mgr import (WORKFLOW, TASKS, TASK_PROXIES, JOBS, FAMILIES, FAMILY_PROXIES, EDGES)
    msg = PbEntireWorkflow()
    msg.ParseFromString(schd.data_store_mgr.get_entire_workflow().SerializeToString())
    TR.ds_client = {
        WORKFLOW: msg.workflow, TASKS: {e.id: e for e in msg.tasks}, TASK_PROXIES: {e.id: e for e in msg.task_proxies},
        JOBS: {e.id: e for e in msg.jobs}, FAMILIES: {e.id: e for e in msg.families},
        FAMILY_PROXIES: {e.id: e for e in msg.family_proxies}, EDGES: {e.id: e for e in msg.edges},
    }
    TR.ds_published = []
    TR.ds_last_checksums = {}

def _ds_client_pump(schd):
    """Apply every delta published since the last pump, in order, with cylc's own apply_delta."""
    from cylc.flow.data_store_mgr import apply_delta, DELTAS_MAP, ALL_DELTAS
    if TR.ds_client is None:
        return
    for raw in TR.ds_published:
        if raw is None:
            continue
        all_d = DELTAS_MAP[ALL_DELTAS]()
        all_d.ParseFromString(raw)
        for field, value in all_d.ListFields():
            if getattr(value, "reloaded", False) and field.name != "workflow":
                # the protocol for a reload (what cylc-uiserver's data store does): the whole topic is re-sent as
                # 'added' elements flagged `reloaded`; the client drops what it held for that topic first
                TR.ds_client[field.name].clear()
            apply_delta(field.name, value, TR.ds_client)
            if hasattr(value, "checksum") and value.checksum:
                TR.ds_last_checksums[field.name] = value.checksum
    TR.ds_published = []

def _tp_proj(tp):
    import json as _json
    try:
        flows = sorted(_json.loads(tp.flow_nums)) if tp.flow_nums else []
    except Exception:
        flows = str(tp.flow_nums)
    return {"st": tp.state, "held": bool(tp.is_held), "queued": bool(tp.is_queued), "rh": bool(tp.is_runahead),
            "flows": flows, "outs": sorted(out_name(k) for k, o in tp.outputs.items() if o.satisfied),
            "preok": all(p.satisfied for p in tp.prerequisites)}

def _store_proj(schd):
    from cylc.flow.data_store_mgr import TASK_PROXIES
    dsm = schd.data_store_mgr
    data = dsm.data[dsm.workflow_id][TASK_PROXIES]
    out = {}
    for point, d in schd.pool.active_tasks.items():
        for itask in d.values():
            tp = data.get(itask.tokens.id)
            out[f"{itask.tdef.name}.{TR.pt(itask.point)}"] = _tp_proj(tp) if tp is not None else None
    return out

def _client_cmp(schd):
    """Compare the client copy with the server store element by element (serialised form) and checksums."""
    from cylc.flow.data_store_mgr import (WORKFLOW, TASKS, TASK_PROXIES, JOBS, FAMILIES, FAMILY_PROXIES, EDGES,
                                          generate_checksum)
    if TR.ds_client is None:
        return {"client_equal": True, "client_diff": [], "checksum_ok": True, "client": {}, "client_diff_class": "none"}
    dsm = schd.data_store_mgr
    srv = dsm.data[dsm.workflow_id]
    diff = []
    only_dup_edges = True
    for key in (TASKS, TASK_PROXIES, JOBS, FAMILIES, FAMILY_PROXIES, EDGES):
        a, b = srv[key], TR.ds_client[key]
        for k in set(a) | set(b):
            if k not in a or k not in b or a[k].SerializeToString(deterministic=True) != b[k].SerializeToString(deterministic=True):
                diff.append(f"{key}:{k}")
                if not (k in a and k in b and _same_but_dup_edges(a[k], b[k], srv)):
                    only_dup_edges = False
    if srv[WORKFLOW].SerializeToString(deterministic=True) != TR.ds_client[WORKFLOW].SerializeToString(deterministic=True):
        diff.append("workflow")
        only_dup_edges = False
    ck_ok = True
    for key, ck in TR.ds_last_checksums.items():
        if key in (TASKS, TASK_PROXIES, JOBS, FAMILIES, FAMILY_PROXIES):
            mine = generate_checksum([e.stamp for e in TR.ds_client[key].values()])
            if mine != ck:
                ck_ok = False
                only_dup_edges = False
                diff.append(f"checksum:{key}")
    cli = {}
    from cylc.flow.data_store_mgr import TASK_PROXIES as _TP
    for point, d in schd.pool.active_tasks.items():
        for itask in d.values():
            tp = TR.ds_client[_TP].get(itask.tokens.id)
            cli[f"{itask.tdef.name}.{TR.pt(itask.point)}"] = _tp_proj(tp) if tp is not None else None
    return {"client_equal": not diff, "client_diff": sorted(diff)[:8], "checksum_ok": ck_ok, "client": cli,
            "client_diff_class": "none" if not diff else ("dup-refs" if only_dup_edges else "other")}

def _same_but_dup_edges(a, b, srv=None):
    """Do two elements differ only by repeated entries in their reference lists (repeated string fields such as
    `edges`, `jobs`, `child_tasks`)?  apply_delta merges an 'updated' element with MergeFrom, which appends
    repeated fields; when the referenced element is pruned later, apply_delta removes one copy only, so the
    client is left with a reference to an element that exists on neither side - still the same defect."""
    from google.protobuf.descriptor import FieldDescriptor as FD
    a2, b2 = type(a)(), type(b)()
    a2.CopyFrom(a); b2.CopyFrom(b)
    same = True
    known = set()
    if srv is not None:
        for coll in srv.values():
            if isinstance(coll, dict):
                known.update(coll)
    for fd in a2.DESCRIPTOR.fields:
        if not getattr(fd, "is_repeated", getattr(fd, "label", None) == FD.LABEL_REPEATED) or fd.type != FD.TYPE_STRING:
            continue
        ea, eb = set(getattr(a2, fd.name)), set(getattr(b2, fd.name))
        if srv is not None:
            eb = {x for x in eb if x in ea or x in known}      # drop references to elements pruned on both sides
        del getattr(a2, fd.name)[:]; del getattr(b2, fd.name)[:]
        same = same and ea == eb
    return same and a2.SerializeToString(deterministic=True) == b2.SerializeToString(deterministic=True)

def _rh(pool):
    return TR.pt(pool.runahead_limit_point) if pool.runahead_limit_point is not None else None

def _active_by_name(pool):
    out = {}
    for t in pool.get_tasks():
        if t.waiting_on_job_prep or t.state.status in ("preparing", "submitted", "running"):
            out[t.tdef.name] = out.get(t.tdef.name, 0) + 1
    return out

def _norm_msg(m):
    m = str(m)
    if m.startswith("failed/"):
        return "failed"
    return m

def _flag(f):
    return {"(internal)": "internal", "(received)": "received", "(polled)": "polled"}.get(f, str(f))

def _ret(r):
    return "poll" if r is True else "done"
