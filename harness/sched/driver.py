"""Run one execution of the real Scheduler (from /repo's working tree) in-process, under a
harness-controlled environment and schedule, and record the trace."""
from __future__ import annotations
import asyncio, json, logging, os, random, shutil, sys, time
from pathlib import Path

from . import env as envmod
from . import instrument
from .instrument import TR

TS = "2000-01-01T00:00:00Z"

class RunResult:
    def __init__(self):
        self.events = []
        self.end = None          # 'auto' | 'stalled' | 'stopped:<mode>' | 'budget' | 'error:<...>'
        self.launches = []       # [(point, name, submit)]
        self.jobs = {}
        self.error = None

class Driver:
    """One workflow run directory, possibly several scheduler incarnations (restarts)."""
    def __init__(self, flow_text: str, home: str, outcome, seed: int, *, name="w", policy=None, run_opts=None):
        self.flow_text = flow_text
        self.home = home
        self.name = name
        self.rng = random.Random(seed)
        self.world = envmod.JobWorld(outcome)
        self.net = []            # in-flight job messages: dict(key, msg, sent)
        self.delivered = []      # every message ever delivered (for late re-deliveries)
        self.policy = dict(p_dup=0.0, p_delay=0.0, p_start_first=0.0, max_iters=400, p_env=0.7)
        self.policy.update(policy or {})
        self.run_opts = run_opts or {}
        self.schd = None
        self.pool = None
        self.clock = None
        self.result = RunResult()
        self.incarnation = 0
        self.idle_iters = 0
        self.n_polls = 0

    # ------------------------------------------------------------------ set-up
    def _prepare_dirs(self):
        os.environ["HOME"] = self.home
        run_dir = Path(self.home, "cylc-run", self.name)
        run_dir.mkdir(parents=True, exist_ok=True)
        (run_dir / "flow.cylc").write_text(self.flow_text)
        return run_dir

    async def boot(self):
        """Start a scheduler on the run dir (a restart if a DB already exists)."""
        import cylc.flow.scheduler as schmod
        from cylc.flow.scheduler import Scheduler
        from cylc.flow.scheduler_cli import RunOptions
        instrument.install()
        schmod.SubProcPool = envmod.FakePool
        if self.incarnation == 0:
            self._prepare_dirs()
        self.incarnation += 1
        opts = dict(paused_start=False, run_mode="live")
        opts.update(self.run_opts)
        if self.incarnation > 1:
            # a restart is a plain `cylc play`: a --stopcp given again would (legitimately) override the stored one
            opts.pop("stopcp", None)
        schd = Scheduler(self.name, RunOptions(**opts))
        schd.INTERVAL_MAIN_LOOP = 0
        schd.INTERVAL_MAIN_LOOP_QUICK = 0
        self.schd = schd
        TR.schd = schd
        # what the private database holds before this incarnation touches it (a restart loads its pool from it)
        db_before = self.db_readback() if self.incarnation > 1 else None
        await schd.install()
        await schd.start()
        if self.clock is None:
            self.clock = envmod.VirtualClock()
        self.clock.install()
        self.pool = envmod.FakePool.current
        self.pool.on_put = self._on_put
        self.pool.on_drain = self._drain
        self.pool.on_process = self._on_process
        import cylc.flow.commands as _cm
        _cm.sleep = lambda *_a: None   # reload waits with real sleeps between its polling rounds
        TR.ds_client = None
        TR.ds_want = bool(self.policy.get("datastore"))
        TR.emit("boot", restart=bool(schd.is_restart), n=self.incarnation, sync=instrument.sync_proj(schd),
                db=db_before)
        if schd.is_restart:
            await self._restart_prelude()
        return schd

    async def _restart_prelude(self):
        """What run_scheduler() does before the main loop on restart."""
        from cylc.flow import commands
        schd = self.schd
        if schd.pool.get_tasks():
            await commands.run_cmd(commands.poll_tasks(schd, ['*/*']))
            pre = []
            for itask in schd.pool.get_tasks():
                if itask.is_manual_submit and itask.state("waiting"):
                    itask.waiting_on_job_prep = True
                    pre.append(itask)
            schd.start_job_submission(pre)

    def routine_poll(self):
        """What the submission/execution polling intervals do: poll every task that has a job out."""
        itasks = [t for t in self.schd.pool.get_tasks() if t.state("submitted", "running")]
        if not itasks or self.n_polls >= 25:
            return False
        self.n_polls += 1
        TR.emit("routine_poll", ids=[instrument.tid(t) for t in itasks])
        self.schd.task_job_mgr.poll_task_jobs(itasks)
        return True

    async def settle_after_restart(self):
        """Answer the restart poll (from the true job states), run one iteration, and log the restored state."""
        for cmd in list(self.pool.pending):
            if cmd.kind == "jobs-poll":
                self.answer(cmd)
        r = await self.loop_once()
        if r is None:
            TR.emit("restored", sync=instrument.sync_proj(self.schd), db=self.db_readback())
        return r

    def _on_process(self):
        # while a reload is flushing preparing tasks, the pool completes the pending job submissions
        if self.schd is not None and getattr(self.schd, "reload_pending", False):
            for cmd in list(self.pool.pending):
                if cmd.kind == "jobs-submit":
                    self.answer(cmd)

    def _drain(self):
        for cmd in list(self.pool.pending):
            self.answer(cmd)

    def _on_put(self, cmd):
        if cmd.kind == "xtrigger-func":
            TR.emit("xt_call", n=cmd.n, sig=cmd.ctx.get_signature(), label=cmd.ctx.label, intvl=int(cmd.ctx.intvl),
                    clock=int(self.clock.now - self.clock.BASE))
            return
        TR.emit("cmd_put", n=cmd.n, kind=str(cmd.kind), dirs=cmd.job_dirs(), refused=cmd.refused)

    # ------------------------------------------------------------------ environment actions
    def enabled_env(self):
        acts = []
        for cmd in self.pool.pending:
            if cmd.kind == "jobs-submit" and not cmd.launched:
                acts.append(("launch", cmd.n))
            else:
                acts.append(("answer", cmd.n))
        unacked = set()
        if not self.policy.get("late_submit_callback"):
            # a jobs-submit command normally returns long before its job finishes: unless the schedule
            # injects that fault, a job does not take its final step before the callback is delivered
            for cmd in self.pool.pending:
                if cmd.kind == "jobs-submit" and cmd.launched:
                    unacked.update(self._parse_dir(d) for d in cmd.job_dirs())
        for key in self.world.can_step():
            j = self.world.jobs[key]
            if key in unacked and len(j.script) <= 1:
                continue
            acts.append(("job", key))
        if self.policy.get("started_last"):
            # a realistic worst case for implied outputs: a job's "started" message is delayed until everything
            # else the job sent has arrived (the other messages keep their order)
            stepping = set(self.world.can_step())
            seen = set()
            for i, m in enumerate(self.net):
                if m["msg"] == "started":
                    if m["key"] in stepping or any(o["key"] == m["key"] and o is not m for o in self.net):
                        continue
                elif m["key"] in seen:
                    continue
                else:
                    seen.add(m["key"])
                acts.append(("deliver", i))
            return acts
        seen = set()
        for i, m in enumerate(self.net):
            # a job's messages arrive in the order it sent them unless the schedule injects reordering
            if m["key"] in seen and not self.policy.get("reorder"):
                continue
            seen.add(m["key"])
            acts.append(("deliver", i))
        if self.policy.get("p_redeliver") and self.delivered and self.rng.random() < self.policy["p_redeliver"]:
            acts.append(("redeliver", self.rng.randrange(len(self.delivered))))
        return acts

    def do_env(self, act):
        kind, arg = act
        if kind == "launch":
            cmd = self._cmd(arg)
            self.exec_submit(cmd)
        elif kind == "answer":
            cmd = self._cmd(arg)
            self.answer(cmd)
        elif kind == "job":
            self.job_step(arg)
        elif kind == "deliver":
            self.deliver(arg)
        elif kind == "redeliver":
            m = self.delivered[arg]
            self.net.append({"key": m["key"], "msg": m["msg"], "dups": 2, "late": True})
            self.deliver(len(self.net) - 1)

    def _cmd(self, n):
        for c in self.pool.pending:
            if c.n == n:
                return c
        raise KeyError(n)

    @staticmethod
    def _parse_dir(d):
        point, name, sub = d.split("/")
        return (point, name, int(sub))

    def exec_submit(self, cmd):
        """The jobs-submit command really executes: jobs come into existence."""
        lines = []
        for d in cmd.job_dirs():
            key = self._parse_dir(d)
            ok = self.world.launch(*key)
            TR.emit("env_launch", job=[key[1], TR.pt(key[0]), key[2]], ok=ok)
            if ok:
                lines.append(f"[TASK JOB SUMMARY]{TS}|{d}|0|{1000 + len(self.world.launch_log)}\n")
            else:
                lines.append(f"[TASK JOB SUMMARY]{TS}|{d}|1|None\n")
        cmd.launched = True
        cmd.result = "".join(lines)

    def answer(self, cmd):
        """Deliver the result of a recorded command to its callback."""
        ctx = cmd.ctx
        kind = cmd.kind
        if kind == "jobs-submit":
            if not cmd.launched:
                self.exec_submit(cmd)
            ctx.out = cmd.result
            ctx.ret_code = 0
        elif kind == "jobs-poll":
            if cmd.result is None:
                out = []
                for d in cmd.job_dirs():
                    key = self._parse_dir(d)
                    summ, msgs = self.world.poll_line(key, TS)
                    out.extend(msgs)
                    out.append(summ)
                    TR.emit("env_poll", job=[key[1], TR.pt(key[0]), key[2]],
                            phase=self.world.jobs[key].phase if key in self.world.jobs else "none")
                cmd.result = "".join(out)
            ctx.out = cmd.result
            ctx.ret_code = 0
        elif kind == "jobs-kill":
            out = []
            for d in cmd.job_dirs():
                key = self._parse_dir(d)
                killed = self.world.kill(key)
                TR.emit("env_kill", job=[key[1], TR.pt(key[0]), key[2]], ok=killed)
                out.append(f"[TASK JOB SUMMARY]{TS}|{d}|{0 if killed else 1}\n")
            ctx.out = "".join(out)
            ctx.ret_code = 0
        elif kind == "xtrigger-func":
            sig = ctx.get_signature()
            ok = self.rng.random() < self.policy.get("p_xt_ok", 0.4)
            ctx.out = json.dumps([ok, {"succeed": ok}])
            ctx.ret_code = 0
            TR.emit("xt_ret", n=cmd.n, sig=sig, ok=ok)
        else:
            # event handlers, remote-init
            ctx.out = ""
            ctx.ret_code = 0
        ctx.timestamp = TS
        self.pool.pending.remove(cmd)
        TR.emit("env_answer", n=cmd.n, kind=str(kind))
        if cmd.callback:
            cmd.callback(ctx, *cmd.callback_args)

    def job_step(self, key):
        msg = self.world.step(key)
        if msg is None:
            return
        TR.emit("env_job", job=[key[1], TR.pt(key[0]), key[2]], step=instrument.out_name(msg.split("/")[0]))
        self.net.append({"key": key, "msg": msg, "dups": 0})

    def deliver(self, i):
        from cylc.flow.network.resolvers import TaskMsg
        from cylc.flow.id import Tokens
        m = self.net[i]
        dup = self.rng.random() < self.policy["p_dup"] and m["dups"] < 2
        if dup:
            m["dups"] += 1
        else:
            self.net.pop(i)
        point, name, sub = m["key"]
        if not m.get("late"):
            self.delivered.append({"key": m["key"], "msg": m["msg"]})
        tokens = Tokens(cycle=point, task=name, job=str(sub))
        severity = "CRITICAL" if m["msg"].startswith("failed") else "INFO"
        self.schd.message_queue.put(TaskMsg(tokens, TS, severity, m["msg"]))
        TR.emit("msg_in", job=[name, TR.pt(point), sub], msg=instrument.out_name(m["msg"].split("/")[0]), dup=dup)

    # ------------------------------------------------------------------ main loop stepping
    async def loop_once(self):
        """One main-loop iteration. Returns None, or the SchedulerStop reason string."""
        from cylc.flow.scheduler import SchedulerStop
        schd = self.schd
        self.clock.advance(self.policy.get("tick", 1.0))
        TR.emit("loop_begin", clock=int(self.clock.now - self.clock.BASE))
        try:
            await schd._main_loop()
        except SchedulerStop as exc:
            TR.emit("sched_stop", reason=str(exc.args[0]) if exc.args else "", sync=instrument.sync_proj(schd))
            await schd.shutdown(exc)
            TR.emit("shutdown", reason=str(exc.args[0]) if exc.args else "")
            if hasattr(self, "scheduler_stopped") and exc.args and str(exc.args[0]) != "AUTOMATIC":
                self.scheduler_stopped(str(exc.args[0]))
            return str(exc.args[0]) if exc.args else "stop"
        TR.emit("loop_end", sync=instrument.sync_proj(schd), db=self.db_readback())
        if getattr(self, "pending_remove", None):
            # remove_task_from_flows queues its UPDATEs: they are in the database after this iteration's flush
            TR.emit("remove_flushed", dbhist=self.db_history(self.pending_remove))
            self.pending_remove = None
        return None

    def db_readback(self):
        """Committed private-DB state relevant to the properties."""
        import sqlite3
        path = self.schd.workflow_db_mgr.pri_path
        out = {}
        try:
            con = sqlite3.connect(f"file:{path}?mode=ro", uri=True, timeout=1)
        except Exception:
            return None
        try:
            cur = con.cursor()
            out["task_pool"] = sorted(
                [[n, TR.pt(c), _flows(f), st, bool(h)] for c, n, f, st, h in
                 cur.execute("SELECT cycle, name, flow_nums, status, is_held FROM task_pool")],
                key=lambda r: (r[1], r[0], r[2]))
            out["task_states"] = sorted(
                [[n, TR.pt(c), int(sn or 0), st] for n, c, sn, st in
                 cur.execute("SELECT name, cycle, submit_num, status FROM task_states")],
                key=lambda r: (r[1], r[0], r[2]))
        finally:
            con.close()
        return out

    async def crash(self):
        """The scheduler process dies: no shutdown code runs."""
        from cylc.flow import workflow_files
        schd = self.schd
        TR.ctx = []
        TR.emit("crash")
        try:
            schd.workflow_db_mgr.pri_dao.close()
            schd.workflow_db_mgr.pub_dao.close()
        except Exception:
            pass
        try:
            await schd.server.stop("killed")
        except Exception:
            pass
        try:
            os.unlink(workflow_files.get_contact_file_path(schd.workflow))
        except OSError:
            pass
        # commands in flight are lost; launched jobs live on
        if envmod.FakePool.current is not None:
            envmod.FakePool.current.pending = []
        self.schd = None

    async def cmd(self, name, **kw):
        """Issue a scheduler command the way the resolvers do: the validation step runs now, the command is put
        on the scheduler's own command queue and executed by process_command_queue() in the next main-loop
        iteration (which also marks the scheduler as updated, un-stalling it).  The cmd / cmd_done events are
        emitted around the execution step."""
        from contextlib import suppress
        from uuid import uuid4
        from cylc.flow import commands
        if kw.get("tasks") == ["@queued"]:
            # one task that sits in a queue right now
            ids = sorted(it.identity for it in self.schd.pool.get_tasks() if it.state.is_queued and it.state("waiting"))
            if not ids:
                self.last_ids = None
                return None
            self.last_ids = [self.rng.choice(ids)]
            kw = dict(kw, tasks=list(self.last_ids))
        elif kw.get("tasks") == ["@pooled"]:
            # one task that is in the pool right now and has not finished
            ids = sorted(it.identity for it in self.schd.pool.get_tasks() if it.state("waiting", "preparing", "submitted", "running"))
            if not ids:
                self.last_ids = None
                return None
            self.last_ids = [self.rng.choice(ids)]
            kw = dict(kw, tasks=list(self.last_ids))
        elif kw.get("tasks") == ["@same"]:
            if not getattr(self, "last_ids", None):
                return None
            kw = dict(kw, tasks=list(self.last_ids))
        args = {k: (v if isinstance(v, (int, str, bool, type(None))) else list(v)) for k, v in kw.items()}
        if TR.point_index is not None and args.get("tasks"):
            # datetime cycling: ids are logged with the integer index of their cycle point
            args["tasks"] = [f"{TR.point_index.get(t.split('/')[0], t.split('/')[0])}/{t.split('/')[1]}" if "/" in t else t
                             for t in args["tasks"]]
        schd = self.schd
        gen = commands.COMMANDS[name](schd, **kw)
        try:
            await gen.__anext__()        # validation (raises for bad input, as in Resolvers._mutation_mapper)
        except Exception as exc:
            TR.emit("cmd_rejected", name=name, args=args, error=f"{type(exc).__name__}: {exc}"[:200])
            return None
        drv = self

        async def execute():
            TR.emit("cmd", name=name, args=args)
            if hasattr(drv, "on_cmd_start"):
                drv.on_cmd_start(name, args)
            TR.ctx.append("cmd:" + name)
            ret = None
            try:
                with suppress(StopAsyncIteration):
                    ret = await gen.__anext__()
            finally:
                TR.ctx.pop()
                if name == "remove_tasks":
                    drv.pending_remove = list(kw.get("tasks") or [])
                TR.emit("cmd_done", name=name, sync=instrument.sync_proj(schd))
                if hasattr(drv, "on_cmd_done"):
                    drv.on_cmd_done(name, args)
            yield ret

        schd.command_queue.put((str(uuid4()), name, execute()))
        return None

    def db_history(self, ids):
        """Flow sets of the task_states / task_outputs rows of the given 'point/name' ids, as the
        scheduler's own connection sees them now (remove writes them directly, not through the queue)."""
        out = {}
        try:
            con = self.schd.workflow_db_mgr.pri_dao.connect()
        except Exception:
            return out
        for tk in ids:
            try:
                p_, n_ = tk.split("/")
                int(p_)
            except ValueError:
                continue
            rows = []
            for table in ("task_states", "task_outputs"):
                for (f,) in con.execute(f"SELECT flow_nums FROM {table} WHERE cycle = ? AND name = ?", (p_, n_)):
                    fl = _flows(f)
                    rows.append(fl if isinstance(fl, list) else [])
            out[f"{n_}.{p_}"] = rows
        return out

    async def stop_cmd(self, mode):
        from cylc.flow import commands
        from cylc.flow.workflow_status import StopMode
        TR.emit("stop_cmd", mode=mode)
        await commands.run_cmd(commands.stop(self.schd, mode=StopMode[mode] if mode else None))

def _flows(s):
    try:
        return sorted(json.loads(s))
    except Exception:
        return str(s)

async def run_to_end(drv: Driver, hooks=None):
    """Default policy: interleave main-loop iterations with random enabled environment actions until the
    scheduler shuts itself down, or is quiescent (stalled / nothing enabled), or the budget is exhausted."""
    rng = drv.rng
    res = drv.result
    await drv.boot()
    iters = 0
    quiet = 0
    try:
        while True:
            iters += 1
            n_before = len(TR.events)
            reason = await drv.loop_once()
            if reason is not None:
                res.end = "auto" if reason == "AUTOMATIC" else f"stopped:{reason}"
                break
            if hooks:
                r = await hooks(drv, iters)
                if r == "end":
                    break
            acts = drv.enabled_env()
            did = 0
            while acts and rng.random() < drv.policy["p_env"]:
                drv.do_env(rng.choice(acts))
                did += 1
                acts = drv.enabled_env()
            busy = did or any(e["e"] not in ("loop_begin", "loop_end", "rh_compute", "db_commit", "q_release")
                              for e in TR.events[n_before:])
            quiet = 0 if (busy or acts) else quiet + 1
            if quiet == 2 and drv.routine_poll():
                quiet = 0
            if quiet >= 3:
                res.end = "stalled" if drv.schd.is_stalled else "quiescent"
                TR.emit("quiescent", stalled=bool(drv.schd.is_stalled), sync=instrument.sync_proj(drv.schd))
                break
            if iters >= drv.policy["max_iters"]:
                res.end = "budget"
                break
    finally:
        if drv.schd is not None and res.end != "auto" and not (res.end or "").startswith("stopped"):
            await teardown(drv)
    res.launches = list(drv.world.launch_log)
    res.jobs = {f"{k[0]}/{k[1]}/{k[2]}": {"phase": j.phase, "emitted": list(j.emitted)} for k, j in drv.world.jobs.items()}
    return res

async def run_plan(drv: Driver, plan: dict):
    """Like run_to_end, plus: commands at given iterations, a stop request followed by a restart, and an
    abrupt kill (at an emitted event or inside a DB transaction) followed by a restart.

    plan = {cmds: [(iter, name, kwargs)], stop: {iter, mode, restart, sync}, kill: {kind: emit|stmt, n, down_steps}}
    """
    from .instrument import Killed
    rng = drv.rng
    res = drv.result
    cmds = sorted(plan.get("cmds", []), key=lambda c: c[0])
    stop = plan.get("stop")
    kill = plan.get("kill")
    if kill:
        if kill["kind"] == "emit":
            TR.kill_emit = kill["n"]
        elif kill["kind"] == "event":
            TR.kill_event = [kill["name"], int(kill["n"])]
        else:
            TR.stmt_count = 0
            TR.kill_stmt = kill["n"]
    iters = 0
    quiet = 0
    stop_requested = False
    reauto = False
    reacted = set()
    try:
        try:
            await drv.boot()
        except Killed:
            try:
                await _crash_and_reboot(drv, kill)
            except RestartFailed:
                res.end = "restart_failed"
        while res.end is None:
            iters += 1
            n_before = len(TR.events)
            try:
                while cmds and cmds[0][0] <= iters:
                    _, name, kw = cmds.pop(0)
                    if name == "__rewrite_flow__":
                        # the user edits flow.cylc in the run directory (picked up by the next reload)
                        Path(drv.home, "cylc-run", drv.name, "flow.cylc").write_text(kw["text"])
                        TR.emit("flow_edited", removed=kw.get("removed"))
                        continue
                    await drv.cmd(name, **kw)
                if stop and not stop_requested and iters >= stop["iter"]:
                    if stop.get("sync"):
                        # bring the scheduler's view in line with the job world before stopping
                        for _ in range(50):
                            acts = [a for a in drv.enabled_env() if a[0] != "job"]
                            if not acts:
                                break
                            for a in acts:
                                if a in drv.enabled_env():
                                    drv.do_env(a)
                            if await drv.loop_once() is not None:
                                break
                    if drv.schd is not None and drv.schd.stop_mode is None:
                        await drv.stop_cmd(stop["mode"])
                    stop_requested = True
                if plan.get("react_retry_trigger") and drv.schd is not None:
                    for itask in drv.schd.pool.get_tasks():
                        if (itask.state("waiting") and instrument._try(itask, "execution") > 0
                                and itask.identity not in reacted and drv.rng.random() < 0.7):
                            reacted.add(itask.identity)
                            await drv.cmd("force_trigger_tasks", tasks=[itask.identity], flow=[])
                reason = await drv.loop_once()
                if reason is not None:
                    if stop_requested and stop and stop.get("restart", True) and reason != "AUTOMATIC":
                        stop = None
                        stop_requested = False
                        if plan.get("stop2"):
                            # a second stop + restart, some iterations after the first restart
                            stop = dict(plan["stop2"], iter=iters + int(plan["stop2"].get("after", 2)))
                            plan = dict(plan, stop2=None)
                        drv.net = []          # messages in flight while the scheduler is down are lost
                        await drv.boot()
                        await drv.settle_after_restart()
                        quiet = 0
                        continue
                    if reason == "AUTOMATIC" and plan.get("restart_after_auto") and not reauto:
                        # the workflow shut itself down (e.g. at its stop point); the operator starts it again
                        reauto = True
                        drv.net = []
                        await drv.boot()
                        r2 = await drv.settle_after_restart()
                        if r2 is not None:
                            res.end = "auto" if r2 == "AUTOMATIC" else f"stopped:{r2}"
                            break
                        quiet = 0
                        continue
                    res.end = "auto" if reason == "AUTOMATIC" else f"stopped:{reason}"
                    break
                acts = drv.enabled_env()
                did = 0
                while acts and rng.random() < drv.policy["p_env"]:
                    drv.do_env(rng.choice(acts))
                    did += 1
                    acts = drv.enabled_env()
            except Killed:
                try:
                    await _crash_and_reboot(drv, kill)
                except RestartFailed:
                    res.end = "restart_failed"
                    break
                quiet = 0
                continue
            busy = did or any(e["e"] not in ("loop_begin", "loop_end", "rh_compute", "db_commit", "q_release")
                              for e in TR.events[n_before:])
            quiet = 0 if (busy or acts) else quiet + 1
            try:
                if quiet == 2 and drv.routine_poll():
                    quiet = 0
                if quiet >= 3:
                    res.end = "stalled" if drv.schd.is_stalled else "quiescent"
                    TR.emit("quiescent", stalled=bool(drv.schd.is_stalled), sync=instrument.sync_proj(drv.schd))
                    break
            except Killed:
                # (the kill point fell on an event emitted by the harness's own polling / quiescence bookkeeping)
                res.end = None
                try:
                    await _crash_and_reboot(drv, kill)
                except RestartFailed:
                    res.end = "restart_failed"
                    break
                quiet = 0
                continue
            if iters >= drv.policy["max_iters"]:
                res.end = "budget"
                break
    finally:
        TR.kill_emit = TR.kill_stmt = TR.kill_event = None
        if drv.schd is not None and res.end != "auto" and not (res.end or "").startswith("stopped"):
            await teardown(drv)
    res.launches = list(drv.world.launch_log)
    res.jobs = {f"{k[0]}/{k[1]}/{k[2]}": {"phase": j.phase, "emitted": list(j.emitted)} for k, j in drv.world.jobs.items()}
    return res

async def _crash_and_reboot(drv, kill):
    from .instrument import Killed
    # commands already launched keep running; their results are lost with the process
    await drv.crash()
    # jobs go on while the scheduler is down; what they send is lost
    for _ in range(int((kill or {}).get("down_steps", 0))):
        keys = drv.world.can_step()
        if not keys:
            break
        k = drv.rng.choice(keys)
        msg = drv.world.step(k)
        TR.emit("env_job", job=[k[1], TR.pt(k[0]), k[2]], step=instrument.out_name((msg or "").split("/")[0]), lost=True)
    drv.net = []
    try:
        await drv.boot()
    except Killed:
        raise
    except Exception as exc:
        # the database left behind by the dead process cannot be restarted from
        TR.emit("restart_failed", error=f"{type(exc).__name__}: {exc}"[:200])
        drv.schd = None
        raise RestartFailed(str(exc)) from None
    await drv.settle_after_restart()

class RestartFailed(Exception):
    pass

async def teardown(drv):
    from cylc.flow.scheduler import SchedulerStop
    TR.enabled = False
    try:
        async with asyncio.timeout(10):
            await drv.schd.shutdown(SchedulerStop("harness teardown"))
    except Exception:
        pass
    finally:
        TR.enabled = True

def execute(flow_text, outcome, seed, home, *, policy=None, run_opts=None, runner=run_to_end, hooks=None, name="w",
            plan=None, point_index=None, driver_cls=None):
    """Synchronous entry point: returns (RunResult, events)."""
    logging.disable(logging.CRITICAL)
    TR.events = []
    TR.ctx = []
    TR.parents = []
    TR.point_index = point_index
    TR.enabled = True
    drv = (driver_cls or Driver)(flow_text, home, outcome, seed, policy=policy, run_opts=run_opts, name=name)
    async def main():
        if plan is not None:
            return await run_plan(drv, plan)
        return await runner(drv, hooks) if hooks is not None else await runner(drv)
    try:
        res = asyncio.run(main())
    finally:
        if drv.clock:
            drv.clock.uninstall()
        logging.disable(logging.NOTSET)
    res.events = TR.events
    res.driver = drv
    return res
