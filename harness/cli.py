"""./check Cnn [--tier quick|thorough] [--seed N] [--replay FILE]"""
from __future__ import annotations
import argparse, importlib, json, os, sys, traceback

VERIF = os.path.dirname(os.path.dirname(os.path.abspath(__file__)))
sys.path.insert(0, VERIF)
os.environ.setdefault("PYTHONHASHSEED", "0")

from harness import common  # noqa: E402

def load_fragment(prop):
    p = os.path.join(VERIF, "checks.d", f"{prop}.json")
    if not os.path.exists(p):
        raise SystemExit(f"no check registered for {prop}")
    return json.load(open(p))

def main():
    ap = argparse.ArgumentParser()
    ap.add_argument("prop")
    ap.add_argument("--tier", default=os.environ.get("VERIF_TIER", "quick"), choices=["quick", "thorough"])
    ap.add_argument("--seed", type=int, default=int(os.environ.get("VERIF_SEED", "0") or 0))
    ap.add_argument("--replay")
    a = ap.parse_args()
    if os.environ.get("PYTHONHASHSEED") != "0":
        os.environ["PYTHONHASHSEED"] = "0"
        os.execv(sys.executable, [sys.executable] + sys.argv)
    os.environ["CYLC_FLOW_VERIF"] = "1"
    frag = load_fragment(a.prop)
    ctx = common.Ctx(a.prop, a.tier, a.seed, frag["level_claimed"]["category"])
    try:
        mod = importlib.import_module(frag["module"])
        if a.replay:
            mod.replay(ctx, json.load(open(a.replay)))
        else:
            mod.run(ctx)
        rc = common.finish(ctx)
    except Exception:
        traceback.print_exc()
        print(f"MACHINERY-FAILURE property={a.prop}", file=sys.stderr)
        rc = 2
    finally:
        ctx.cleanup()
    sys.exit(rc)

if __name__ == "__main__":
    main()
