"""C12: required / optional classification of outputs, validation consistency, skip-mode default outputs.

Oracle = spec/oracle/BoolExpr.tla.  TLC enumerates and/or expressions over pools of four output variables
(every monotone boolean function of the pool in DNF and CNF; every binary tree with <= 4 leaves, depth <= 3)
and computes for each, from the statement of C12 and the documented rule only:
  * the classification of every variable (required / optional / unreferenced),
  * for every legal graph declaration over the pool whether validation must accept, must reject, or is not
    decided by the documentation,
  * whether the skip-mode clause applies.
The harness replays every case on the real code:
  get_optional_outputs, TaskOutputs.iter_required_messages, run_modes.skip.process_outputs (on TaskOutputs built
  from a real TaskDef) and WorkflowConfig._check_completion_expression (called on a real WorkflowConfig whose tasks
  carry each declaration, as produced by the real graph parser); a sample of (expression, declaration) pairs is in
  addition pushed through the whole WorkflowConfig pipeline from a generated flow.cylc.
"""
from __future__ import annotations
import copy, os
from concurrent.futures import ThreadPoolExecutor
from types import SimpleNamespace
from harness import oracle, common, tlc, tlaparse
from harness.engines import completion as C11

POOLS = {1: ["succeeded", "failed", "x", "y"],
         2: ["succeeded", "x", "expired", "submit_failed"],
         3: ["succeeded", "failed", "x", "expired"]}
CLS_SEQ = ["succeeded", "failed", "x", "y", "expired", "submit_failed", "submitted", "started"]
CLS_NAME = {"r": "required", "o": "optional", "-": "unreferenced"}
CLS_OF = {False: "r", True: "o", None: "-"}           # get_optional_outputs: is_optional False / True / None
PREEXEC = {"expired", "submit_failed"}
MARK = "uro"                                          # digit of a declaration index -> mark
PROCS = 8
E2E_ACCEPT = 240
E2E_REJECT = 60

_CFG = None        # the real WorkflowConfig carrying one task per (pool, declaration); set before forking


def trig(v):
    return v.replace("_", "-")


def decl_code(pool, idx):
    """7-letter declaration code (completion.VARS order) of declaration `idx` over `pool`."""
    marks = {}
    for j, v in enumerate(POOLS[pool]):
        marks[v] = MARK[idx // 3 ** j % 3]
    return "".join(marks.get(v, "u") for v in C11.VARS)


def decl_text(pool, idx):
    return {trig(v): {"r": "required", "o": "optional"}[MARK[idx // 3 ** j % 3]]
            for j, v in enumerate(POOLS[pool]) if idx // 3 ** j % 3}


def tname(pool, idx):
    return f"p{pool}d{idx}"


def build_config(scratch, legal):
    """legal: {pool: set of declaration indices}.  One task per declaration, declared through the real graph parser."""
    defs = [(tname(p, i), decl_code(p, i), "") for p in sorted(legal) for i in sorted(legal[p])]
    defs.append(("plain", "uuuuuuu", ""))
    from cylc.flow.exceptions import CylcError
    try:
        cfg = C11.load_config(scratch, C11.flow_text(defs))
    except CylcError as exc:
        raise common.MachineryError(f"declaration workflow rejected: {exc}")
    # the marks that reach the TaskDef must be the declared ones (plus cylc's presumed success)
    for t, code, _ in defs:
        outs = cfg.taskdefs[t].outputs
        for v, m in zip(C11.VARS, code):
            got = outs[trig(v)][1]
            want = {"r": True, "o": False, "u": None}[m]
            if v == "succeeded" and m == "u" and code[1] == "u":
                want = True
            if got is not want:
                raise common.MachineryError(f"task {t} declared {code}: output {v} has required={got}")
    return cfg


def msg_class(text):
    if "but required in the completion" in text:
        return "optional-in-graph-required-in-expression"
    if "but not referenced in the completion" in text:
        return "required-in-graph-unreferenced-in-expression"
    if "permitted in the graph but is not referenced" in text:
        return "preexec-optional-in-graph-unreferenced-in-expression"
    if "but optional in the completion" in text:
        return "required-in-graph-optional-in-expression"
    return "other-error"


def weak_reason(pool, idx, cls):
    """Which clause of the documented rule the pair (declaration, classification) breaks."""
    for j, v in enumerate(POOLS[pool]):
        m = MARK[idx // 3 ** j % 3]
        c = cls[v]
        kind = "preexec" if v in PREEXEC else "output"
        if m == "r" and c != "r":
            return f"declared-required:expression-{CLS_NAME[c]}:{kind}"
        if m == "o" and (c == "r" or (v in PREEXEC and c != "o")):
            return f"declared-optional:expression-{CLS_NAME[c]}:{kind}"
    return "none"


def either_zone(pool, idx, cls):
    m = {v: MARK[idx // 3 ** j % 3] for j, v in enumerate(POOLS[pool])}
    z = []
    if m.get("succeeded", "u") == "u" and m.get("failed", "u") == "u" and cls["succeeded"] != "r":
        z.append("success-presumed-required")
    if m.get("succeeded") == "o" and m.get("failed", "u") == "u" and cls["failed"] == "r":
        z.append("failed-implicitly-optional")
    if m.get("succeeded") == "o" and m.get("failed", "u") == "u" and cls["failed"] == "-":
        z.append("failed-implicitly-optional-unreferenced")
    if any(m[v] == "o" and cls[v] == "-" for v in m):
        z.append("optional-in-graph-unreferenced")
    return "+".join(z) or "other"


def validate(task, src):
    """-> ('accept', '') | ('reject', message) | ('crash', repr)"""
    from cylc.flow.exceptions import WorkflowConfigError
    try:
        _CFG._check_completion_expression(task, src, False)
        return "accept", ""
    except WorkflowConfigError as exc:
        return "reject", str(exc)
    except Exception as exc:       # anything else escaping validation is a crash, not a verdict
        return "crash", f"{type(exc).__name__}: {exc}"


def check_case(case):
    """case = dict(pool, src, cls (8 letters), depth, accept, reject, legal, skip).
    Returns (violations, stats)."""
    from cylc.flow.task_outputs import get_optional_outputs, TaskOutputs
    from cylc.flow.run_modes.skip import process_outputs
    viol = []
    st = {"classify": 0, "validate": 0, "either": {}, "skip": 0, "skip_na": 0}
    src, pool = case["src"], case["pool"]
    cls = dict(zip(CLS_SEQ, case["cls"]))
    rp = {"case": {k: (sorted(v) if isinstance(v, (set, frozenset)) else v) for k, v in case.items()}}
    base = _CFG.taskdefs["plain"]

    # (1) classification
    got = get_optional_outputs(src, base.outputs)
    st["classify"] += 1
    for v in CLS_SEQ:
        g = CLS_OF.get(got.get(v, "missing"), "?")
        if g != cls[v]:
            viol.append((f"classify:{v}:expected-{CLS_NAME[cls[v]]}:got-{CLS_NAME.get(g, g)}",
                         f"get_optional_outputs({src!r}): {v} classified {CLS_NAME.get(g, g)}, C12 definition gives "
                         f"{CLS_NAME[cls[v]]}", rp))
    # (2) required messages of a TaskOutputs built from a TaskDef with this completion
    tdef = copy.copy(base)
    tdef.rtconfig = {**base.rtconfig, "completion": src}
    outs = TaskOutputs(tdef)
    req = {v for v in CLS_SEQ if cls[v] == "r"}
    gotreq = {outs._message_to_compvar[m] for m in outs.iter_required_messages()}
    for v in sorted(req ^ gotreq):
        viol.append((f"required-messages:{v}:{'missing' if v in req else 'extra'}",
                     f"iter_required_messages() for {src!r} yields {sorted(gotreq)}, required outputs are {sorted(req)}", rp))
    # (3) skip mode default outputs
    if case["skip"]:
        st["skip"] += 1
        itask = SimpleNamespace(state=SimpleNamespace(outputs=outs))
        for rtc in ({"skip": {"outputs": []}}, None):
            sk = {outs._message_to_compvar.get(m, m) for m in process_outputs(itask, rtc)}
            for v in sorted(req - sk):
                viol.append((f"skip:required-output-not-generated:{v}",
                             f"completion {src!r} requires {sorted(req)} but skip mode generates {sorted(sk)} by default", rp))
            if len(sk & {"succeeded", "failed"}) != 1:
                viol.append(("skip:not-exactly-one-of-succeeded-failed",
                             f"completion {src!r}: skip mode generates {sorted(sk)} by default", rp))
    else:
        st["skip_na"] += 1
    # (4) validation against every legal graph declaration
    for idx in sorted(case["legal"]):
        verdict, msg = validate(tname(pool, idx), src)
        st["validate"] += 1
        exp = "accept" if idx in case["accept"] else "reject" if idx in case["reject"] else "either"
        rpd = dict(rp, decl=idx)
        if verdict == "crash":
            viol.append((f"validate:crash:{msg.split(':')[0]}",
                         f"validating completion {src!r} against graph {decl_text(pool, idx)}: {msg}", rpd))
        elif exp == "reject" and verdict == "accept":
            viol.append((f"validate:accepted-inconsistent:{weak_reason(pool, idx, cls)}",
                         f"completion {src!r} (classification {cls_text(cls)}) accepted although the graph declares "
                         f"{decl_text(pool, idx)}", rpd))
        elif exp == "accept" and verdict == "reject":
            viol.append((f"validate:rejected-consistent:{msg_class(msg)}",
                         f"completion {src!r} (classification {cls_text(cls)}) is consistent with graph "
                         f"{decl_text(pool, idx)} under every reading but was rejected: {msg.splitlines()[0]}", rpd))
        elif exp == "either":
            k = f"{either_zone(pool, idx, cls)}:{verdict}"
            st["either"][k] = st["either"].get(k, 0) + 1
    return viol, st


def cls_text(cls):
    return {v: CLS_NAME[c] for v, c in cls.items() if c != "-"}


def _work(cases):
    out_v, agg = [], {"classify": 0, "validate": 0, "either": {}, "skip": 0, "skip_na": 0}
    seen = set()
    for c in cases:
        v, st = check_case(c)
        for item in v:
            if item[0] not in seen:
                seen.add(item[0])
                out_v.append(item)
        for k in ("classify", "validate", "skip", "skip_na"):
            agg[k] += st[k]
        for k, n in st["either"].items():
            agg["either"][k] = agg["either"].get(k, 0) + n
    return out_v, agg


def dump(cfg):
    mod = os.path.join(oracle.ORACLE_DIR, "BoolExpr.tla")
    res, states = tlc.dump_states(mod, os.path.join(oracle.ORACLE_DIR, cfg + ".cfg"), workers=2, timeout=1500)
    if not res.ok:
        raise tlc.TLCError(f"BoolExpr/{cfg} did not check cleanly: {res.kind} {res.violated}\n{res.out[-2000:]}")
    return cfg, res, states


def load_cases(ctx):
    cfgs = ["BoolExpr", "BoolExpr_tree3", "BoolExpr_tree4" if ctx.quick else "BoolExpr_tree4d"]
    with ThreadPoolExecutor(len(cfgs)) as ex:
        results = list(ex.map(dump, cfgs))
    cases, legal = [], {}
    cov = ctx.coverage
    for cfg, res, states in results:
        cov["states"] = cov.get("states", 0) + res.distinct
        cov["transitions"] = cov.get("transitions", 0) + res.generated
        cov.setdefault("tlc_models", []).append({"module": "BoolExpr", "cfg": cfg, "distinct": res.distinct,
                                                 "generated": res.generated, "wall_s": round(res.wall_s, 2),
                                                 "cases": sum(len(s["batch"]) for s in states)})
        for s in states:
            legal.setdefault(s["pool"], set()).update(s["legal"])
            for src, cls, depth, acc, rej, skip in s["batch"]:
                cases.append({"family": cfg, "pool": s["pool"], "src": src, "cls": cls, "depth": depth,
                              "accept": set(acc), "reject": set(rej), "legal": set(s["legal"]), "skip": skip})
    cases.sort(key=lambda c: (c["family"], c["pool"], c["src"]))
    return cases, legal


def e2e(ctx, cases):
    """Push a sample of (expression, declaration) pairs through the whole WorkflowConfig pipeline."""
    rng = ctx.rng
    pairs_acc, pairs_rej = [], []
    with_decl = [c for c in cases if c["legal"]]
    for c in rng.sample(with_decl, min(len(with_decl), 4 * E2E_ACCEPT)):
        if c["accept"] and len(pairs_acc) < E2E_ACCEPT:
            pairs_acc.append((c, rng.choice(sorted(c["accept"]))))
        if c["reject"] and len(pairs_rej) < E2E_REJECT:
            pairs_rej.append((c, rng.choice(sorted(c["reject"]))))
    defs = [(f"a{i}", decl_code(c["pool"], idx), c["src"]) for i, (c, idx) in enumerate(pairs_acc)]
    loaded, errs = C11.load_defs(ctx.scratch, defs)
    for (t, code, src), err in errs:
        c, idx = pairs_acc[int(t[1:])]
        ctx.violation(f"e2e:rejected-consistent:{msg_class(err)}",
                      f"flow.cylc with graph declaring {decl_text(c['pool'], idx)} and completion = {src} is consistent "
                      f"under every reading but fails validation: {err.splitlines()[0]}",
                      {"case": {k: (sorted(v) if isinstance(v, set) else v) for k, v in c.items()}, "decl": idx})
    for t, td in loaded.items():
        c, idx = pairs_acc[int(t[1:])]
        if td.rtconfig["completion"] != c["src"]:
            raise common.MachineryError(f"completion of {t} changed on load")
    n_rej = 0
    for i, (c, idx) in enumerate(pairs_rej):
        loaded, errs = C11.load_defs(ctx.scratch, [(f"r{i}", decl_code(c["pool"], idx), c["src"])])
        if loaded:
            cls = dict(zip(CLS_SEQ, c["cls"]))
            ctx.violation(f"e2e:accepted-inconsistent:{weak_reason(c['pool'], idx, cls)}",
                          f"flow.cylc with graph declaring {decl_text(c['pool'], idx)} and completion = {c['src']} "
                          f"(classification {cls_text(cls)}) validates",
                          {"case": {k: (sorted(v) if isinstance(v, set) else v) for k, v in c.items()}, "decl": idx})
        else:
            n_rej += 1
            if msg_class(errs[0][1]) == "other-error":
                raise common.MachineryError(f"unexpected validation error for {c['src']!r}: {errs[0][1]}")
    return len(pairs_acc), len(pairs_rej)


def run(ctx):
    global _CFG
    cases, legal = load_cases(ctx)
    _CFG = build_config(ctx.scratch, legal)
    n = max(1, len(cases) // (PROCS * 4))
    chunks = [cases[i:i + n] for i in range(0, len(cases), n)]
    results = C11.pmap(_work, chunks, PROCS)
    agg = {"classify": 0, "validate": 0, "either": {}, "skip": 0, "skip_na": 0}
    for viol, st in results:
        for key, text, rp in viol:
            ctx.violation(key, text, rp)
        for k in ("classify", "validate", "skip", "skip_na"):
            agg[k] += st[k]
        for k, v in st["either"].items():
            agg["either"][k] = agg["either"].get(k, 0) + v
    n_acc, n_rej = e2e(ctx, cases)
    nontriv = sum(1 for c in cases if "o" in c["cls"] and "r" in c["cls"])
    cov = ctx.coverage
    cov["c12"] = {"expressions": len(cases), "classifications": agg["classify"],
                  "validation_pairs": agg["validate"],
                  "pairs_must_accept": sum(len(c["accept"]) for c in cases),
                  "pairs_must_reject": sum(len(c["reject"]) for c in cases),
                  "pairs_undecided_by_documentation(zone:code verdict)": dict(sorted(agg["either"].items())),
                  "skip_cases_checked": agg["skip"], "skip_clause_not_applicable": agg["skip_na"],
                  "end_to_end_flows": {"must_accept_pairs": n_acc, "must_reject_flows": n_rej}}
    step = max(1, len(cases) // 5)
    samples = [{"expr": c["src"], "classification": cls_text(dict(zip(CLS_SEQ, c["cls"]))),
                "must_accept": len(c["accept"]), "must_reject": len(c["reject"])} for c in cases[::step][:5]]
    oracle.finish_cov(ctx, len(cases), nontriv,
                      "every monotone boolean function of three 4-variable pools (succeeded/failed/x/y, "
                      "succeeded/x/expired/submit_failed, succeeded/failed/x/expired) as DNF and CNF, every and/or tree with "
                      "<= 3 leaves over each pool (x every legal graph declaration over the pool), every tree with 4 leaves "
                      "(depth <= 3; quick: two pools, classification + skip only; thorough: all pools with declarations); "
                      "non-trivial = expressions with both a required and an optional output",
                      samples, exhaustive=True)
    cov["evaluations"] = cov.get("evaluations", 0) - len(cases) + agg["classify"] + agg["validate"] + agg["skip"]
    ctx.assumptions += [
        "validation verdicts: expressions the documentation leaves undecided (success presumed required although not "
        "declared; failed implicitly optional when succeeded?; optional in the graph but unreferenced) are counted, not judged",
        "over-rejection is only flagged for pairs that are consistent under every reading of the documented rule",
        "_check_completion_expression is called directly on a real WorkflowConfig for all pairs; the full flow.cylc pipeline "
        "is exercised on a seeded sample",
        "skip clause checked on expressions that do not require both succeeded and failed nor a pre-execution outcome; "
        "process_outputs is given a stand-in task proxy holding the real TaskOutputs",
    ]


def replay(ctx, data):
    global _CFG
    c = dict(data["replay"]["case"])
    for k in ("accept", "reject", "legal"):
        c[k] = set(c[k])
    _CFG = build_config(ctx.scratch, {c["pool"]: c["legal"]})
    viol, st = check_case(c)
    for key, text, rp in viol:
        ctx.violation(key, text, rp)
    ctx.coverage.update({"states": 1, "transitions": 1, "traces_validated_against_impl": 1,
                         "evaluations": st["classify"] + st["validate"] + st["skip"], "samples": [c["src"]]})
