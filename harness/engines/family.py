"""C15: family triggers.  Oracle = spec/oracle/Family.tla; every TLC state is one GraphParser test."""
from __future__ import annotations
from harness import oracle
from harness.tlaparse import to_py

FAMILY_MAP = {"FAM": ["m1", "m2", "m3"], "G": ["g1", "g2"]}

def check_case(st):
    """Return list of (key, text) mismatches for one oracle state."""
    from cylc.flow.graph_parser import GraphParser
    from cylc.flow.exceptions import GraphParseError
    c = st["c"]
    fam = dict(FAMILY_MAP)
    fam["FAM"] = FAMILY_MAP["FAM"][: c["n"]]
    line = st["line"]
    qual = f"{c['q']}-{c['mode']}" if c["q"] != "lone" else "lone"
    out = []
    gp = GraphParser(family_map=fam)
    try:
        gp.parse_graph(line)
    except GraphParseError as e:
        return [(f"{c['side']}:{qual}:parse-error", f"legal family line {line!r} rejected: {e}")]
    atoms = sorted(st["atoms"])
    for t in sorted(st["targets"]):
        exprs = {e: v for e, v in gp.triggers.get(t, {}).items() if e}
        if not exprs:
            out.append((f"{c['side']}:{qual}:no-trigger", f"{line!r}: task {t} got no trigger"))
            continue
        # top-level '&' arms are stored as separate prerequisites: the task needs all of them
        expr = "&".join(f"({e})" for e in sorted(exprs))
        found, table = oracle.bool_table(expr, atoms)
        if found != set(atoms):
            out.append((f"{c['side']}:{qual}:atoms",
                        f"{line!r}: task {t} depends on {sorted(found)}, expected {atoms} (expr {expr!r})"))
            continue
        if table != set(st["truth"]):
            out.append((f"{c['side']}:{qual}:truth", f"{line!r}: {expr!r} has a different truth table than the "
                        f"{'AND' if c['mode'] == 'all' else 'OR'} over members"))
    for (m, o, opt) in st["declopt"]:
        got = gp.task_output_opt.get((m, o))
        if got is None or got[0] != opt:
            out.append((f"{c['side']}:{qual}:optionality",
                        f"{line!r}: output {m}:{o} optional={got and got[0]} expected {opt}"))
    return out

def run(ctx):
    states = oracle.enumerate_cases(ctx, "Family")
    n = 0
    nontrivial = set()
    samples = []
    for st in states:
        n += 1
        bad = check_case(st)
        if st["c"]["n"] >= 2 or st["c"]["side"] == "rhs":
            nontrivial.add(st["line"] + str(st["c"]["n"]))
        if len(samples) < 4 and st["c"]["n"] == 2:
            samples.append({"line": st["line"], "atoms": sorted(st["atoms"]), "true_on": len(st["truth"])})
        for key, text in bad:
            ctx.violation(key, text, {"case": to_py(st)})
    oracle.finish_cov(ctx, n, len(nontrivial),
                      "every legal <<side, family size 1..3, qualifier, all|any, offset, mix with task / second family, "
                      "optional?>> enumerated by TLC from Family.tla; non-trivial = family of >= 2 members or family on the right",
                      samples, exhaustive=True)
    ctx.assumptions += ["GraphParser is called directly with a flat family map (nested families are flattened by "
                        "WorkflowConfig before the parser sees them)"]

def replay(ctx, data):
    from harness.tlaparse import freeze
    st = data["replay"]["case"]
    st["atoms"] = frozenset(st["atoms"]); st["targets"] = frozenset(st["targets"])
    st["truth"] = frozenset(frozenset(s) for s in st["truth"])
    st["declopt"] = frozenset(tuple(x) for x in st["declopt"])
    for key, text in check_case(st):
        ctx.violation(key, text, {"case": data["replay"]["case"]})
    ctx.coverage.update({"states": 1, "transitions": 1, "traces_validated_against_impl": 1, "samples": [st["line"]]})
