"""C48: numbered run directories / runN.  Spec = spec/Install.tla (model spec/mc/MC_Install).

TLC model-checks the C48 clauses over every history of <= MaxOps operations; the history variable makes
every TLC state one behaviour prefix, so the dumped states form the tree of ALL behaviours.  The tree is
walked depth-first on the real code (cylc.flow.install.install_workflow / reinstall_workflow,
cylc.flow.clean.init_clean) in a scratch HOME: after every operation the abstract projection of the real
~/cylc-run/<wf> (run dirs + content stamp, runN target) is compared with the spec state and the C48
clauses are evaluated on the real before/after pair.  Branching is done by snapshot/restore of the scratch
cylc-run directory (the file system is the whole state; every real operation is a separate process)."""
from __future__ import annotations
import asyncio, contextlib, io, os, re, shutil
from pathlib import Path
from harness import tlc, common
from harness.tlaparse import to_py

WF = "wf"
NONE = "none"
FLAT = "FLAT"
INSTALL_OPS = ("install", "install-run-name", "install-no-run-name")
MC = os.path.join(tlc.SPEC_DIR, "mc", "MC_Install.tla")
CFG = os.path.join(tlc.SPEC_DIR, "mc", "MC_Install.cfg")
_num = re.compile(r"^run(\d+)$")


def num(name):
    m = _num.match(name)
    return int(m.group(1)) if m else None


# --------------------------------------------------------------------------------------------------
# the real world: a scratch HOME with ~/cylc-run and a source directory
class World:
    def __init__(self, root: str, scratch_root: str):
        self.root = os.path.realpath(root)
        assert self.root.startswith(os.path.realpath(scratch_root) + os.sep), (root, scratch_root)
        self.home = os.path.join(self.root, "home")
        self.src = os.path.join(self.root, "src", WF)
        self.conf = os.path.join(self.root, "conf")
        self.snaps = os.path.join(self.root, "snap")
        for d in (self.home, self.src, self.conf, self.snaps):
            os.makedirs(d, exist_ok=True)
        with open(os.path.join(self.src, "flow.cylc"), "w") as f:
            f.write("[scheduling]\n    [[graph]]\n        R1 = a\n[runtime]\n    [[a]]\n")
        os.environ["HOME"] = self.home
        os.environ["CYLC_CONF_PATH"] = self.conf
        os.environ.pop("CYLC_SITE_CONF_PATH", None)
        from cylc.flow.pathutil import get_cylc_run_dir
        from cylc.flow.cfgspec.glbl_cfg import glbl_cfg
        glbl_cfg(reload=True)
        self.cylc_run = os.path.join(self.home, "cylc-run")
        if os.path.realpath(get_cylc_run_dir()) != os.path.realpath(self.cylc_run):
            raise common.MachineryError(f"cylc-run dir {get_cylc_run_dir()} is not inside the scratch area")
        self.base = os.path.join(self.cylc_run, WF)
        self.nsnap = 0

    def stamp(self, k: int):
        with open(os.path.join(self.src, "stamp"), "w") as f:
            f.write(f"{k}:" + "#" * k)

    @staticmethod
    def _read_stamp(d):
        try:
            with open(os.path.join(d, "stamp")) as f:
                return int(f.read().split(":")[0])
        except (OSError, ValueError):
            return -1

    def project(self):
        """Abstract projection of the real workflow dir: ({run name: stamp}, runN target)."""
        base = self.base
        if not os.path.lexists(base):
            return {}, NONE
        if os.path.isfile(os.path.join(base, "flow.cylc")):
            runs = {FLAT: self._read_stamp(base)}
        else:
            runs = {}
            for e in sorted(os.listdir(base)):
                p = os.path.join(base, e)
                if e in ("_cylc-install", "runN"):
                    continue
                if os.path.isdir(p) and not os.path.islink(p):
                    runs[e] = self._read_stamp(p)
                else:
                    runs["?" + e] = -1
        rn = os.path.join(base, "runN")
        return runs, (os.readlink(rn) if os.path.islink(rn) else NONE)

    def apply(self, e: dict, k: int):
        """Run one operation on the real code.  Returns (ok, error text)."""
        from cylc.flow.install import install_workflow, reinstall_workflow
        from cylc.flow.clean import init_clean
        from cylc.flow.scripts.clean import CleanOptions
        from cylc.flow.exceptions import WorkflowFilesError
        self.stamp(k)
        op, arg = e["op"], e["arg"]
        # every real operation is a separate `cylc` process: drop the (closed but still attached) file
        # handlers that a previous in-process install left on the install loggers
        self._reset_loggers()
        sink = io.StringIO()
        try:
            with contextlib.redirect_stdout(sink):
                if op == "prior":
                    # the earlier history Install.tla's Priors stand for, on the real code
                    keep = {int(x) for x in arg.split(",")}
                    for _ in range(max(keep)):
                        install_workflow(Path(self.src), WF)
                        self._reset_loggers()
                    for i in range(1, max(keep)):
                        if i not in keep:
                            asyncio.run(init_clean(f"{WF}/run{i}", CleanOptions()))
                elif op == "install":
                    install_workflow(Path(self.src), WF)
                elif op == "install-run-name":
                    install_workflow(Path(self.src), WF, run_name=arg)
                elif op == "install-no-run-name":
                    install_workflow(Path(self.src), WF, no_run_name=True)
                elif op == "reinstall":
                    rel = WF if arg == FLAT else f"{WF}/{arg}"
                    reinstall_workflow(Path(self.src), rel, Path(self.cylc_run, rel))
                elif op == "clean":
                    rel = WF if arg == FLAT else f"{WF}/{arg}"
                    asyncio.run(init_clean(rel, CleanOptions()))
                else:
                    raise common.MachineryError(f"unknown op {op}")
        except WorkflowFilesError as exc:
            return False, str(exc).splitlines()[0]
        return True, ""

    @staticmethod
    def _reset_loggers():
        import logging
        for name in ("cylc-install", "cylc-reinstall"):
            lg = logging.getLogger(name)
            for h in list(lg.handlers):
                h.close()
                lg.removeHandler(h)

    def snapshot(self):
        self.nsnap += 1
        d = os.path.join(self.snaps, str(self.nsnap))
        if os.path.lexists(self.cylc_run):
            shutil.copytree(self.cylc_run, d, symlinks=True)
        return d

    def restore(self, d):
        shutil.rmtree(self.cylc_run, ignore_errors=True)
        if os.path.lexists(d):
            shutil.copytree(d, self.cylc_run, symlinks=True)

    def drop(self, d):
        shutil.rmtree(d, ignore_errors=True)


# --------------------------------------------------------------------------------------------------
# the C48 clauses evaluated on a REAL before/after pair (mirrors the action properties of Install.tla)
def clauses(before, after, e, real_ok):
    runs0, rn0 = before
    runs1, rn1 = after
    op = e["op"]
    out = []
    if op in INSTALL_OPS:
        for r, s in runs0.items():
            if r not in runs1:
                out.append((f"C48_NeverOverwrite:{op}:removed", f"{op} removed the existing run directory {r}"))
            elif runs1[r] != s:
                out.append((f"C48_NeverOverwrite:{op}:changed",
                            f"{op} changed the existing run directory {r} (content stamp {s} -> {runs1[r]})"))
    if op == "install":
        new = sorted(set(runs1) - set(runs0))
        nums0 = [num(r) for r in runs0 if num(r) is not None]
        only_numbered = all(num(r) is not None for r in runs0)
        if real_ok:
            if len(new) != 1 or num(new[0]) is None:
                out.append(("C48_NumberFresh:no-new-numbered-run",
                            f"a numbered install reported success but created {new or 'nothing'}"))
            else:
                n = num(new[0])
                if any(n <= m for m in nums0) or (rn0 != NONE and num(rn0) is not None and n <= num(rn0)):
                    out.append(("C48_NumberFresh:not-greater",
                                f"new run {new[0]} does not exceed existing runs {sorted(runs0)} / runN -> {rn0}"))
                if rn1 != new[0]:
                    out.append(("C48_RunNIsLatest:install", f"after installing {new[0]} runN -> {rn1}"))
        elif only_numbered:
            out.append(("C48_SuccessiveInstalls:refused",
                        f"numbered install refused although only numbered runs {sorted(runs0)} exist"))
    if rn1 != NONE:
        if rn1 not in runs1:
            out.append((f"C48_RunNIsLatest:dangling-after-{op}", f"after {op} runN -> {rn1} which does not exist"))
        elif any(num(r) is not None and num(r) > (num(rn1) or 0) for r in runs1):
            out.append((f"C48_RunNIsLatest:not-highest-after-{op}",
                        f"after {op} runN -> {rn1} but runs {sorted(runs1)} exist"))
    return out


def fmt_hist(hist):
    return " ; ".join(f"{h['op']}{'(' + h['arg'] + ')' if h['arg'] else ''}" for h in hist)


class Walker:
    def __init__(self, world):
        self.w = world
        self.viol = []          # (key, text, replay)
        self.n_ops = 0
        self.n_leaves = 0
        self.n_refused = 0
        self.n_reuse = 0
        self.nontrivial = 0

    def step(self, node, k):
        """Apply node's last op on the real world (which is in the parent's state) and judge it.
        Returns True when the real state agrees with the spec state afterwards."""
        e = node["hist"][-1]
        before = self.w.project()
        ok, err = self.w.apply(e, k)
        after = self.w.project()
        self.n_ops += 1
        if not e["ok"]:
            self.n_refused += 1
        bad = clauses(before, after, e, ok)
        exp = (node["runs"], node["runN"])
        agrees = (ok == e["ok"] and after == exp)
        if e.get("reuse") and agrees:
            self.n_reuse += 1
        replay = {"hist": node["hist"], "expect": node["path_expect"]}
        where = f"history [{fmt_hist(node['hist'])}]"
        for key, text in bad:
            self.viol.append((key, f"{where}: {text}" + (f" (error: {err})" if err else ""), replay))
        if not agrees and not bad:
            raise common.MachineryError(
                f"spec/code divergence that does not contradict a C48 clause, repair Install.tla: {where}: "
                f"spec ok={e['ok']} state={exp}, code ok={ok} ({err}) state={after}")
        return agrees

    def dfs(self, node, depth):
        kids = node["children"]
        if not kids:
            self.n_leaves += 1
            h = node["hist"]
            after_clean = any(h[i]["op"] == "clean" and any(x["op"] in INSTALL_OPS for x in h[i + 1:])
                              for i in range(len(h)))
            if after_clean or any(not x["ok"] for x in h):
                self.nontrivial += 1
            return
        snap = self.w.snapshot() if len(kids) > 1 else None
        for i, ch in enumerate(kids):
            if i > 0:
                self.w.restore(snap)
            if self.step(ch, depth + 1):
                self.dfs(ch, depth + 1)
        if snap:
            self.w.drop(snap)


def _work(task):
    idx, scratch, prefix_nodes, subtree = task
    world = World(os.path.join(scratch, f"w{idx}"), scratch)
    wk = Walker(world)
    okay = True
    for d, node in enumerate(prefix_nodes):
        okay = wk.step(node, d + 1)
        if not okay:
            break
    if okay:
        wk.dfs(subtree, len(prefix_nodes))
    shutil.rmtree(world.root, ignore_errors=True)
    return {"viol": wk.viol, "ops": wk.n_ops, "leaves": wk.n_leaves, "refused": wk.n_refused,
            "reuse": wk.n_reuse, "nontrivial": wk.nontrivial}


# --------------------------------------------------------------------------------------------------
def _norm_state(st):
    runs = st["runs"]
    runs = dict(runs) if isinstance(runs, dict) else {}
    hist = [dict(op=h["op"], arg=h["arg"], ok=h["ok"], new=h["new"], reuse=h["reuse"]) for h in st["hist"]]
    return {"runs": {str(k): int(v) for k, v in runs.items()}, "runN": str(st["runN"]), "hist": hist}


def build_tree(states):
    nodes = {}
    for st in states:
        n = _norm_state(st)
        n["children"] = []
        nodes[tuple((h["op"], h["arg"]) for h in n["hist"])] = n
    root = nodes[()]
    root["path_expect"] = []
    for key in sorted(nodes, key=lambda k: (len(k), k)):
        if not key:
            continue
        parent = nodes[key[:-1]]
        parent["children"].append(nodes[key])
        nodes[key]["path_expect"] = parent["path_expect"] + [[nodes[key]["runs"], nodes[key]["runN"]]]
    return root, nodes


def _cfg(ctx, maxops, nnames, invariants=None):
    txt = open(CFG).read()
    txt = re.sub(r"MaxOps\s*=\s*\d+", f"MaxOps = {maxops}", txt)
    txt = re.sub(r"RunNames <- MCRunNames\d", f"RunNames <- MCRunNames{nnames}", txt)
    if invariants is not None:
        txt = txt.split("INVARIANTS")[0] + "INVARIANTS\n" + "\n".join("  " + i for i in invariants) + "\n"
    p = os.path.join(ctx.scratch, f"MC_Install_{maxops}_{'strict' if invariants else 'main'}.cfg")
    with open(p, "w") as f:
        f.write(txt)
    return p


def run(ctx):
    from concurrent.futures import ThreadPoolExecutor
    maxops, nnames = (4, 1) if ctx.quick else (5, 2)
    with ThreadPoolExecutor(2) as ex:
        f_main = ex.submit(tlc.dump_states, MC, _cfg(ctx, maxops, nnames), workers=4, timeout=900)
        f_strict = ex.submit(tlc.run_tlc, MC, _cfg(ctx, 4, 1, ["Strict_NeverReuseEver"]), workers=1, timeout=300)
        res, states = f_main.result()
        strict = f_strict.result()
    if not res.ok:
        raise tlc.TLCError(f"Install model: {res.kind} {res.violated}\n{res.out[-3000:]}")
    root, nodes = build_tree(states)
    # parallel split: cut the behaviour tree into subtrees of at most ~24 nodes; a task replays the prefix that
    # leads to its subtree (judging every step on the way) and then walks the subtree depth-first
    def size(n):
        n["size"] = 1 + sum(size(c) for c in n["children"])
        return n["size"]
    size(root)
    tasks = []

    def split(node, prefix):
        # (the "prior" pseudo-operation costs ~20 real operations to replay: larger subtrees below it)
        if node["size"] <= (150 if prefix[0]["hist"][0]["op"] == "prior" else 24) or not node["children"]:
            tasks.append(prefix)
        else:
            for ch in node["children"]:
                split(ch, prefix + [ch])
    for c1 in root["children"]:
        split(c1, [c1])
    tasks.sort(key=lambda pref: -pref[-1]["size"])
    items = []
    for i, pref in enumerate(tasks):
        items.append((i, ctx.scratch, [{k: v for k, v in n.items() if k != "children"} for n in pref], pref[-1]))
    results = common.parallel_map(_work, items, procs=16)
    tot = {"ops": 0, "leaves": 0, "refused": 0, "reuse": 0, "nontrivial": 0}
    for r in results:
        for k in tot:
            tot[k] += r[k]
        for key, text, rep in r["viol"]:
            ctx.violation(key, text, rep)
    cov = ctx.coverage
    cov.update({
        "states": res.distinct, "transitions": res.generated,
        "tlc_models": [{"module": "MC_Install", "MaxOps": maxops, "RunNames": ["a", "b"][:nnames], "distinct": res.distinct,
                        "generated": res.generated, "wall_s": round(res.wall_s, 2)}],
        "traces_validated_against_impl": tot["leaves"], "evaluations": tot["ops"],
        "distinct_nontrivial": tot["nontrivial"],
        "refused_operations_replayed": tot["refused"],
        "rule": f"every behaviour of <= {maxops} operations over install / install --run-name {'a' if nnames == 1 else 'a|b'} / install "
                "--no-run-name / reinstall <run> / clean <run>, from a fresh directory or from the prior state run9+run10+run11 (TLC dump of MC_Install, history variable) replayed on "
                "install_workflow, reinstall_workflow, init_clean in a scratch HOME; projection and C48 clauses compared "
                "after every operation; non-trivial = behaviour with a refused operation or an install after a clean",
        "exhaustive": True,
        "samples": [fmt_hist(n["hist"]) for k, n in sorted(nodes.items()) if len(k) == maxops][:5],
        "checker_cmd": "tlc MC_Install (invariants + action properties) -dump; tree of behaviours walked on the real code",
    })
    # observation (not a violation): strict reading of "without reusing a number"
    if strict.kind == "invariant" and strict.violated == "Strict_NeverReuseEver":
        h = strict.trace[-1][1]["hist"] if strict.trace else ()
        cex = fmt_hist([dict(op=x["op"], arg=x["arg"]) for x in h])
        cov["observation_strict_reading"] = {
            "tlc_counterexample": cex, "behaviours_where_code_reused_a_number": tot["reuse"],
            "text": "after cleaning the latest run (runN removed) the next numbered install takes the cleaned "
                    "run's number again; the number is free at that time, nothing is overwritten"}
        ctx.notes.append(f"OBSERVATION C48 (not a violation): strict 'never reuse a number ever' is refuted by TLC "
                         f"[{cex}]; the real code reused a cleaned number in {tot['reuse']} replayed steps")
    else:
        raise tlc.TLCError("expected TLC to refute Strict_NeverReuseEver (model changed?)\n" + strict.out[-1500:])
    ctx.assumptions += [
        "operations are sequential (one cylc command at a time); concurrent installs are out of scope",
        "install_workflow / reinstall_workflow / init_clean are called in-process instead of via the cylc CLI; "
        "branching uses copies of the scratch cylc-run directory",
        "global configuration is empty (no symlink dirs, default rsync)",
    ]


def replay(ctx, data):
    rep = data["replay"]
    world = World(os.path.join(ctx.scratch, "replay"), ctx.scratch)
    wk = Walker(world)
    hist, expect = rep["hist"], rep["expect"]
    for i in range(len(hist)):
        node = {"hist": hist[: i + 1], "runs": {k: int(v) for k, v in expect[i][0].items()}, "runN": expect[i][1],
                "path_expect": expect[: i + 1]}
        if not wk.step(node, i + 1):
            break
    for key, text, r in wk.viol:
        ctx.violation(key, text, r)
    ctx.coverage.update({"states": len(hist), "transitions": len(hist), "traces_validated_against_impl": 1,
                         "samples": [fmt_hist(hist)]})
