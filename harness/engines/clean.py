"""C38: `cylc clean` containment.  Spec = spec/Clean.tla (model spec/mc/MC_Clean).

TLC enumerates every legal run-directory tree of <= MaxNodes nodes x every relevant --rm pattern (and the
wholesale clean) as initial states and computes, from the TLA+ definition of the glob semantics, the set of
matched paths and the set of nodes that must be gone.  Every state is materialised under ctx.scratch
(run dir, targets of the standard symlink dirs elsewhere, an "outside" area behind non-standard symlinks,
sibling runs / other workflows as sentinels), cylc.flow.clean.init_clean is run on it and the before/after
snapshots of the WHOLE scratch world are compared with the expectation derived from the spec state."""
from __future__ import annotations
import asyncio, os, re, shutil
from harness import tlc, common, tlaparse
from harness.tlaparse import to_py

WF, RUN = "wf", "run1"
MC = os.path.join(tlc.SPEC_DIR, "mc", "MC_Clean.tla")
CFG = os.path.join(tlc.SPEC_DIR, "mc", "MC_Clean.cfg")
OTHER_LINKS = ("outdir", "outfile", "broken", "indir")
TAGS = {(): "run", ("share",): "share", ("share", "cycle"): "cycle", ("work",): "w", ("log",): "w"}


class World:
    """One scratch world per worker process; rebuilt for every case."""
    def __init__(self, root, scratch_root):
        self.root = os.path.realpath(root)
        assert self.root.startswith(os.path.realpath(scratch_root) + os.sep), (root, scratch_root)
        self.home = os.path.join(self.root, "home")
        self.conf = os.path.join(self.root, "conf")
        os.makedirs(self.conf, exist_ok=True)
        os.environ["HOME"] = self.home
        os.environ["CYLC_CONF_PATH"] = self.conf
        os.environ.pop("CYLC_SITE_CONF_PATH", None)
        from cylc.flow.pathutil import get_cylc_run_dir
        from cylc.flow.cfgspec.glbl_cfg import glbl_cfg
        glbl_cfg(reload=True)
        self.cylc_run = os.path.join(self.home, "cylc-run")
        if os.path.realpath(get_cylc_run_dir()) != os.path.join(self.root, "home", "cylc-run"):
            raise common.MachineryError(f"cylc-run dir {get_cylc_run_dir()} is not inside the scratch area")
        self.wfdir = os.path.join(self.cylc_run, WF)
        self.rundir = os.path.join(self.wfdir, RUN)
        self.sym = os.path.join(self.root, "sym")
        self.out = os.path.join(self.root, "out")
        self.dirty = True            # the sentinel part of the world must be (re)built
        self.loop = asyncio.new_event_loop()

    def target(self, p):
        return os.path.join(self.sym, TAGS[p], "cylc-run", WF, RUN, *p)

    def build(self, kinds):
        """Materialise the logical tree.  Returns {logical path: (entry path, real location or None)}."""
        if not self.dirty:
            # the last case left everything but the workflow itself untouched (verified by its snapshots):
            # rebuild only the run dir and the symlink-dir targets
            if os.path.islink(self.rundir):
                os.unlink(self.rundir)
            else:
                shutil.rmtree(self.rundir, ignore_errors=True)
            for tag in set(TAGS.values()):
                shutil.rmtree(os.path.join(self.sym, tag, "cylc-run", WF, RUN), ignore_errors=True)
            return self._build_run(kinds)
        for d in (self.home, self.sym, self.out):
            shutil.rmtree(d, ignore_errors=True)
        os.makedirs(self.wfdir)
        # sentinels: a sibling run, runN -> it, the install dir, another workflow, a sibling run's share target
        os.makedirs(os.path.join(self.wfdir, "run2"))
        _w(os.path.join(self.wfdir, "run2", "flow.cylc"), "x")
        _w(os.path.join(self.wfdir, "run2", "x"), "keep")
        os.symlink("run2", os.path.join(self.wfdir, "runN"))
        os.makedirs(os.path.join(self.wfdir, "_cylc-install"))
        os.makedirs(os.path.join(self.cylc_run, "other", "run1", "share"))
        _w(os.path.join(self.cylc_run, "other", "run1", "share", "x"), "keep")
        os.makedirs(os.path.join(self.sym, "share", "cylc-run", WF, "run2", "share"))
        _w(os.path.join(self.sym, "share", "cylc-run", WF, "run2", "share", "x"), "keep")
        os.makedirs(os.path.join(self.out, "d"))
        _w(os.path.join(self.out, "d", "x"), "outside")
        _w(os.path.join(self.out, "f"), "outside")
        _w(os.path.join(self.out, "keep"), "outside")
        return self._build_run(kinds)

    def _build_run(self, kinds):
        place = {}
        for p in sorted(kinds, key=len):
            k = kinds[p]
            if k == "outnode":
                continue
            entry = self.rundir if not p else os.path.join(place[p[:-1]][1], p[-1])
            loc = None
            if k == "dir":
                os.mkdir(entry)
                loc = entry
            elif k == "file":
                _w(entry, "data")
            elif k == "std":
                loc = self.target(p)
                os.makedirs(loc)
                os.symlink(loc, entry)
            elif k == "outdir":
                os.symlink(os.path.join(self.out, "d"), entry)
            elif k == "outfile":
                os.symlink(os.path.join(self.out, "f"), entry)
            elif k == "broken":
                os.symlink(os.path.join(self.out, "nonexistent"), entry)
            elif k == "indir":
                os.symlink(os.path.join(self.rundir, "a"), entry)
            else:
                raise common.MachineryError(f"unknown kind {k}")
            place[p] = (entry, loc)
        return place

    def snapshot(self):
        snap = {}
        for base in (self.home, self.sym, self.out):
            for dp, dns, fns in os.walk(base):
                for n in list(dns):
                    full = os.path.join(dp, n)
                    if os.path.islink(full):
                        snap[full] = ("l", os.readlink(full))
                        dns.remove(n)
                    else:
                        snap[full] = ("d",)
                for n in fns:
                    full = os.path.join(dp, n)
                    if os.path.islink(full):
                        snap[full] = ("l", os.readlink(full))
                    else:
                        with open(full) as f:
                            snap[full] = ("f", f.read())
        return snap

    def bookkeeping_dirs(self, kinds):
        """Empty ancestor directories of a standard symlink target (below <symlink dir>/cylc-run/) may be pruned."""
        out = set()
        for p, k in kinds.items():
            if k == "std":
                t = self.target(p)
                stop = os.path.join(self.sym, TAGS[p], "cylc-run")
                t = os.path.dirname(t)
                while t != stop and len(t) > len(stop):
                    out.add(t)
                    t = os.path.dirname(t)
        return out

    def run_clean(self, text):
        from cylc.flow.clean import init_clean
        from cylc.flow.scripts.clean import CleanOptions
        opts = CleanOptions(local_only=True, rm_dirs=[text] if text else [])
        try:
            self.loop.run_until_complete(init_clean(f"{WF}/{RUN}", opts))
        except Exception as exc:      # judged by the caller
            return f"{type(exc).__name__}: {exc}"
        return None


def _w(path, text):
    with open(path, "w") as f:
        f.write(text)


def _under(path, top):
    return path == top or path.startswith(top + os.sep)


def _prune(snap, book):
    snap = dict(snap)
    changed = True
    while changed:
        changed = False
        for d in sorted(book, key=len, reverse=True):
            if d in snap and snap[d] == ("d",) and not any(q.startswith(d + os.sep) for q in snap):
                del snap[d]
                changed = True
    return snap


def check_case(world: World, st: dict):
    """Run one spec state on the real code.  Returns (violations [(key, text)], nontrivial?, n_deleted)."""
    kinds = {tuple(k): v for k, v in st["kinds"].items()}
    text = st["text"]
    gone = {tuple(q) for q in st["gone"]}
    matched = {tuple(q) for q in st["matched"]}
    place = world.build(kinds)
    before = world.snapshot()
    world.dirty = True
    err = world.run_clean(text)
    after = world.snapshot()
    # expectation from the spec state
    removed = []
    for q in gone:
        entry, loc = place[q]
        removed.append(entry)
        if kinds[q] == "std":
            removed.append(loc)
    expected = {p: v for p, v in before.items() if not any(_under(p, r) for r in removed)}
    book = world.bookkeeping_dirs(kinds)
    exp_n, act_n = _prune(expected, book), _prune(after, book)
    desc = f"--rm {text!r}" if text else "wholesale clean"
    tdesc = ", ".join(f"{'/'.join(p) or '<run dir>'}:{k}" for p, k in sorted(kinds.items()) if k != "outnode")
    where = f"{desc} on run dir {{{tdesc}}}"
    pkey = text or "<all>"
    viol = []
    nontrivial = bool(gone) and (any(k in OTHER_LINKS for k in kinds.values())
                                 or sum(1 for k in kinds.values() if k == "std") > 0)
    if exp_n == act_n:
        # an exception AFTER the right things were deleted does not contradict C38; recorded as an observation
        world.dirty = False
        obs = f"{where}: clean raised {err.replace(world.root, '')} although exactly the expected paths were deleted" if err else None
        return viol, nontrivial, len(before) - len(after), obs
    workflow_area = [world.rundir] + [loc for (_e, loc) in place.values() if loc]
    rel = lambda p: os.path.relpath(p, world.root)
    over = sorted(p for p in exp_n if p not in act_n or act_n[p] != exp_n[p])
    under = sorted(p for p in act_n if p not in exp_n)
    unexplained = []
    for p in over:
        if _under(p, world.out):
            viol.append((f"C38_NoFollowOtherLinks:{pkey}", f"{where}: {rel(p)} (behind a non-standard symlink) was "
                         f"deleted/changed"))
        elif not any(_under(p, a) for a in workflow_area):
            viol.append((f"C38_OnlyInside:{pkey}", f"{where}: {rel(p)} (outside the run dir and the targets of its "
                         f"standard symlink dirs) was deleted/changed"))
        elif any(k == "indir" for k in kinds.values()) and _under(p, os.path.join(place[()][1], "a")):
            viol.append((f"C38_NoFollowOtherLinks:{pkey}", f"{where}: {rel(p)} was deleted through the non-standard "
                         f"symlink to a"))
        else:
            unexplained.append(f"unmatched path {rel(p)} deleted")
    for p in under:
        if p in before:
            viol.append((f"C38_AllMatchesGone:{pkey}", f"{where}: {rel(p)} matches (spec: matched "
                         f"{sorted('/'.join(m) for m in matched)}) but still exists" + (f"; clean raised {err}" if err else "")))
        else:
            unexplained.append(f"{rel(p)} was created")
    if unexplained and not viol:
        raise common.MachineryError(f"spec/code divergence that does not contradict a C38 clause, repair Clean.tla: "
                                    f"{where}: {unexplained}; error={err}")
    return viol, nontrivial, len(before) - len(after), None


# --------------------------------------------------------------------------------------------------
def _work(task):
    idx, scratch, chunk = task
    world = World(os.path.join(scratch, f"w{idx}"), scratch)
    import time
    t0 = time.time()
    states = tlaparse.parse_states(chunk)
    t_parse = time.time() - t0
    out = {"t_parse": t_parse, "viol": [], "n": 0, "nontrivial": 0, "deleting": 0, "samples": [], "obs": []}
    for _hdr, st in states:
        st = _plain(st)
        viol, nontrivial, ndel, obs = check_case(world, st)
        out["n"] += 1
        if obs:
            out["obs"].append((st["text"], obs))
        out["nontrivial"] += bool(nontrivial)
        out["deleting"] += bool(ndel)
        if nontrivial and len(out["samples"]) < 1:
            out["samples"].append({"pattern": st["text"], "tree": _tree_desc(st["kinds"]),
                                   "gone": sorted("/".join(q) for q in st["gone"])})
        for key, text in viol:
            out["viol"].append((key, text, {"case": _jsonable(st)}))
    shutil.rmtree(world.root, ignore_errors=True)
    return out


def _plain(st):
    kinds = st["kinds"]
    kinds = {tuple(k): str(v) for k, v in kinds.items()} if isinstance(kinds, dict) else {}
    return {"kinds": kinds, "text": str(st["text"]), "gone": [tuple(q) for q in st["gone"]],
            "matched": [tuple(q) for q in st["matched"]]}


def _tree_desc(kinds):
    return {"/".join(p) or ".": k for p, k in sorted(kinds.items())}


def _jsonable(st):
    return {"kinds": [[list(p), k] for p, k in sorted(st["kinds"].items())], "text": st["text"],
            "gone": sorted(list(q) for q in st["gone"]), "matched": sorted(list(q) for q in st["matched"])}


def _cfg(ctx, maxnodes, wnames, alldironly, root):
    txt = open(CFG).read()
    txt = re.sub(r"MaxNodes\s*=\s*\d+", f"MaxNodes = {maxnodes}", txt)
    txt = re.sub(r"WNames\s*=\s*\{[^}]*\}", "WNames = {" + ", ".join(f'"{w}"' for w in wnames) + "}", txt)
    txt = re.sub(r"Roots\s*=\s*\{[^}]*\}", f'Roots = {{"{root}"}}', txt)
    txt = re.sub(r"AllDirOnly\s*=\s*\w+", f"AllDirOnly = {'TRUE' if alldironly else 'FALSE'}", txt)
    p = os.path.join(ctx.scratch, f"MC_Clean_{maxnodes}_{root}.cfg")
    with open(p, "w") as f:
        f.write(txt)
    return p


def _tlc_part(ctx, maxnodes, wnames, alldironly, root):
    dump = os.path.join(ctx.scratch, f"clean_states_{root}")
    sub = os.path.join(ctx.scratch, f"tlc_{root}")
    os.makedirs(sub, exist_ok=True)
    res = tlc.run_tlc(MC, _cfg(ctx, maxnodes, wnames, alldironly, root), workers=4, timeout=3000,
                      extra=["-dump", dump], scratch=sub, heap="4g")
    if not res.ok:
        raise tlc.TLCError(f"Clean model ({root}): {res.kind} {res.violated}\n{res.out[-3000:]}")
    with open(dump + ".dump") as f:
        txt = f.read()
    os.unlink(dump + ".dump")
    return res, txt


def _split_states(txt, nchunks):
    starts = [m.start() for m in re.finditer(r"^State \d+:", txt, re.M)]
    if not starts:
        return []
    per = max(1, (len(starts) + nchunks - 1) // nchunks)
    cuts = starts[::per] + [len(txt)]
    return [txt[cuts[i]:cuts[i + 1]] for i in range(len(cuts) - 1)]


def run(ctx):
    maxnodes, wnames, alldironly = (3, ["work"], False) if ctx.quick else (4, ["work", "log"], True)
    from concurrent.futures import ThreadPoolExecutor
    with ThreadPoolExecutor(2) as ex:      # one TLC process per kind of run dir (real dir / symlink dir)
        parts = list(ex.map(lambda r: _tlc_part(ctx, maxnodes, wnames, alldironly, r), ["real", "std"]))
    distinct = sum(r.distinct for r, _ in parts)
    generated = sum(r.generated for r, _ in parts)
    tlc_wall = max(r.wall_s for r, _ in parts)
    import time
    t0 = time.time()
    chunks = [c for _, txt in parts for c in _split_states(txt, 32)]
    del parts
    results = common.parallel_map(_work, [(i, ctx.scratch, c) for i, c in enumerate(chunks)], procs=16)
    ctx.coverage["replay_wall_s"] = round(time.time() - t0, 2)
    n = sum(r["n"] for r in results)
    if n != distinct:
        raise common.MachineryError(f"replayed {n} cases but TLC found {distinct} states")
    for r in results:
        for key, text, rep in r["viol"]:
            ctx.violation(key, text, rep)
    cov = ctx.coverage
    cov.update({
        "states": distinct, "transitions": generated,
        "tlc_models": [{"module": "MC_Clean", "MaxNodes": maxnodes, "WNames": wnames, "AllDirOnly": alldironly, "distinct": distinct,
                        "generated": generated, "wall_s": round(tlc_wall, 2), "processes": 2}],
        "traces_validated_against_impl": n, "evaluations": n,
        "distinct_nontrivial": sum(r["nontrivial"] for r in results),
        "parse_cpu_s": round(sum(r["t_parse"] for r in results), 2),
        "cases_where_something_was_deleted": sum(r["deleting"] for r in results),
        "rule": f"every run-dir tree of <= {maxnodes} nodes (files, dirs, hidden file, standard symlink dirs run/share/"
                f"share/cycle/{'|'.join(wnames)} with targets elsewhere, one non-standard symlink to an outside dir / outside "
                "file / nowhere / a dir inside the run dir, at top level, in a dir or in a symlink dir) x every pattern of "
                "<= 3 components over {literal, *, **} without and with trailing / (quick: the latter only where it can "
                "change the match set or the pattern ends in a wildcard) that a symlink-following glob would "
                "match, plus a no-match pattern and the wholesale clean; non-trivial = something must be deleted and the "
                "tree has a standard symlink dir or a non-standard symlink",
        "exhaustive": True,
        "samples": [s for r in results for s in r["samples"]][:5],
        "checker_cmd": "tlc MC_Clean -dump; every state materialised in scratch and cleaned with cylc.flow.clean.init_clean",
    })
    obs = [o for r in results for o in r["obs"]]
    if obs:
        pats = sorted({t for t, _ in obs})
        cov["observation_errors_with_correct_result"] = {"cases": len(obs), "patterns": pats, "example": obs[0][1]}
        ctx.notes.append(f"OBSERVATION C38 (not a violation): in {len(obs)} cases clean raised an exception after deleting "
                         f"exactly the expected paths (patterns {pats}); e.g. {obs[0][1]}")
    ctx.assumptions += [
        "empty ancestor directories of a standard symlink target below <symlink dir>/cylc-run/ may be pruned by clean "
        "(they were created by cylc install for that target); this is not counted as deleting outside the workflow",
        "glob components are whole path components (literal, *, **); character classes and partial wildcards (a*) are "
        "not enumerated",
        "local clean only (--local-only); remote clean re-invokes the same code on the remote host",
    ]


def replay(ctx, data):
    c = data["replay"]["case"]
    st = {"kinds": {tuple(p): k for p, k in c["kinds"]}, "text": c["text"], "gone": [tuple(q) for q in c["gone"]],
          "matched": [tuple(q) for q in c["matched"]]}
    world = World(os.path.join(ctx.scratch, "replay"), ctx.scratch)
    viol, _nt, _nd, _obs = check_case(world, st)
    for key, text in viol:
        ctx.violation(key, text, {"case": c})
    ctx.coverage.update({"states": 1, "transitions": 1, "traces_validated_against_impl": 1, "samples": [c["text"]]})
