"""C37: template variables survive restart unchanged; command-line values given at restart win.

Oracle = spec/oracle/TVars.tla (TLC enumerates Python-literal value trees with their command-line source text, and
override cases; Expected(c) = first-start values overridden by restart command-line values).

Replay of one state, using exactly the functions the scheduler uses (no whole Scheduler is booted):

  first start   Scheduler.__init__      : templatevars.get_template_vars(options)   [-s KEY=<src> strings]
                Scheduler.configure     : WorkflowDatabaseManager.on_workflow_start(is_restart=False)
                                          .put_workflow_template_vars(template_vars); .process_queued_ops()
                shutdown                : .on_workflow_shutdown()
  restart       Scheduler.__init__      : is_restart = private DB file exists;  get_template_vars(restart options)
                Scheduler.start         : Scheduler.load_workflow_params_and_tmpl_vars(self)  (the real unbound method, run
                                          on a stub object that carries .template_vars, .workflow_db_mgr and the real
                                          Scheduler._load_template_vars bound to it) -> rundb select_workflow_template_vars
                                          -> templatevars.eval_var
                Scheduler.configure     : on_workflow_start(is_restart=True); put_workflow_template_vars(merged); process_queued_ops
  2nd restart   the same with an empty command line: the merged values must be restored again.

The restored Python objects are compared type-strictly with the TLC-computed trees (ints by decimal text, floats by
float.hex(), strings by code points, containers structurally) - no use of repr()/literal_eval in the comparison.
"""
from __future__ import annotations
import os, types
from optparse import Values
from harness import oracle
from harness.common import parallel_map
from harness.tlaparse import to_py

MAX_REPORTED = 12


# ---------------------------------------------------------------- tree <-> python object comparison (trusted, small)
def matches(ast, val) -> bool:
    t = ast["t"]
    if t == "int":
        return type(val) is int and val == int(ast["v"])
    if t == "float":
        return type(val) is float and val.hex() == ast["v"]
    if t == "complex":
        return type(val) is complex and f"{val.real.hex()},{val.imag.hex()}" == ast["v"]
    if t == "bool":
        return type(val) is bool and str(val) == ast["v"]
    if t == "none":
        return val is None
    if t == "ellipsis":
        return val is Ellipsis
    if t == "bytes":
        return type(val) is bytes and list(val) == [int(x) for x in ast["v"].split(",")]
    if t == "str":
        return type(val) is str and [ord(ch) for ch in val] == list(ast["cps"])
    if t in ("list", "tuple"):
        return type(val) is (list if t == "list" else tuple) and len(val) == len(ast["items"]) and \
            all(matches(a, v) for a, v in zip(ast["items"], val))
    if t == "set":
        if type(val) is not set or len(val) != len(ast["items"]):
            return False
        return _bijection(list(ast["items"]), list(val), matches)
    if t == "dict":
        if type(val) is not dict or len(val) != len(ast["items"]):
            return False
        return _bijection(list(ast["items"]), list(val.items()),
                          lambda kv_ast, kv: matches(kv_ast[0], kv[0]) and matches(kv_ast[1], kv[1]))
    raise ValueError(f"unknown tree type {t}")


def _bijection(asts, vals, pred):
    if not asts:
        return not vals
    for i, v in enumerate(vals):
        if pred(asts[0], v) and _bijection(asts[1:], vals[:i] + vals[i + 1:], pred):
            return True
    return False


def kind(ast) -> str:
    """Value class for stable keys."""
    t = ast["t"]
    if t in ("int", "float", "complex", "bool", "none", "ellipsis", "bytes"):
        if t in ("float", "complex") and "inf" in ast["v"]:
            return t + "-inf"
        if t == "int":
            return "int-big" if len(ast["v"]) > 10 else "int"
        return t
    if t == "str":
        names = {34: "dq", 39: "sq", 92: "bs", 10: "nl", 9: "tab", 13: "cr", 0: "nul", 32: "sp"}
        return "str[" + ",".join(names.get(c, "u%04x" % c if c > 126 else chr(c)) for c in ast["cps"]) + "]"
    if t == "dict":
        return "dict{" + ",".join(kind(k) + ":" + kind(v) for k, v in ast["items"]) + "}"
    return t + "(" + ",".join(kind(a) for a in ast["items"]) + ")"


NO_LITERAL_REPR = ("float-inf", "complex-inf", "ellipsis")   # leaf classes whose repr() is not a Python literal


def _leaf_kinds(ast, acc):
    if ast["t"] == "dict":
        for k, v in ast["items"]:
            _leaf_kinds(k, acc)
            _leaf_kinds(v, acc)
    elif "items" in ast:
        for a in ast["items"]:
            _leaf_kinds(a, acc)
    else:
        acc.add(kind(ast))
    return acc


def case_label(c) -> str:
    """Stable, coarse input class: if the value trees contain a leaf class whose repr() is not a literal, the class
    is just those leaf kinds (one finding, however deeply nested); otherwise the full shape of the values."""
    kinds = set()
    for d in list(c["first"]) + list(c["again"]):
        _leaf_kinds(d["ast"], kinds)
    odd = sorted(k for k in kinds if k in NO_LITERAL_REPR)
    if odd:
        return "+".join(odd)
    return "+".join(kind(d["ast"]) for d in c["first"]) + ("|again:" + "+".join(kind(d["ast"]) for d in c["again"])
                                                           if c["again"] else "")


# ---------------------------------------------------------------- one case through the real code
def _opts(defs):
    return Values({"templatevars": [f"{d['key']}={d['src']}" for d in defs], "templatevars_file": None,
                   "templatevars_lists": []})


def run_case(arg):
    """-> list of (key, text); raises for machinery problems (oracle domain not accepted at first start)."""
    wdir, st = arg
    from cylc.flow.exceptions import InputError
    from cylc.flow.scheduler import Scheduler
    from cylc.flow.templatevars import get_template_vars
    from cylc.flow.workflow_db_mgr import WorkflowDatabaseManager
    c, exp = st["c"], st["exp"]
    pri_d, pub_d = os.path.join(wdir, ".service"), os.path.join(wdir, "log")
    os.makedirs(pri_d, exist_ok=True)
    os.makedirs(pub_d, exist_ok=True)
    label = case_label(c)

    # ---- first start
    tv1 = get_template_vars(_opts(c["first"]))       # InputError here = my oracle generated a non-literal: machinery
    for d in c["first"]:
        if d["key"] not in tv1 or not matches(d["ast"], tv1[d["key"]]):
            raise RuntimeError(f"oracle table wrong: {d['src']!r} was read at first start as {tv1.get(d['key'])!r}")
    mgr = WorkflowDatabaseManager(pri_d, pub_d)
    assert not os.path.isfile(mgr.pri_path)
    try:
        mgr.on_workflow_start(is_restart=False)
        mgr.put_workflow_template_vars(tv1)
        mgr.process_queued_ops()
    except Exception as exc:
        return [(f"store:{label}", f"first start with {_opts(c['first']).templatevars!r}: storing the template "
                 f"variables failed: {type(exc).__name__}: {exc}")]
    finally:
        mgr.on_workflow_shutdown()

    # ---- restart(s)
    def restart(defs):
        mgr2 = WorkflowDatabaseManager(pri_d, pub_d)
        assert os.path.isfile(mgr2.pri_path)                      # Scheduler.__init__: is_restart
        stub = types.SimpleNamespace(workflow_db_mgr=mgr2, template_vars=get_template_vars(_opts(defs)))
        stub._load_template_vars = types.MethodType(Scheduler._load_template_vars, stub)
        try:
            Scheduler.load_workflow_params_and_tmpl_vars(stub)    # Scheduler.start (restart branch)
            mgr2.on_workflow_start(is_restart=True)               # Scheduler.configure
            mgr2.put_workflow_template_vars(stub.template_vars)
            mgr2.process_queued_ops()
        finally:
            mgr2.on_workflow_shutdown()
        return stub.template_vars

    out = []
    for n, defs in ((1, c["again"]), (2, ())):
        cli = _opts(defs).templatevars
        try:
            got = restart(defs)
        except (InputError, ValueError, SyntaxError, TypeError) as exc:
            out.append((f"restore:{label}", f"first start {_opts(c['first']).templatevars!r}; restart #{n} with {cli!r} "
                        f"fails to load the stored template variables: {type(exc).__name__}: {exc}"))
            break
        if set(got) != set(exp):
            out.append((f"keys:{label}", f"restart #{n} with {cli!r}: variables {sorted(got)} expected {sorted(exp)}"))
            break
        for k in sorted(exp):
            if not matches(exp[k], got[k]):
                clause = "override" if any(d["key"] == k for d in c["again"]) else "roundtrip"
                out.append((f"{clause}:{label}", f"first start {_opts(c['first']).templatevars!r}; restart #{n} with "
                            f"{cli!r}: {k} = {got[k]!r} ({type(got[k]).__name__}), expected the value of "
                            f"{_src_of(c, k)!r}"))
        if out:
            break
    return out


def _src_of(c, k):
    for d in list(c["again"]) + list(c["first"]):
        if d["key"] == k:
            return d["src"]


def _run_chunk(arg):
    base, chunk = arg
    res = []
    for i, st in chunk:
        res.append((i, run_case((os.path.join(base, f"c{i}"), st))))
    return res


def run(ctx):
    import cylc.flow.scheduler  # noqa: F401  (import before forking)
    states = oracle.enumerate_cases(ctx, "TVars", None if ctx.quick else "TVars_thorough", timeout=900)
    states.sort(key=lambda st: (st["c"]["fam"], [d["src"] for d in st["c"]["first"]], [d["src"] for d in st["c"]["again"]]))
    idx = list(enumerate(states))
    chunks = [(ctx.scratch, idx[j:j + 40]) for j in range(0, len(idx), 40)]
    bad = []
    for res in parallel_map(_run_chunk, chunks, procs=16):
        for i, out in res:
            bad += [(k, t, states[i]) for k, t in out]
    # one report per key: the case with the shortest source text; simplest keys first
    bad.sort(key=lambda x: (len(x[0]), x[0], sum(len(d["src"]) for d in x[2]["c"]["first"]), x[1]))
    keys = []
    for key, text, st in bad:
        if key not in keys:
            keys.append(key)
            if len(keys) <= MAX_REPORTED:
                ctx.violation(key, text, {"case": to_py(st)})
    if len(keys) > MAX_REPORTED:
        ctx.notes.append(f"C37: {len(keys)} distinct failing keys, the {MAX_REPORTED} simplest reported")
    ctx.coverage["failing_keys"] = keys[:50]
    ctx.coverage["failing_cases"] = len(bad)
    nontrivial = sum(1 for st in states if st["c"]["fam"] == "O" or _nontrivial(st["c"]["first"][0]["ast"]))
    samples = [{"first": [f"{d['key']}={d['src']}" for d in st["c"]["first"]],
                "restart_cli": [f"{d['key']}={d['src']}" for d in st["c"]["again"]]}
               for st in states[:: max(1, len(states) // 5)]]
    oracle.finish_cov(ctx, len(states), nontrivial,
                      "family V: one variable, every value tree (ints incl. > 64 bit / hex / underscore forms, floats incl. "
                      "-0.0, denormal, max, overflow-to-inf, complex, bool, None, Ellipsis, bytes, every string of 0..StrLen "
                      "characters over 18 characters (quotes, backslash, newline, tab, CR, NUL, #, =, {, DEL, NEL, non-ASCII, "
                      "non-BMP, lone surrogate), look-alike strings, lists/tuples/sets/dicts of 0..2 palette elements, nested "
                      "containers); family O: two variables, one (maybe) overridden at restart by a value of another type, one "
                      "(maybe) new at restart. Each case: first start, restart with the command line, restart without. "
                      "non-trivial = not a plain small int / ASCII-letter string.", samples, exhaustive=True)
    ctx.assumptions += [
        "The Scheduler object is not booted: its restart methods load_workflow_params_and_tmpl_vars / _load_template_vars "
        "are executed unbound on a stub carrying the real WorkflowDatabaseManager; the call order is copied from "
        "Scheduler.__init__/start/configure.",
        "Template variables come from -s only (no -S file, no -z lists, no rose/plugin template variables).",
        "Comparison is by type-strict structural match of the restored object against the TLA+ tree (float.hex, code points).",
    ]


def _nontrivial(ast):
    if ast["t"] == "int":
        return len(ast["v"]) > 10 or ast["src"] != ast["v"]
    if ast["t"] == "str":
        return any(cp != 97 for cp in ast["cps"])
    return True


def replay(ctx, data):
    st = _thaw(data["replay"]["case"])
    for key, text in run_case((os.path.join(ctx.scratch, "replay"), st)):
        ctx.violation(key, text, {"case": data["replay"]["case"]})
    ctx.coverage.update({"states": 1, "transitions": 1, "traces_validated_against_impl": 1,
                         "samples": [[f"{d['key']}={d['src']}" for d in st["c"]["first"]]]})


def _thaw(x):
    """JSON lists back to tuples (only sequence-ness matters to the engine)."""
    if isinstance(x, dict):
        return {k: _thaw(v) for k, v in x.items()}
    if isinstance(x, list):
        return tuple(_thaw(v) for v in x)
    return x
