"""C36: configuration processing is idempotent.

Oracle = spec/oracle/ConfigAst.tla.  TLC enumerates configurations (feature choices with at most K non-default
features) and computes, for each, the source files, the template variables and Denote(case) = the validated
configuration the source means.  Every state is replayed:

  1. the files are written to ctx.scratch; cylc.flow.parsec.fileparse.parse(src, output_fname=<run>/log/config/
     flow-processed.cylc, template_vars) parses the source and writes the processed file (exactly what the scheduler's
     load_flow_file -> WorkflowConfig -> RawWorkflowConfig -> ParsecConfig.loadcfg does);
  2. fileparse.parse(processed) - the raw nested dicts must be equal, including item order               [idem]
  3. cylc.flow.cfgspec.workflow.RawWorkflowConfig (parse + upgrade + validate against the real workflow spec) on the
     source and on the processed file: the sparse validated configs must be equal                          [idem]
     and equal to Denote(case)                                                                             [denote]
  4. the full cylc.flow.config.WorkflowConfig on both (with output_fname, as the scheduler does): the dense config,
     task list, inheritance and graph edges must be equal, the processed text identical to that of step 1   [idem]

`idem` clauses are the property statement.  `denote` (both parses agree with each other but not with the meaning
TLC computed) is a guard against the parser being wrong in the same way twice; it is reported under its own key.
"""
from __future__ import annotations
import os
from harness import oracle
from harness.common import parallel_map
from harness.tlaparse import to_py

MAX_REPORTED = 12
DEFAULT = {"title": "bare", "desc": "none", "inherit": "none", "graph": "single", "place": "inline", "env": "bare",
           "shebang": "no"}


def features(c) -> tuple:
    return tuple(sorted(f"{k}={v}" for k, v in c.items() if DEFAULT[k] != v))


def tree(d):
    """OrderedDict (raw or validated) -> ordered tuple tree in the shape of ConfigAst.Denote."""
    out = []
    for k, v in d.items():
        if isinstance(v, dict):
            out.append(("S", k, tree(v)))
        elif isinstance(v, (list, tuple)):
            out.append(("I", k, "list", tuple(v)))
        else:
            out.append(("I", k, "str", v))
    return tuple(out)


def first_diff(a, b, path=""):
    """Human readable first difference of two trees."""
    if a == b:
        return None
    if not (isinstance(a, tuple) and isinstance(b, tuple)):
        return f"{path}: {a!r} != {b!r}"
    if a and b and a[0] in ("S", "I") and b[0] in ("S", "I") and isinstance(a[1], str) and isinstance(b[1], str):
        if a[0] != b[0] or a[1] != b[1]:
            return f"{path}: {a[0]} {a[1]!r} vs {b[0]} {b[1]!r}"
        if a[0] == "S":
            return first_diff(a[2], b[2], f"{path}[{a[1]}]")
        return f"{path}{a[1]}: {a[2:]!r} != {b[2:]!r}"
    for i, (x, y) in enumerate(zip(a, b)):
        d = first_diff(x, y, path)
        if d:
            return d
    def names(t):
        return [x[1] if isinstance(x, tuple) and len(x) > 1 and x[0] in ("S", "I") else x for x in t]
    return f"{path}: {len(a)} entries vs {len(b)}: {names(a)!r:.300} vs {names(b)!r:.300}"


def _plain(x):
    """Dense config -> comparable plain structure (keeps order of dict items)."""
    if isinstance(x, dict):
        return tuple((k, _plain(v)) for k, v in x.items())
    if isinstance(x, (list, tuple)):
        return tuple(_plain(v) for v in x)
    return x if isinstance(x, (str, int, float, bool, type(None))) else repr(x)


def _full(fpath, tvars, out):
    from cylc.flow.config import WorkflowConfig
    from cylc.flow.scheduler_cli import RunOptions
    cfg = WorkflowConfig("c36", fpath, RunOptions(), dict(tvars), output_fname=out,
                         run_dir=os.path.dirname(os.path.dirname(os.path.dirname(out))) if out else None)
    edges = tuple(sorted((str(seq), tuple(sorted(map(str, e)))) for seq, e in cfg.edges.items()))
    return {"cfg": _plain(cfg.cfg), "tasks": tuple(sorted(cfg.taskdefs)), "edges": edges,
            "parents": tuple(sorted((k, tuple(v)) for k, v in cfg.runtime["parents"].items()))}


def check_case(arg):
    """-> list of (clause, text).  A legal strict source rejected is reported under the denotation guard."""
    wdir, st, full = arg
    from cylc.flow.parsec.fileparse import parse
    from cylc.flow.cfgspec.workflow import RawWorkflowConfig
    c = st["c"]
    src_d = os.path.join(wdir, "src")
    cfg_d = os.path.join(wdir, "run", "log", "config")
    os.makedirs(cfg_d, exist_ok=True)
    for name, lines in st["files"]:
        p = os.path.join(src_d, name)
        os.makedirs(os.path.dirname(p), exist_ok=True)
        with open(p, "w") as f:
            f.write("\n".join(lines) + "\n")
    src = os.path.join(src_d, "flow.cylc")
    proc = os.path.join(cfg_d, "flow-processed.cylc")
    tvars = {k: v for k, v in st["tvars"]}
    cwd = os.getcwd()
    try:
        # 1. source
        try:
            raw1 = tree(parse(src, output_fname=proc, template_vars=dict(tvars)))
        except Exception as exc:
            if st["strict"]:
                return [("denote", f"the source is legal (its meaning is defined by ConfigAst.tla) but is rejected: "
                         f"{type(exc).__name__}: {' '.join(str(exc).split())[:300]}")]
            return []          # the documented rejection happened: nothing to compare
        with open(proc) as f:
            proc_text = f.read()
        # 2. processed, raw
        try:
            raw2 = tree(parse(proc))
        except Exception as exc:
            return [("idem", f"the processed file cannot be parsed although the source can: {type(exc).__name__}: "
                     f"{' '.join(str(exc).split())[:300]}")]
        if raw1 != raw2:
            return [("idem", "raw parse of source and of processed file differ at " + first_diff(raw1, raw2))]
        # 3. validated
        try:
            v1 = tree(RawWorkflowConfig(src, os.path.join(cfg_d, "again.cylc"), dict(tvars), None).get(sparse=True))
        except Exception as exc:
            if st["strict"]:
                raise RuntimeError(f"legal source {features(c)} fails validation: {type(exc).__name__}: {exc}") from exc
            v1 = None
        try:
            v2 = tree(RawWorkflowConfig(proc, None, {}, None).get(sparse=True))
        except Exception as exc:
            if v1 is None:
                return []
            return [("idem", f"the processed file fails validation although the source passes: {type(exc).__name__}: {exc}")]
        if v1 is None:
            return [("idem", "the source fails validation although the processed file passes")]
        if v1 != v2:
            return [("idem", "validated config of source and of processed file differ at " + first_diff(v1, v2))]
        out = []
        if st["strict"] and v1 != st["exp"]:
            out.append(("denote", "source and processed file agree but not with the meaning of the source: "
                        + first_diff(v1, st["exp"]) + " (got != expected)"))
        with open(os.path.join(cfg_d, "again.cylc")) as f:
            if f.read() != proc_text:
                out.append(("idem", "two runs of the processor on the same source wrote different processed files"))
        # 4. full WorkflowConfig
        if full and st["strict"]:
            proc2 = os.path.join(wdir, "run2", "log", "config", "flow-processed.cylc")
            os.makedirs(os.path.dirname(proc2), exist_ok=True)
            f1 = _full(src, tvars, proc2)
            with open(proc2) as f:
                if f.read() != proc_text:
                    out.append(("idem", "WorkflowConfig wrote a processed file different from fileparse.parse's"))
            f2 = _full(proc, {}, None)
            for part in ("cfg", "tasks", "parents", "edges"):
                if f1[part] != f2[part]:
                    out.append(("idem", f"WorkflowConfig of source and of processed file differ in {part}: "
                                + str(first_diff(f1[part], f2[part]))[:400]))
                    break
            if not f1["edges"] or not {"a", "b", "c"} <= set(f1["tasks"]):
                raise RuntimeError(f"WorkflowConfig of {features(c)} has no graph / tasks: {f1['edges']} {f1['tasks']}")
        return out
    finally:
        os.chdir(cwd)


def _cache_entry_points():
    """Speed: cylc scans all installed distributions for plugin entry points on every parse (75% of the time of a
    case).  The installed set cannot change during a run, so scan once per group.  (External wrapper, /repo untouched.)"""
    import functools
    import cylc.flow.plugins as plugins
    if getattr(plugins.iter_entry_points, "_verif_cached", False):
        return
    orig = plugins.iter_entry_points
    cached = functools.lru_cache(maxsize=None)(lambda group: tuple(orig(group)))

    def iter_entry_points(group):
        yield from cached(group)
    iter_entry_points._verif_cached = True
    plugins.iter_entry_points = iter_entry_points


def _chunk(arg):
    base, items = arg
    _cache_entry_points()
    return [(i, check_case((os.path.join(base, f"c{i}"), st, full))) for i, st, full in items]


def run(ctx):
    import cylc.flow.config, cylc.flow.scheduler_cli  # noqa: F401,E401  (import before forking)
    states = oracle.enumerate_cases(ctx, "ConfigAst", None if ctx.quick else "ConfigAst_thorough", timeout=900)
    states.sort(key=lambda st: (len(features(st["c"])), features(st["c"])))
    items = [(i, st, True) for i, st in enumerate(states)]
    chunks = [(ctx.scratch, items[j:j + 24]) for j in range(0, len(items), 24)]
    bad = []
    for res in parallel_map(_chunk, chunks, procs=16):
        for i, out in res:
            bad += [(clause, features(states[i]["c"]), text, states[i]) for clause, text in out]
    # report minimal feature sets only: a failing case is subsumed by a reported subset of its features
    bad.sort(key=lambda b: (len(b[1]), b[1], b[0]))
    reported = []
    for clause, feats, text, st in bad:
        if any(cl == clause and set(fs) <= set(feats) for cl, fs in reported):
            continue
        reported.append((clause, feats))
        if len(reported) <= MAX_REPORTED:
            ctx.violation(f"{clause}:{','.join(feats) or 'default'}", f"features {list(feats)}: {text}",
                          {"case": to_py(st)})
    if len(reported) > MAX_REPORTED:
        ctx.notes.append(f"C36: {len(reported)} minimal failing feature sets, {MAX_REPORTED} reported")
    ctx.coverage["failing_cases"] = len(bad)
    ctx.coverage["minimal_failing_feature_sets"] = [f"{cl}:{','.join(fs)}" for cl, fs in reported][:50]
    n_strict = sum(1 for st in states if st["strict"])
    nontrivial = sum(1 for st in states if len(features(st["c"])) >= 1)
    samples = []
    for st in states[:: max(1, len(states) // 4)][:4]:
        samples.append({"features": list(features(st["c"])), "flow.cylc": list(st["files"][0][1])[:12]})
    oracle.finish_cov(ctx, len(states), nontrivial,
                      "every configuration with <= K (quick 2, thorough 3) non-default features out of: title style (bare, "
                      "\"..\", '..', triple-quoted, trailing comment, quoted # + comment, continuation, {{var}} from {% set %}, "
                      "{{var}} from template variables, {% raw %} block, continuation with trailing white space on a continued line), "
                      "multi-line description (13 forms: ''' / \"\"\", comment after closing quotes, # line inside, blank line, "
                      "continuation inside, %include inside, Jinja2 for-loop, Jinja2 include, mixed indentation, one-line, text "
                      "on the opening line), inherit list (bare, quoted elements, comment, continuation), graph "
                      "(single, multi-line, \\ continuation, => continuation, repeated item, repeated section, Jinja2 loop, "
                      "comments), task section placement (inline, %include, nested %include, %include of items, duplicate "
                      "section, Jinja2 loop over sections), environment value style (7), #!jinja2 on/off. Each case: raw "
                      "parse x2, RawWorkflowConfig x2 + Denote, WorkflowConfig x2.", samples, exhaustive=True)
    ctx.coverage["strict_cases"] = n_strict
    ctx.assumptions += [
        "The processed file is the one fileparse.parse / WorkflowConfig write via output_fname (the scheduler's "
        "log/config/flow-processed.cylc); it is re-parsed from <run>/log/config/ with no template variables.",
        "The scan for installed plugin entry points is cached per process (harness wrapper around "
        "cylc.flow.plugins.iter_entry_points). No cylc.pre_configure plugins (rose) are installed; empy is not exercised; cylc 7 back-compat mode is off.",
        "Blank lines inside multi-line strings are outside the domain when Jinja2 is on (documented: blank lines of the "
        "rendered text are dropped).",
        "Values are short ASCII words; the variety is in the syntax forms, not in the characters.",
    ]


def replay(ctx, data):
    _cache_entry_points()
    st = data["replay"]["case"]
    st = {"c": st["c"], "files": [(n, tuple(ls)) for n, ls in st["files"]], "tvars": [tuple(x) for x in st["tvars"]],
          "exp": _tuple(st["exp"]), "strict": st["strict"]}
    for clause, text in check_case((os.path.join(ctx.scratch, "replay"), st, True)):
        ctx.violation(f"{clause}:{','.join(features(st['c'])) or 'default'}", text, {"case": data["replay"]["case"]})
    ctx.coverage.update({"states": 1, "transitions": 1, "traces_validated_against_impl": 1,
                         "samples": [list(features(st["c"]))]})


def _tuple(x):
    return tuple(_tuple(v) for v in x) if isinstance(x, list) else x
