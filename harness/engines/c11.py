"""C11 = function half (Completion.tla oracle, harness.engines.completion) + runtime half (scheduler traces)."""
from harness.engines import completion, sched

def run(ctx):
    stats = completion.check_function_half(ctx)
    fn_cov = {k: ctx.coverage.get(k) for k in ("states", "transitions", "tlc_models")}
    sched.run(ctx)
    ctx.coverage["function_half"] = {"stats": stats, **fn_cov}
    ctx.coverage["traces_validated_against_impl"] += int((stats or {}).get("definitions_loaded", 0))

def replay(ctx, data):
    if "job" in (data.get("replay") or {}):
        return sched.replay(ctx, data)
    return completion.replay(ctx, data)
