"""C34: parameter expansion yields exactly the Cartesian product over the parameters used.

Oracle = spec/oracle/Params.tla.  Every TLC state is one graph line (or runtime heading) over a parameter set, with
the expected set of instances.  Graph lines are replayed on GraphExpander.expand (result compared as a set, nodes
carrying the out-of-range marker counted as dropped) and on GraphParser(parameters=...) (edges and task names);
headings on NameExpander.expand.
"""
from __future__ import annotations
import re
from harness import oracle
from harness.tlaparse import to_py


def cylc_params(params):
    """TLA parameter records -> the (values, templates) pair cylc passes around."""
    return ({p["name"]: list(p["vals"]) for p in params}, {p["name"]: p["tmpl"] for p in params})


def _chain(line, marker):
    """'a_m0&baz=>bar_m1' -> (frozenset({'a_m0','baz'}), frozenset({'bar_m1'})); out-of-range nodes dropped,
    leading emptied groups dropped."""
    groups = []
    for part in "".join(line.split()).split("=>"):
        groups.append(frozenset(n for n in part.split("&") if n and marker not in n))
    while groups and not groups[0]:
        groups.pop(0)
    return tuple(groups)


def feature_key(text):
    f = []
    if re.search(r'-\d', text):
        f.append("offset")
    if "=" in text.replace("=>", ""):
        f.append("fixed")
    if re.search(r'<\w+(?:[-=]\w+)?,', text):
        f.append("two-params")
    return "+".join(f) or "plain"


def check_graph(st):
    """-> list of (key, message)"""
    from cylc.flow.param_expand import GraphExpander
    from cylc.flow.graph_parser import GraphParser
    from cylc.flow.exceptions import ParamExpandError, GraphParseError
    params = cylc_params(st["params"])
    text = st["text"]
    expected = set(st["expected"])
    fk = feature_key(text)
    out = []
    # (A) GraphExpander.expand as a set
    marker = str(GraphExpander._REMOVE)
    try:
        got_lines = GraphExpander(params).expand("".join(text.split()))
    except ParamExpandError as e:
        return [(f"graph:{fk}:rejected", f"{text!r} with {params[0]}: legal line rejected: {e}")]
    got = {_chain(ln, marker) for ln in got_lines} - {()}
    if got != expected:
        missing = sorted(map(_fmt, expected - got))
        extra = sorted(map(_fmt, got - expected))
        out.append((f"graph:{fk}:expand", f"GraphExpander.expand({text!r}) with {params[0]}: missing instances {missing}, "
                    f"unexpected instances {extra} (raw result {sorted(got_lines)})"))
    if len(got_lines) > st["ninst"]:
        out.append((f"graph:{fk}:count", f"GraphExpander.expand({text!r}) returned {len(got_lines)} lines for "
                    f"{st['ninst']} combinations of {sorted(st['used'])}"))
    # (B) through the graph parser: edges and task names
    gp = GraphParser(parameters=params)
    try:
        gp.parse_graph(text)
    except (GraphParseError, ParamExpandError) as e:
        out.append((f"graph:{fk}:parser-rejected", f"{text!r} with {params[0]}: rejected by GraphParser: {e}"))
        return out
    # Where the offset node stood alone at the head of the line, the user guide's examples and GraphParser drop the
    # whole dependency instance rather than only the node; both readings give the same edges, so edges are compared
    # exactly and the task names of such truncated instances are allowed to be absent.
    n_groups = text.count("=>") + 1
    exp_edges, exp_names, optional_names = set(), set(), set()
    for inst in expected:
        for g in inst:
            (optional_names if len(inst) < n_groups else exp_names).update(g)
        for a, b in zip(inst, inst[1:]):
            for r in b:
                for l in a:
                    exp_edges.add((l, r))
    got_edges = set()
    for right, d in gp.triggers.items():
        for expr, (trigs, _) in d.items():
            for t in trigs:
                got_edges.add((t.split(":")[0], right))
    got_names = set(gp.triggers)
    if got_edges != exp_edges or not (exp_names <= got_names <= exp_names | optional_names):
        out.append((f"graph:{fk}:parsed", f"GraphParser on {text!r} with {params[0]}: edges missing "
                    f"{sorted(exp_edges - got_edges)}, unexpected {sorted(got_edges - exp_edges)}; tasks missing "
                    f"{sorted(exp_names - got_names)}, unexpected {sorted(got_names - exp_names - optional_names)}"))
    return out


def _fmt(inst):
    return " => ".join(" & ".join(sorted(g)) for g in inst)


def check_heading(st):
    from cylc.flow.param_expand import NameExpander
    from cylc.flow.exceptions import ParamExpandError
    params = cylc_params(st["params"])
    vals = {p["name"]: p["vals"] for p in st["params"]}
    text = st["text"]
    fk = feature_key(text)
    expected = {(name, frozenset((p, vals[p][i - 1]) for p, i in asg)) for name, asg in st["expected"]}
    try:
        res = NameExpander(params).expand(text)
    except ParamExpandError as e:
        return [(f"heading:{fk}:rejected", f"heading {text!r} with {params[0]}: legal heading rejected: {e}")]
    got = {(name, frozenset(d.items())) for name, d in res}
    out = []
    if got != expected:
        out.append((f"heading:{fk}:expand", f"NameExpander.expand({text!r}) with {params[0]}: missing "
                    f"{sorted((n, sorted(map(str, a))) for n, a in expected - got)}, unexpected "
                    f"{sorted((n, sorted(map(str, a))) for n, a in got - expected)}"))
    if len(res) != len(expected):
        out.append((f"heading:{fk}:count", f"NameExpander.expand({text!r}) returned {len(res)} entries for "
                    f"{len(expected)} instances"))
    return out


def check_state(st):
    return check_graph(st) if st["kind"] == "graph" else check_heading(st)


def run(ctx):
    states = oracle.enumerate_cases(ctx, "Params", None if ctx.quick else "ParamsFull", timeout=1500, workers=2)
    states.sort(key=lambda s: (s["set"], s["kind"], len(s["text"]), s["text"]))
    n = 0
    stats = {"graph_lines": 0, "headings": 0, "with_offset": 0, "with_dropped_node": 0, "with_fixed_value": 0,
             "two_params": 0, "merged_instances": 0, "expected_instances": 0}
    samples = []
    for st in states:
        n += 1
        text = st["text"]
        stats["graph_lines" if st["kind"] == "graph" else "headings"] += 1
        fk = feature_key(text)
        stats["with_offset"] += "offset" in fk
        stats["with_fixed_value"] += "fixed" in fk
        stats["two_params"] += "two-params" in fk
        stats["expected_instances"] += len(st["expected"])
        if st["kind"] == "graph":
            shape_len = text.count("=>") + 1
            if any(len(inst) < shape_len or ("baz" in text and len(inst[0]) == 1) for inst in st["expected"]) \
                    or (st["ninst"] and not st["expected"]):
                stats["with_dropped_node"] += 1
            if len(st["expected"]) < st["ninst"]:
                stats["merged_instances"] += 1
        if len(samples) < 4 and "offset" in fk and "two-params" in fk and st["kind"] == "graph" and n % 97 == 0:
            samples.append({"set": st["set"], "line": text, "expected": sorted(_fmt(i) for i in st["expected"])})
        for key, msg in check_state(st):
            ctx.violation(key, msg, {"case": to_py(st)})
    ctx.coverage["c34"] = stats
    nontrivial = stats["with_offset"] + stats["with_fixed_value"] + stats["two_params"]
    oracle.finish_cov(
        ctx, n, sum(1 for s in states if feature_key(s["text"]) != "plain"),
        "parameter sets {m:0..2 int, p:cat|dog} and {i:8,9,10 (two-digit template), q:1,3 (custom template)} (+ a three "
        "parameter set with non-contiguous integers in thorough) x line shapes (pair, '&' with an unparameterised node, "
        "three-node chain, lone node) x every group of 1-2 parameters in either order, each plain / first or last value "
        "fixed / offset -1 / -2 (offsets on the first node only), plus runtime headings (with and without a second name); "
        "all enumerated by TLC from Params.tla.  non-trivial = cases using an offset, a fixed value or two parameters",
        samples, exhaustive=True)
    ctx.assumptions += [
        "GraphExpander.expand marks a node whose offset has no value with its out-of-range marker and GraphParser drops "
        "it; the harness counts marked nodes as dropped when comparing GraphExpander's raw result.",
        "Through GraphParser only edges are compared exactly: when the dropped node stood alone at the head of a line "
        "GraphParser (pinned by cylc's own unit tests) drops the rest of that instance too, e.g. 'foo<m-1> => bar<m>' does "
        "not define bar_m0; the GraphExpander docstring says the rest is kept.  Both readings give the same edges; task "
        "names of such instances are allowed to be absent.",
        "Offsets only on the first node of a line (as the user guide requires), only negative; positive offsets, "
        "parameters in the middle of a name (foo<m>bar), three-parameter groups and undefined parameters are not "
        "generated.",
        "Parameter value lists and templates are handed to the expanders directly in the form WorkflowConfig builds them "
        "(integers as ints, default templates _p%(p)0Nd / _%(p)s).",
    ]
    del nontrivial


def replay(ctx, data):
    from harness.tlaparse import freeze
    st = data["replay"]["case"]
    st["params"] = tuple(dict(p, vals=tuple(p["vals"])) for p in st["params"])
    st["used"] = frozenset(st["used"])
    if st["kind"] == "graph":
        st["expected"] = frozenset(tuple(frozenset(g) for g in inst) for inst in st["expected"])
    else:
        st["expected"] = frozenset((name, frozenset(tuple(x) for x in asg)) for name, asg in st["expected"])
    for key, msg in check_state(st):
        ctx.violation(key, msg, data["replay"])
    ctx.coverage.update({"states": 1, "transitions": 1, "traces_validated_against_impl": 1, "samples": [st["text"]]})
    del freeze
