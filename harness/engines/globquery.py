"""C40: workflow-state queries match exactly what was recorded.

Oracle = spec/oracle/Glob.tla: Match(pattern, s) ('*' = any sequence, everything else literal and case-sensitive),
a small recorded history DB and every query <<task pattern, cycle pattern, selector, flow filter>> with the expected
result set computed by TLC.  The harness writes the same history into a real sqlite workflow DB through
CylcWorkflowDAO (cylc's own table definitions and serialisation of flow numbers / outputs) and runs every query
through CylcWorkflowDBChecker.workflow_state_query.

Violation keys are stable per defect class:
  <field>:like-underscore-wildcard   '_' in a '*'-pattern matched some other character
  <field>:like-percent-wildcard      '%' in a '*'-pattern matched a sequence of characters
  <field>:like-case-insensitive      a '*'-pattern matched a name that differs in letter case
                                     (a row that needs several of these is reported under each of them)
  <field>:glob-metachar-wildcard     '?' or '[..]' in a '*'-pattern acted as a wildcard (naive GLOB translation)
  extra-row:<kind> / missing-row:<kind> / wrong-status   anything else
"""
from __future__ import annotations
import json, os
from harness import oracle, tlc
from harness.tlaparse import to_py

def _enumerate(ctx, module, cfg=None, **kw):
    """enumerate_cases with one retry when the JVM dies without any TLC diagnostics (seen on an overloaded host).
    All cases are initial states, which TLC generates sequentially: 2 workers are faster than 16 on a busy host."""
    kw.setdefault("workers", 2)
    try:
        return oracle.enumerate_cases(ctx, module, cfg, **kw)
    except tlc.TLCError as e:
        if "error" in str(e).lower() or "timeout" in str(e):
            raise
        return oracle.enumerate_cases(ctx, module, cfg, **kw)

NONE = "<none>"

# ----------------------------------------------------------------------------- DB construction
def build_db(rows, path):
    """Write the recorded history (from Glob.tla's DB) into a real workflow DB file."""
    from cylc.flow.rundb import CylcWorkflowDAO
    from cylc.flow.util import serialise_set
    if os.path.exists(path):
        os.unlink(path)
    dao = CylcWorkflowDAO(path, create_tables=True)
    try:
        dao.add_insert_item(CylcWorkflowDAO.TABLE_WORKFLOW_PARAMS, ["cycle_point_format", None])
        dao.add_insert_item(CylcWorkflowDAO.TABLE_WORKFLOW_PARAMS, ["cylc_version", "8.5.0"])
        for i, r in enumerate(sorted(rows, key=lambda r: (r["name"], r["cycle"], sorted(r["flows"])))):
            flows = serialise_set(set(r["flows"]))
            dao.add_insert_item(CylcWorkflowDAO.TABLE_TASK_STATES, {
                "name": r["name"], "cycle": r["cycle"], "flow_nums": flows,
                "time_created": "2000-01-01T00:00:00Z", "time_updated": "2000-01-01T00:00:00Z",
                "submit_num": 1, "status": r["status"], "flow_wait": 0, "is_manual_submit": 0})
            outputs = {trig: msg for trig, msg in sorted(r["outputs"])}
            dao.add_insert_item(CylcWorkflowDAO.TABLE_TASK_OUTPUTS, {
                "cycle": r["cycle"], "name": r["name"], "flow_nums": flows, "outputs": json.dumps(outputs)})
        dao.execute_queued_items()
    finally:
        dao.close()

# ----------------------------------------------------------------------------- classification of extra rows
def _glob(p, s, underscore=False, percent=False):
    """Reference glob used ONLY to classify an already detected mismatch into a defect class."""
    if not p:
        return not s
    h = p[0]
    if h == "*" or (percent and h == "%"):
        return _glob(p[1:], s, underscore, percent) or (bool(s) and _glob(p, s[1:], underscore, percent))
    if not s:
        return False
    if h == s[0] or (underscore and h == "_"):
        return _glob(p[1:], s[1:], underscore, percent)
    return False

def _like(p, s, underscore, percent, nocase):
    if nocase:
        p, s = p.lower(), s.lower()
    return _glob(p, s, underscore, percent)

def classify(pattern, value):
    """Why was `value` accepted for `pattern` although the glob does not match?  Returns the list of LIKE features
    ('_' wildcard, '%' wildcard, case-insensitivity) that are each necessary to explain the match, or
    ['glob-metachar-wildcard'] ('?' / '[..]' acting as wildcards), or [] if unexplained / no mismatch."""
    if pattern == NONE or _glob(pattern, value):
        return []
    if _like(pattern, value, True, True, True):
        needed = []
        if not _like(pattern, value, False, True, True):
            needed.append("like-underscore-wildcard")
        if not _like(pattern, value, True, False, True):
            needed.append("like-percent-wildcard")
        if not _like(pattern, value, True, True, False):
            needed.append("like-case-insensitive")
        return needed
    import fnmatch
    if fnmatch.fnmatchcase(value, pattern):
        return ["glob-metachar-wildcard"]          # '?' or '[...]' treated as wildcards
    return []

# ----------------------------------------------------------------------------- one query
def run_query(checker, q, task, cycle):
    sel = q["sel"]
    kw = dict(task=None if task == NONE else task, cycle=None if cycle == NONE else cycle,
              selector=None if sel["val"] == NONE else sel["val"],
              is_trigger=sel["kind"] == "trigger", is_message=sel["kind"] == "message",
              flow_num=None if q["flow"] == 0 else q["flow"])
    return checker.workflow_state_query(**kw), kw

def check_case(checker, st):
    from cylc.flow.flow_mgr import repr_flow_nums
    q, task, cycle = st["q"], st["task"], st["cycle"]
    res, kw = run_query(checker, q, task, cycle)
    kind = q["sel"]["kind"]
    exp = {(r["name"], r["cycle"], repr_flow_nums(set(r["flows"]))): r for r in st["exp"]}
    got = {}
    for row in res:
        key = (row[0], row[1], row[3] if len(row) > 3 else "")
        got[key] = row
    out = []
    descr = f"workflow_state_query({', '.join(f'{k}={v!r}' for k, v in kw.items() if v not in (None, False))})"
    for key in sorted(set(got) - set(exp)):
        name, cyc, fl = key
        keys = [f"task:{w}" for w in classify(task, name)] + [f"cycle:{w}" for w in classify(cycle, cyc)]
        for k in keys or [f"extra-row:{kind}"]:
            out.append((k, f"{descr} returned {cyc}/{name}{fl}, which does not match "
                           f"(task pattern {task!r}, cycle pattern {cycle!r}: '*' is the only wildcard, matching is "
                           f"case-sensitive); expected exactly {sorted(f'{c}/{n}{f}' for n, c, f in exp)}"))
    for key in sorted(set(exp) - set(got)):
        name, cyc, fl = key
        out.append((f"missing-row:{kind}" + (":flow-filter" if q["flow"] else ""),
                    f"{descr} did not return the recorded matching instance {cyc}/{name}{fl}; "
                    f"got {sorted(f'{c}/{n}{f}' for n, c, f in got)}"))
    if kind == "status":
        for key in sorted(set(exp) & set(got)):
            if got[key][2] != exp[key]["status"]:
                out.append(("wrong-status", f"{descr}: {key} reported as {got[key][2]!r}, recorded {exp[key]['status']!r}"))
    if len(res) != len(got):
        out.append((f"duplicate-row:{kind}", f"{descr} returned duplicate rows: {res}"))
    return out

def _load_db_rows(ctx):
    st = _enumerate(ctx, "Glob", "Glob_db")
    assert len(st) == 1 and st[0]["mode"] == "db"
    return [dict(r) for r in st[0]["exp"]]

def run(ctx):
    from cylc.flow.dbstatecheck import CylcWorkflowDBChecker
    rows = _load_db_rows(ctx)
    db_path = os.path.join(ctx.scratch, "c40", "log", "db")
    os.makedirs(os.path.dirname(db_path), exist_ok=True)
    build_db(rows, db_path)
    states = _enumerate(ctx, "Glob")
    # simplest queries first, so that the reported witness of each violation key is minimal
    states.sort(key=lambda s: ((s["q"]["flow"] != 0) + (s["q"]["sel"]["val"] != NONE) + (s["cycle"] != NONE)
                               + (s["q"]["sel"]["kind"] != "status"), repr(to_py(s["q"]))))
    n = nontrivial = 0
    wild_special = 0
    samples = []
    with CylcWorkflowDBChecker("unused", "unused", db_path=db_path) as checker:
        for st in states:
            n += 1
            task, cycle = st["task"], st["cycle"]
            if st["exp"]:
                nontrivial += 1
            if "*" in task and any(ch in task for ch in "_%") or "*" in task and task.lower() != task.upper() \
                    or "*" in cycle and "_" in cycle:
                wild_special += 1
            if len(samples) < 3 and task in ("foo_*", "f%*", "F*") and cycle == NONE and st["q"]["flow"] == 0 \
                    and st["q"]["sel"] == {"kind": "status", "val": NONE}:
                samples.append({"task": task, "expected": sorted(f"{r['cycle']}/{r['name']}" for r in st["exp"])})
            for key, text in check_case(checker, st):
                ctx.violation(key, text, {"case": to_py(st), "db": to_py(rows)})
    oracle.finish_cov(ctx, n, nontrivial,
                      "every query <<25 task patterns (exact, '*', with '_', '%', '?', '[', mixed case), 7 cycle patterns, 15 selectors "
                      "(status / trigger incl. finished / message), flow filter none|1|2|3>> enumerated by TLC from Glob.tla "
                      "against a 10-instance recorded history written to a real sqlite workflow DB; non-trivial = "
                      "queries with a non-empty expected result",
                      samples, exhaustive=True)
    ctx.coverage.update({"db_rows": len(rows), "queries_with_wildcard_and_like_special_or_letters": wild_special,
                         "oracle_checks_by_tlc": ["ASSUME ExactIsEquality", "ASSUME StarMatchesAll", "Unrestricted",
                                                  "FlowFilterShrinks"]})
    ctx.assumptions += ["one fixed recorded history (defined in Glob.tla) in a Cylc 8.3+ format DB; Cylc 7 / pre-8.3 "
                        "back-compat DB formats are not covered",
                        "cycle point reformatting (adjust_point_to_db) and offsets are outside this property; integer "
                        "cycling is used",
                        "the xtrigger / CLI front ends (workflow_state.py) are not driven; the query method they share is"]

def replay(ctx, data):
    import copy
    from cylc.flow.dbstatecheck import CylcWorkflowDBChecker
    st = copy.deepcopy(data["replay"]["case"])
    rows = copy.deepcopy(data["replay"]["db"])
    for r in rows:
        r["outputs"] = [tuple(o) for o in r["outputs"]]
    db_path = os.path.join(ctx.scratch, "c40", "log", "db")
    os.makedirs(os.path.dirname(db_path), exist_ok=True)
    build_db(rows, db_path)
    with CylcWorkflowDBChecker("unused", "unused", db_path=db_path) as checker:
        for key, text in check_case(checker, st):
            ctx.violation(key, text, data["replay"])
    ctx.coverage.update({"states": 1, "transitions": 1, "traces_validated_against_impl": 1,
                         "samples": [{"task": st["task"], "cycle": st["cycle"]}]})
