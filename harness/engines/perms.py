"""C44: private files owner-only.  Spec = spec/Perms.tla (model spec/mc/MC_Perms).

TLC checks the start-up state machine for all 512 umasks x {fresh start, restart, restart with loosened
leftovers}.  Every behaviour whose umask lets start-up proceed at all (owner bits not masked: 64 umasks) is
replayed on the REAL scheduler start-up (Scheduler.install() + Scheduler.start(): register,
key_housekeeping -> remove_keys_on_server / create_server_keys, WorkflowDatabaseManager.on_workflow_start)
in a forked child process running under that umask, in a scratch HOME.  os.umask and os.chmod are wrapped in
the child so that the modes of the tracked files are recorded at the points that correspond to the spec's
SetUmask / RestoreUmask / DbChmod actions and at the end; the recorded trace is compared with the spec's
behaviour state by state, and the C44 invariant is evaluated on the real final modes."""
from __future__ import annotations
import asyncio, json, os, shutil, stat, sys, traceback
from harness import tlc, common

MC = os.path.join(tlc.SPEC_DIR, "mc", "MC_Perms.tla")
CFG = os.path.join(tlc.SPEC_DIR, "mc", "MC_Perms.cfg")
WF = "wf"
ABSENT = 1000
TRACKED = {
    "srv_dir": ".service", "cpk_dir": ".service/client_public_keys", "server_pub": ".service/server.key",
    "server_priv": ".service/server.key_secret", "client_priv": ".service/client.key_secret",
    "client_pub_copy": ".service/client_public_keys/client_localhost.key", "pri_db": ".service/db",
    "pub_db": "log/db"}
PRIVATE = ("pri_db", "server_priv", "client_priv")
CHECKPOINTS = ("set_umask", "restore_umask", "db_chmod", "done")
FLOW = "[scheduler]\n    allow implicit tasks = True\n[scheduling]\n    [[graph]]\n        R1 = a\n"


def _snap(rund):
    out = {}
    for name, rel in TRACKED.items():
        try:
            out[name] = stat.S_IMODE(os.lstat(os.path.join(rund, rel)).st_mode)
        except FileNotFoundError:
            out[name] = ABSENT
    return out


async def _boot(hold):
    """Real start-up: install + start; `hold` is called once start-up has completed; then shut down."""
    from cylc.flow.scheduler import Scheduler, SchedulerStop
    from cylc.flow.scheduler_cli import RunOptions
    schd = Scheduler(WF, RunOptions(paused_start=True, run_mode="simulation"))
    try:
        await schd.install()
        await schd.start()
        return hold(schd)
    finally:
        await asyncio.wait_for(schd.shutdown(SchedulerStop("verif")), 60)


def _components(hold):
    """The same start-up sequence, calling the components directly in the order Scheduler.install() and
    Scheduler.configure() call them (no server, no config parsing): cheap enough for every umask."""
    from pathlib import Path
    from cylc.flow import workflow_files
    from cylc.flow.network.authentication import key_housekeeping
    from cylc.flow.pathutil import get_workflow_run_dir, make_workflow_run_tree
    from cylc.flow.workflow_db_mgr import WorkflowDatabaseManager

    class Started:
        pass
    schd = Started()
    mgr = WorkflowDatabaseManager(workflow_files.get_workflow_srv_dir(WF), get_workflow_run_dir(WF, "log"))
    schd.is_restart = Path(mgr.pri_path).is_file()
    # Scheduler.install
    workflow_files.register(WF, source=get_workflow_run_dir(WF))
    make_workflow_run_tree(WF)
    key_housekeeping(WF, platform="localhost")
    # Scheduler.configure
    mgr.on_workflow_start(schd.is_restart)
    try:
        return hold(schd)
    finally:
        # Scheduler.shutdown
        mgr.on_workflow_shutdown()
        key_housekeeping(WF, create=False)


def _startup(level, hold):
    if level == "scheduler":
        return asyncio.run(_boot(hold))
    return _components(hold)


def _child(task):
    """Runs in its own forked process (maxtasksperchild=1)."""
    scratch, umask, variant, init_fs, level = task
    try:
        root = os.path.realpath(os.path.join(scratch, f"u{umask:03o}_{variant}_{level}"))
        assert root.startswith(os.path.realpath(scratch) + os.sep)
        os.umask(0o022)
        home = os.path.join(root, "home")
        rund = os.path.join(home, "cylc-run", WF)
        os.makedirs(rund)
        os.makedirs(os.path.join(root, "conf"))
        os.environ["HOME"] = home
        os.environ["CYLC_CONF_PATH"] = os.path.join(root, "conf")
        os.environ.pop("CYLC_SITE_CONF_PATH", None)
        os.chdir(root)
        from cylc.flow.pathutil import get_workflow_run_dir
        from cylc.flow.cfgspec.glbl_cfg import glbl_cfg
        glbl_cfg(reload=True)
        if os.path.realpath(get_workflow_run_dir(WF)) != rund:
            raise common.MachineryError(f"run dir {get_workflow_run_dir(WF)} is not inside the scratch area")
        with open(os.path.join(rund, "flow.cylc"), "w") as f:
            f.write(FLOW)
        if variant != "fresh":
            # an earlier run (under the usual umask 022) that was shut down cleanly ...
            _startup(level, lambda schd: None)
            if variant == "restart_loose":
                # ... or that crashed (keys left behind) and whose files were then made world-accessible
                for name in ("cpk_dir", "server_pub", "server_priv", "client_priv", "client_pub_copy"):
                    p = os.path.join(rund, TRACKED[name])
                    if name == "cpk_dir":
                        os.makedirs(p, exist_ok=True)
                    else:
                        with open(p, "w") as f:
                            f.write("leftover\n")
            # the modes the spec's initial state prescribes (independent of what the earlier run left)
            for name, mode in init_fs.items():
                if mode != ABSENT:
                    os.chmod(os.path.join(rund, TRACKED[name]), mode)
        pre = _snap(rund)
        # the start-up under test
        events = []
        real_umask, real_chmod = os.umask, os.chmod
        pri_db = os.path.join(rund, TRACKED["pri_db"])

        def umask_hook(m):
            events.append(["umask", m, _snap(rund)])
            return real_umask(m)

        def chmod_hook(path, mode, *a, **k):
            if os.path.abspath(os.fspath(path)) == pri_db:
                events.append(["chmod_pri_db", mode, _snap(rund)])
            return real_chmod(path, mode, *a, **k)

        real_umask(umask)
        os.umask, os.chmod = umask_hook, chmod_hook
        try:
            info = _startup(level, lambda schd: {"final": _snap(rund), "is_restart": bool(schd.is_restart)})
        finally:
            os.umask, os.chmod = real_umask, real_chmod
        shutil.rmtree(root, ignore_errors=True)
        return {"umask": umask, "variant": variant, "level": level, "pre": pre, "events": events, **info}
    except BaseException:
        return {"umask": umask, "variant": variant, "level": level, "error": traceback.format_exc()}


def _fork_run(scratch, tasks, procs, timeout):
    """Run _child(task) in one forked process per task (the scheduler leaves threads behind: the child leaves
    with os._exit).  A child that does not finish within `timeout` seconds is killed and reported as an error."""
    import time
    pending = list(enumerate(tasks))
    running, results = {}, []
    while pending or running:
        while pending and len(running) < procs:
            i, task = pending.pop(0)
            path = os.path.join(scratch, f"result_{i}.json")
            pid = os.fork()
            if pid == 0:
                code = 1
                try:
                    r = _child(task)
                    with open(path + ".tmp", "w") as f:
                        json.dump(r, f)
                    os.rename(path + ".tmp", path)
                    code = 0
                finally:
                    os._exit(code)
            running[pid] = (task, path, time.monotonic())
        for pid in list(running):
            task, path, t0 = running[pid]
            done, _status = os.waitpid(pid, os.WNOHANG)
            if done == 0 and time.monotonic() - t0 > timeout:
                os.kill(pid, 9)
                os.waitpid(pid, 0)
                done = pid
            if done:
                del running[pid]
                if os.path.exists(path):
                    with open(path) as f:
                        results.append(json.load(f))
                else:
                    results.append({"umask": task[1], "variant": task[2], "level": task[4],
                                    "error": f"start-up did not complete within {timeout}s or the child died"})
        time.sleep(0.05)
    return results


def _judge(r, chain, ctx_viol):
    """Compare one real trace with the spec behaviour (dict pc -> state); report C44 violations.
    Returns (number of checkpoints compared, divergences that do not contradict C44)."""
    u, v = r["umask"], r["variant"]
    where = f"umask {u:04o}, {v} start ({r['level']} level)"
    div = []
    if r["pre"] != chain["mk_srv_dir"]["fs"]:
        raise common.MachineryError(f"{where}: harness could not set up the initial files: {r['pre']} vs "
                                    f"{chain['mk_srv_dir']['fs']}")
    if r["is_restart"] != (v != "fresh"):
        raise common.MachineryError(f"{where}: scheduler is_restart={r['is_restart']}")
    umask_events = [e for e in r["events"] if e[0] == "umask"]
    chmod_events = [e for e in r["events"] if e[0] == "chmod_pri_db"]
    observed = {"done": r["final"]}
    if umask_events:
        observed["set_umask"] = umask_events[0][2]
    if len(umask_events) > 1:
        observed["restore_umask"] = umask_events[1][2]
    if chmod_events:
        observed["db_chmod"] = chmod_events[0][2]
    # the property itself, on the real final modes
    bad = False
    for f in PRIVATE:
        m = r["final"][f]
        if m == ABSENT or m & 0o077:
            bad = True
            ctx_viol(f"C44_PrivateAfterStartup:{f}:{v}",
                     f"{where}: after start-up {TRACKED[f]} " +
                     ("does not exist" if m == ABSENT else f"has mode {m:04o} (group/other bits set)"),
                     {"umask": u, "variant": v, "level": r["level"]})
    for cp in CHECKPOINTS:
        exp = chain[cp]["fs"]
        got = observed.get(cp)
        if got is None:
            div.append(f"{cp}: the code never reached this point (events {[(e[0], oct(e[1])) for e in r['events']]})")
        elif got != exp:
            diff = {f: (oct(got[f]) if got[f] != ABSENT else "absent", oct(exp[f]) if exp[f] != ABSENT else "absent")
                    for f in exp if got[f] != exp[f]}
            div.append(f"{cp}: (real, spec) modes differ: {diff}")
    if umask_events and umask_events[0][1] != chain["write_server_pub"]["cur"]:
        div.append(f"umask set to {umask_events[0][1]:04o}, spec {chain['write_server_pub']['cur']:04o}")
    if len(umask_events) > 1 and umask_events[1][1] != u:
        div.append(f"umask restored to {umask_events[1][1]:04o}")
    return len(observed), ([f"{where}: {div}"] if div and not bad else [])


def _chains(states):
    chains = {}
    for st in states:
        key = (int(st["umask0"]), str(st["variant"]))
        chains.setdefault(key, {})[str(st["pc"])] = {"fs": {str(k): int(x) for k, x in st["fs"].items()},
                                                     "cur": int(st["cur"])}
    return chains


def _run_cases(ctx, chains, cases):
    import multiprocessing as mp
    import cylc.flow.scheduler, cylc.flow.scheduler_cli, cylc.flow.network.authentication  # noqa: import before forking
    tasks = [(ctx.scratch, u, v, chains[(u, v)]["mk_srv_dir"]["fs"], lvl) for (u, v, lvl) in cases]
    comp = [t for t in tasks if t[4] != "scheduler"]
    full = [t for t in tasks if t[4] == "scheduler"]
    results = []
    fork = mp.get_context("fork")
    if comp:
        # component level: no threads or global state are left behind, a worker process handles several umasks in turn
        with fork.Pool(min(16, len(comp))) as pool:
            results += pool.map_async(_child, comp, max(1, len(comp) // 32)).get(timeout=1500)
    if full:
        # full scheduler: one fresh process per start-up, killed if it does not come back
        results += _fork_run(ctx.scratch, full, procs=8, timeout=240)
    n_cp, divs, errors = 0, [], []
    for r in sorted(results, key=lambda r: (r["level"], r["variant"], r["umask"])):
        if "error" in r:
            errors.append(f"umask {r['umask']:04o} {r['variant']} ({r['level']}): start-up failed in the harness:\n{r['error']}")
            continue
        n, d = _judge(r, chains[(r["umask"], r["variant"])], ctx.violation)
        n_cp += n
        divs += d
    if errors:
        raise common.MachineryError(errors[0] + (f"\n(+{len(errors) - 1} more)" if len(errors) > 1 else ""))
    if divs and not ctx.violations:
        # a divergence in a run that also contradicts C44 somewhere is attributed to that defect
        raise common.MachineryError("spec/code divergence that does not contradict C44, repair Perms.tla: " + divs[0]
                                    + (f" (+{len(divs) - 1} more)" if len(divs) > 1 else ""))
    return [r for r in results if "error" not in r], n_cp


def run(ctx):
    res, states = tlc.dump_states(MC, CFG, workers=4, timeout=600)
    if not res.ok:
        raise tlc.TLCError(f"Perms model: {res.kind} {res.violated}\n{res.out[-3000:]}")
    chains = _chains(states)
    can = sorted(k for k, ch in chains.items() if "done" in ch)
    blocked = len(chains) - len(can)
    if len({u for u, _ in can}) != 64:
        raise common.MachineryError("expected 64 umasks under which start-up can proceed")
    # component level (the functions of the start-up sequence called in scheduler order): every behaviour;
    # full Scheduler.install()+start(): quick = 6 umasks fresh + 2 restarts, thorough = every behaviour
    cases = [(u, v, "components") for (u, v) in can]
    if ctx.quick:
        full = [(u, "fresh") for u in (0o000, 0o002, 0o022, 0o027, 0o066, 0o077)] + \
               [(0o000, "restart"), (0o000, "restart_loose")]
    else:
        full = can
    cases += [(u, v, "scheduler") for (u, v) in full]
    results, n_cp = _run_cases(ctx, chains, cases)
    loose_possible = sum(1 for (u, v, _l) in cases if (0o666 & ~u) & 0o077)
    cov = ctx.coverage
    cov.update({
        "states": res.distinct, "transitions": res.generated,
        "tlc_models": [{"module": "MC_Perms", "umasks": 512, "variants": 3, "distinct": res.distinct,
                        "generated": res.generated, "wall_s": round(res.wall_s, 2), "blocked_behaviours": blocked}],
        "traces_validated_against_impl": len(results), "evaluations": n_cp,
        "full_scheduler_startups": len(full), "component_level_startups": len(can),
        "distinct_nontrivial": loose_possible,
        "rule": "TLC: all 512 umasks x {fresh, restart, restart_loose}; replay in a forked child under the umask, for every "
                "umask that does not mask the owner's bits (64) x 3 variants: the start-up components in scheduler order "
                "(register, make_workflow_run_tree, key_housekeeping, WorkflowDatabaseManager.on_workflow_start), plus the "
                f"full Scheduler.install()+start() for {'6 umasks fresh + 2 restarts' if ctx.quick else 'all of them'}; trace checkpoints "
                "set_umask / restore_umask / db_chmod / done compared with the spec states; non-trivial = umasks under "
                "which a default file creation would leave group/other bits",
        "exhaustive": True,
        "samples": [{"umask": f"{r['umask']:04o}", "variant": r["variant"],
                     "final": {k: (f"{m:04o}" if m != ABSENT else None) for k, m in r["final"].items()}}
                    for r in results if r["umask"] in (0, 0o022) and r["level"] == "scheduler"][:4],
        "checker_cmd": "tlc MC_Perms -dump; real scheduler start-up per (umask, variant) in forked children, os.umask/os.chmod hooked",
    })
    ctx.assumptions += [
        "start-up is replayed only for umasks that leave the owner's rwx bits alone (otherwise the scheduler cannot "
        "create or use its own directories; the harness runs as root, which would hide that)",
        "the scheduler is started in-process (Scheduler.install/start, simulation mode, paused) rather than via "
        "`cylc play`; daemonisation does not change the umask; the quick tier runs the full scheduler for a few umasks "
        "and the start-up components (same functions, same order) for all",
        "between the creation of .service/db by sqlite and the chmod to 0600 the (still empty) private DB has mode "
        "0644 & ~umask: the statement only constrains the state once start-up completes",
    ]


def replay(ctx, data):
    rep = data["replay"]
    res, states = tlc.dump_states(MC, CFG, workers=2, timeout=600)
    chains = _chains(states)
    results, _ = _run_cases(ctx, chains, [(int(rep["umask"]), rep["variant"], rep.get("level", "scheduler"))])
    ctx.coverage.update({"states": 14, "transitions": 13, "traces_validated_against_impl": len(results),
                         "samples": [rep]})
