"""C18: cycle point / interval algebra.

Oracle = spec/oracle/PointAlg.tla: points are abstracted to their value (the integer; whole hours after a base
instant), intervals to their length; TLC enumerates all pairs of values with the required comparison / equality /
difference and the required value of a + i, a - i, (a + i) - i for every interval of the box.  This engine realises
every abstract value as IntegerPoint / ISO8601Point objects in several spellings, calendars, time zones and
expanded-year formats and checks the real objects against the values TLC computed.

The datetime realisation (abstract hour h -> calendar fields) is done here with a small independent calendar table
(days per month of the four calendar modes), NOT with isodatetime, so the canonical strings expected from
standardise / add / sub are independent of the library under cylc.
"""
from __future__ import annotations
from harness import oracle, common
from harness.tlaparse import to_py

# ---------------------------------------------------------------- datetime realisation (independent of isodatetime)
MONTH_DAYS = [31, 28, 31, 30, 31, 30, 31, 31, 30, 31, 30, 31]


def dim(y, m, mode):
    if mode == "360day":
        return 30
    if m == 2:
        if mode == "365day":
            return 28
        if mode == "366day":
            return 29
        return 29 if (y % 4 == 0 and (y % 100 != 0 or y % 400 == 0)) else 28
    return MONTH_DAYS[m - 1]


def fields(base, minutes, mode):
    """(y, m, d, H, M) of base + minutes, stepping whole days through the calendar table."""
    y, m, d, H, M = base
    total = H * 60 + M + minutes
    days, rem = divmod(total, 1440)
    H, M = divmod(rem, 60)
    while days > 0:
        d += 1
        if d > dim(y, m, mode):
            d, m = 1, m + 1
            if m > 12:
                m, y = 1, y + 1
        days -= 1
    while days < 0:
        d -= 1
        if d < 1:
            m -= 1
            if m < 1:
                m, y = 12, y - 1
            d = dim(y, m, mode)
        days += 1
    return y, m, d, H, M


def tz_minutes(tz):
    if tz == "Z":
        return 0
    sign = -1 if tz[0] == "-" else 1
    return sign * (int(tz[1:3]) * 60 + int(tz[3:5] or 0))


def tz_ext(tz):
    return tz if tz == "Z" else tz[:3] + ":" + tz[3:5]


class DtConfig:
    """One workflow configuration: calendar, cycle point time zone, expanded year digits, base instants (UTC)."""

    def __init__(self, mode, tz, xdigits, bases):
        self.mode, self.tz, self.xdigits, self.bases = mode, tz, xdigits, bases

    def name(self):
        return f"{self.mode}/{self.tz}" + (f"/+{self.xdigits}digits" if self.xdigits else "")

    def init(self):
        from cylc.flow.cycling import iso8601
        # NOTE: deliberately no cache clearing: the lru caches of iso8601.py are keyed by calendar mode / dump format /
        # time zone precisely so that several configurations can live in one process
        iso8601.init(num_expanded_year_digits=self.xdigits, time_zone=self.tz, cycling_mode=self.mode)

    def year(self, y):
        return (f"+{y:0{4 + self.xdigits}d}" if y >= 0 else f"-{-y:0{4 + self.xdigits}d}") if self.xdigits else f"{y:04d}"

    def canonical(self, base, h):
        """The standard form cylc must produce: basic format, minutes, cycle point time zone."""
        y, m, d, H, M = fields(base, h * 60 + tz_minutes(self.tz), self.mode)
        return f"{self.year(y)}{m:02d}{d:02d}T{H:02d}{M:02d}{self.tz}"

    def spellings(self, base, h):
        """Different strings denoting the same instant."""
        out = [("canonical", self.canonical(base, h))]
        y, m, d, H, M = fields(base, h * 60 + tz_minutes(self.tz), self.mode)
        out.append(("extended", f"{self.year(y)}-{m:02d}-{d:02d}T{H:02d}:{M:02d}{tz_ext(self.tz)}"))
        out.append(("assumed-zone", f"{self.year(y)}{m:02d}{d:02d}T{H:02d}{M:02d}"))
        out.append(("seconds", f"{self.year(y)}{m:02d}{d:02d}T{H:02d}{M:02d}00{self.tz}"))
        if M == 0:
            out.append(("hour-only", f"{self.year(y)}{m:02d}{d:02d}T{H:02d}{self.tz}"))
        for other in ("Z", "+0100", "-0330", "+1245"):
            if other != self.tz:
                y2, m2, d2, H2, M2 = fields(base, h * 60 + tz_minutes(other), self.mode)
                out.append((f"zone{other}", f"{self.year(y2)}{m2:02d}{d2:02d}T{H2:02d}{M2:02d}{other}"))
        return out


DT_CONFIGS = [
    # the four calendars share time zone Z and the same base strings: the arithmetic caches must keep them apart
    DtConfig("gregorian", "Z", 0, [(2000, 2, 27, 21, 0), (1999, 12, 30, 22, 30), (1900, 2, 27, 23, 0)]),
    DtConfig("360day", "Z", 0, [(2000, 2, 27, 21, 0), (1999, 12, 29, 22, 30), (2001, 4, 29, 5, 0)]),
    DtConfig("365day", "Z", 0, [(2000, 2, 27, 21, 0), (1999, 12, 30, 22, 30)]),
    DtConfig("366day", "Z", 0, [(2000, 2, 27, 21, 0), (2001, 2, 27, 23, 15)]),
    DtConfig("gregorian", "+0530", 0, [(2000, 2, 28, 13, 0), (2003, 12, 31, 11, 30)]),
    DtConfig("gregorian", "-0800", 0, [(2004, 2, 28, 20, 45), (2000, 10, 31, 23, 0)]),
    DtConfig("gregorian", "Z", 2, [(12345, 2, 27, 21, 0), (99, 12, 30, 22, 30)]),
    # negative years (expanded year digits): the window crosses a year boundary, where the text of the points
    # sorts the other way round than the instants
    DtConfig("gregorian", "Z", 2, [(-2000, 12, 31, 21, 0), (-1, 12, 31, 22, 30)]),
    DtConfig("360day", "+0100", 2, [(100000, 12, 29, 20, 0)]),
]

DT_IV = {"H": "PT%dH", "D": "P%dD", "W": "P%dW"}


def dt_interval_strings(cls, k):
    """Spellings of a datetime interval of the class (fixed length in every calendar)."""
    if k < 0:
        body = DT_IV[cls] % -k
        return ["-" + body]
    out = [DT_IV[cls] % k]
    if cls == "D":
        out.append("PT%dH" % (24 * k))
    if cls == "W":
        out.append("P%dD" % (7 * k))
    if cls == "H" and k:
        out.append("PT%dM" % (60 * k))
    return out


def check_dt(st, cfg, base_idx, rot):
    """Replay one datetime case under the current configuration.  Returns [(clause, text)]."""
    from cylc.flow.cycling.iso8601 import ISO8601Point, ISO8601Interval
    c = st["c"]
    base = cfg.bases[base_idx % len(cfg.bases)]
    a, b = c["a"], c["b"]
    out = []
    spa, spb = cfg.spellings(base, a), cfg.spellings(base, b)
    ka, sa = spa[rot % len(spa)]
    kb, sb = spb[(rot // 3 + 1) % len(spb)]
    where = f"[{cfg.name()}]"
    try:
        pa, pb = ISO8601Point(sa), ISO8601Point(sb)
        # --- total order consistent with the instant, on the raw spellings
        rel = {"<": pa < pb, "<=": pa <= pb, ">": pa > pb, ">=": pa >= pb, "==": pa == pb, "!=": pa != pb}
        want = {"<": st["cmp"] < 0, "<=": st["cmp"] <= 0, ">": st["cmp"] > 0, ">=": st["cmp"] >= 0,
                "==": st["eq"], "!=": not st["eq"]}
        for op in rel:
            if rel[op] != want[op]:
                out.append((f"order:{op}:datetime",
                            f"{where} ISO8601Point({sa!r}) {op} ISO8601Point({sb!r}) is {rel[op]}, instants "
                            f"{a}h and {b}h after the base require {want[op]}"))
        # --- standardise: canonical form, value preserved, idempotent
        ca, cb = cfg.canonical(base, a), cfg.canonical(base, b)
        s1 = ISO8601Point(sa).standardise()
        if s1.value != ca:
            out.append((f"standardise:value:datetime:{ka}",
                        f"{where} ISO8601Point({sa!r}).standardise() = {s1.value!r}, the same instant in the cycle point "
                        f"time zone is {ca!r}"))
        s2 = ISO8601Point(s1.value).standardise()
        if s2.value != s1.value:
            out.append((f"standardise:idempotent:datetime:{ka}",
                        f"{where} standardise({sa!r}) = {s1.value!r} but standardising again gives {s2.value!r}"))
        if not (s1 == pa) or (s1 < pa) or (s1 > pa):
            out.append((f"standardise:compare:datetime:{ka}",
                        f"{where} ISO8601Point({sa!r}) does not compare equal to its standard form {s1.value!r}"))
        # --- equality / hash of standardised points
        t1 = ISO8601Point(sb).standardise()
        # --- the order of the standard forms (what the scheduler compares all the time) follows the instants too
        rel2 = {"<": s1 < t1, "<=": s1 <= t1, ">": s1 > t1, ">=": s1 >= t1}
        for op in rel2:
            if rel2[op] != want[op]:
                out.append((f"order:{op}:datetime-standard-form",
                            f"{where} ISO8601Point({s1.value!r}) {op} ISO8601Point({t1.value!r}) is {rel2[op]}, instants "
                            f"{a}h and {b}h after the base require {want[op]}"))
        if (s1 == t1) != st["eq"] or (hash(s1) == hash(t1)) != st["eq"] or (len({s1, t1}) == 1) != st["eq"]:
            out.append((f"eq-hash:datetime",
                        f"{where} standardised {sa!r} -> {s1.value!r} and {sb!r} -> {t1.value!r}: == is {s1 == t1}, "
                        f"hashes equal is {hash(s1) == hash(t1)}, instants equal is {st['eq']}"))
        # --- difference of points
        d = pa - pb
        dd = st["diff"]
        want_iv = ISO8601Interval(("-PT%dH" % -dd) if dd < 0 else ("PT%dH" % dd))
        if not (d == want_iv) or (ISO8601Point(sb) + d) != pa:
            out.append((f"sub-point:datetime",
                        f"{where} ISO8601Point({sa!r}) - ISO8601Point({sb!r}) = {d.value!r}, instants differ by {dd}h"))
        # --- adding / subtracting fixed-length intervals
        for n, ar in enumerate(st["arith"]):
            strs = dt_interval_strings(ar["cls"], ar["k"])
            ivs = strs[(rot + n) % len(strs)]
            iv = ISO8601Interval(ivs)
            plus, minus = pa + iv, pa - iv
            back = plus - iv
            wp, wm = cfg.canonical(base, ar["plus"]), cfg.canonical(base, ar["minus"])
            wb = cfg.canonical(base, ar["back"])
            icls = ar["cls"] + ("neg" if ar["k"] < 0 else "zero" if ar["k"] == 0 else "")
            # results of arithmetic on a raw spelling keep that spelling's zone / format: compare the value, i.e. the
            # standard form; for the canonical spelling the result itself must already be canonical
            strict = ka == "canonical"

            def val(p):
                return p.value if strict else ISO8601Point(p.value).standardise().value
            if val(plus) != wp:
                out.append((f"add:datetime:{icls}", f"{where} ISO8601Point({sa!r}) + {ivs} = {plus.value!r}, expected {wp!r}"))
            if val(minus) != wm:
                out.append((f"sub:datetime:{icls}", f"{where} ISO8601Point({sa!r}) - {ivs} = {minus.value!r}, expected {wm!r}"))
            if val(back) != wb or not (back == pa) or back != s1 or hash(ISO8601Point(back.value).standardise()) != hash(s1):
                out.append((f"add-then-sub:datetime:{icls}",
                            f"{where} (ISO8601Point({sa!r}) + {ivs}) - {ivs} = {back.value!r}, expected {wb!r} "
                            f"(== original: {back == pa})"))
            if val(iv + pa) != wp:
                out.append((f"add:datetime:interval+point:{icls}",
                            f"{where} {ivs} + ISO8601Point({sa!r}) = {(iv + pa).value!r}, expected {wp!r}"))
    except Exception as e:  # a legal point / interval was rejected or an operation crashed
        out.append((f"raises:datetime:{type(e).__name__}", f"{where} operations on {sa!r}, {sb!r} raise "
                                                            f"{type(e).__name__}: {e}"))
    return out


# ---------------------------------------------------------------- integer realisation
def int_spellings(v):
    out = [("canonical", str(v))]
    if v >= 0:
        out += [("zero-padded", "0%d" % v), ("plus-sign", "+%d" % v), ("int-object", v)]
    else:
        out += [("zero-padded", "-0%d" % -v), ("int-object", v)]
    return out


def int_interval_strings(k):
    return ["-P%d" % -k] if k < 0 else ["P%d" % k, "+P%d" % k, "P0%d" % k]


def check_int(st, rot):
    from cylc.flow.cycling.integer import IntegerPoint, IntegerInterval
    c = st["c"]
    a, b = c["a"], c["b"]
    out = []
    spa, spb = int_spellings(a), int_spellings(b)
    ka, sa = spa[rot % len(spa)]
    kb, sb = spb[(rot // 3 + 1) % len(spb)]
    try:
        pa, pb = IntegerPoint(sa), IntegerPoint(sb)
        rel = {"<": pa < pb, "<=": pa <= pb, ">": pa > pb, ">=": pa >= pb, "==": pa == pb, "!=": pa != pb}
        want = {"<": st["cmp"] < 0, "<=": st["cmp"] <= 0, ">": st["cmp"] > 0, ">=": st["cmp"] >= 0,
                "==": st["eq"], "!=": not st["eq"]}
        for op in rel:
            if rel[op] != want[op]:
                out.append((f"order:{op}:integer",
                            f"IntegerPoint({sa!r}) {op} IntegerPoint({sb!r}) is {rel[op]}, values {a} and {b} require {want[op]}"))
        s1 = IntegerPoint(sa).standardise()
        if s1.value != str(a):
            out.append((f"standardise:value:integer:{ka}", f"IntegerPoint({sa!r}).standardise() = {s1.value!r}, expected {str(a)!r}"))
        s2 = IntegerPoint(s1.value).standardise()
        if s2.value != s1.value:
            out.append((f"standardise:idempotent:integer:{ka}", f"standardise twice: {s1.value!r} -> {s2.value!r}"))
        if not (s1 == pa) or (s1 < pa) or (s1 > pa):
            out.append((f"standardise:compare:integer:{ka}", f"IntegerPoint({sa!r}) does not compare equal to its standard form"))
        t1 = IntegerPoint(sb).standardise()
        if (s1 == t1) != st["eq"] or (hash(s1) == hash(t1)) != st["eq"] or (len({s1, t1}) == 1) != st["eq"]:
            out.append((f"eq-hash:integer",
                        f"standardised IntegerPoint({sa!r}) and IntegerPoint({sb!r}): == is {s1 == t1}, hashes equal is "
                        f"{hash(s1) == hash(t1)}, values equal is {st['eq']}"))
        d = pa - pb
        if int(d) != st["diff"] or not (d == IntegerInterval.from_integer(st["diff"])) or (pb + d) != pa:
            out.append((f"sub-point:integer", f"IntegerPoint({sa!r}) - IntegerPoint({sb!r}) = {d.value!r}, expected {st['diff']}"))
        for n, ar in enumerate(st["arith"]):
            strs = int_interval_strings(ar["k"])
            ivs = strs[(rot + n) % len(strs)]
            iv = IntegerInterval(ivs)
            plus, minus = pa + iv, pa - iv
            back = plus - iv
            icls = "P" + ("neg" if ar["k"] < 0 else "zero" if ar["k"] == 0 else "")
            if plus.value != str(ar["plus"]):
                out.append((f"add:integer:{icls}", f"IntegerPoint({sa!r}) + {ivs} = {plus.value!r}, expected {ar['plus']}"))
            if minus.value != str(ar["minus"]):
                out.append((f"sub:integer:{icls}", f"IntegerPoint({sa!r}) - {ivs} = {minus.value!r}, expected {ar['minus']}"))
            if back.value != str(ar["back"]) or not (back == pa) or hash(back) != hash(s1):
                out.append((f"add-then-sub:integer:{icls}", f"(IntegerPoint({sa!r}) + {ivs}) - {ivs} = {back.value!r}, expected {ar['back']}"))
            if (iv + pa).value != str(ar["plus"]):
                out.append((f"add:integer:interval+point:{icls}", f"{ivs} + IntegerPoint({sa!r}) = {(iv + pa).value!r}"))
    except Exception as e:
        out.append((f"raises:integer:{type(e).__name__}", f"operations on IntegerPoint({sa!r}), IntegerPoint({sb!r}) raise "
                                                           f"{type(e).__name__}: {e}"))
    return out


def work(args):
    """One worker: all integer cases, or all datetime cases under a rotating sequence of configurations."""
    kind, part, seed = args
    out = []
    n = 0
    if kind == "int":
        for idx, st in part:
            for rot in (idx + seed, idx * 7 + 3 + seed):
                n += 1
                for clause, text in check_int(st, rot):
                    out.append((clause, text, {"case": to_py(st), "rot": rot}))
        return out, n
    # datetime: the configurations are visited round-robin INSIDE one process, without clearing cylc's caches, so a
    # cache entry computed under one calendar / time zone must never be served under another
    for r in range(2):
        for ci, cfg in enumerate(DT_CONFIGS):
            cfg.init()
            for idx, st in part:
                if (idx + ci + r) % 2:          # every case meets every configuration in one of the two rounds
                    continue
                rot = idx * 5 + ci + seed
                n += 1
                for clause, text in check_dt(st, cfg, idx + ci, rot):
                    out.append((clause, text, {"case": to_py(st), "config": ci, "base": idx + ci, "rot": rot}))
    return out, n


def run(ctx):
    cfg = "PointAlg" if ctx.quick else "PointAlg_thorough"
    states = oracle.enumerate_cases(ctx, "PointAlg", cfg, workers=8)
    # TLC's dump order depends on worker scheduling: fix an order, the spelling / base rotation is derived from it
    states.sort(key=lambda st: (st["c"]["kind"], st["c"]["a"], st["c"]["b"]))
    ints = [(i, st) for i, st in enumerate(states) if st["c"]["kind"] == "int"]
    dts = [(i, st) for i, st in enumerate(states) if st["c"]["kind"] == "dt"]
    jobs = [("int", ints[k::2], ctx.seed) for k in range(2)] + [("dt", dts[k::6], ctx.seed) for k in range(6)]
    jobs = [j for j in jobs if j[1]]
    found = {}
    evals = 0
    for out, n in common.parallel_map(work, jobs, procs=8):
        evals += n
        for clause, text, rep in out:
            found.setdefault(clause, []).append((text, rep))
    for key in sorted(found):
        text, rep = min(found[key], key=lambda x: (len(x[0]), x[0]))
        ctx.violation(key, f"{text}   [{len(found[key])} failing replays in this class]", rep)
    nontrivial = sum(1 for _, st in ints + dts if st["c"]["a"] != st["c"]["b"])
    samples = []
    if dts:
        st = dts[len(dts) // 2][1]
        c = DT_CONFIGS[4]
        samples.append({"case": to_py(st["c"]), "config": c.name(),
                        "a_spellings": c.spellings(c.bases[0], st["c"]["a"])[:4],
                        "canonical_a": c.canonical(c.bases[0], st["c"]["a"])})
    if ints:
        samples.append({"case": to_py(ints[len(ints) // 3][1]["c"]), "spellings": int_spellings(ints[len(ints) // 3][1]["c"]["a"])})
    oracle.finish_cov(ctx, evals, nontrivial,
                      "every pair of integer values in the box x every integer interval (2 spelling rotations), and every "
                      "pair of instants 0..DtHi hours after a base x {hours, days, weeks} x multipliers, each realised under "
                      "all 9 configurations (4 calendars, 4 time zones, expanded years incl. negative years) with rotating bases (month / leap-day "
                      "/ year ends) and spellings (basic, extended, assumed zone, seconds, hour-only, 4 foreign zones); "
                      "non-trivial = the two values differ",
                      samples, exhaustive=True)
    ctx.coverage["exhaustive_note"] = ("abstract pairs x intervals exhaustive in the box; spellings / bases are a "
                                       "deterministic rotation, every configuration sees every abstract case")
    ctx.assumptions += [
        "the hash clause is checked on standardised points (cylc standardises points before using them as keys); "
        "raw spellings of equal value compare equal but are not required to hash equal",
        "datetime intervals are the fixed-length classes of the property (hours, days, weeks); months and years are out of scope",
        "abstract instants are realised with an independent day-count calendar table (harness/engines/pointalg.py), "
        "time zone shifts by fixed offsets",
    ]


def replay(ctx, data):
    r = data["replay"]
    st = r["case"]
    st["arith"] = tuple(st["arith"])
    if st["c"]["kind"] == "int":
        res = check_int(st, r["rot"])
    else:
        cfg = DT_CONFIGS[r["config"]]
        cfg.init()
        res = check_dt(st, cfg, r["base"], r["rot"])
    for clause, text in res:
        ctx.violation(clause, text, r)
    ctx.coverage.update({"states": 1, "transitions": 1, "traces_validated_against_impl": 1, "samples": [st["c"]]})
