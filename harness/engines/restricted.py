"""C24: restricted expression evaluation cannot run arbitrary code.

Oracle = spec/oracle/RestrictedAst.tla.  TLC enumerates Python expression trees (all forms at depth 2 over the
leaves c / touch / v / 1 / 's', every form wrapped around every core depth-2 tree at depth 3), renders their source
text, lists the AST node classes the text parses to and decides, per evaluator, Allowed = every node class is on the
evaluator's documented whitelist.  The harness evaluates every text with each real evaluator
(CompletionEvaluator, RankingExpressionEvaluator, and the evaluator of restricted_evaluator's own documentation)
with side-effect canaries bound to the names:
   c      an object whose every special method and attribute access is recorded,
   touch  a function that creates a file in the scratch directory,
   v      True
and checks  rejected <=> not Allowed,  nothing was evaluated before a rejection (canary log empty, file absent),
the reported node is one of the offending ones, and that no name other than the supplied variables resolves
(every builtin name, __builtins__, module globals, closure variables of the evaluator).
"""
from __future__ import annotations
import ast, builtins, os, types, warnings
from harness import oracle, common

EVALS = ["completion", "ranking", "docexample"]      # = EvalSeq of RestrictedAst.tla
MAIN_FIRST = ("Call", "Lambda", "ListComp", "GeneratorExp", "SetComp", "DictComp", "NamedExpr", "Attribute", "Subscript",
              "IfExp", "JoinedStr", "Starred", "Await", "Yield", "YieldFrom", "Dict", "Set", "List", "Tuple", "Compare",
              "UnaryOp", "BoolOp", "BinOp", "Constant")
SPECIALS = ["__call__", "__getitem__", "__or__", "__ror__", "__and__", "__rand__", "__add__", "__radd__", "__sub__",
            "__rsub__", "__mul__", "__rmul__", "__truediv__", "__rtruediv__", "__floordiv__", "__rfloordiv__", "__mod__",
            "__rmod__", "__pow__", "__rpow__", "__lshift__", "__rlshift__", "__rshift__", "__rrshift__", "__xor__",
            "__rxor__", "__matmul__", "__rmatmul__", "__neg__", "__pos__", "__invert__", "__lt__", "__le__", "__gt__",
            "__ge__", "__eq__", "__ne__"]


def make_canary(log):
    """An object that records every way an expression can touch it."""
    def rec(name, ret):
        def method(self, *a, **k):
            log.append(name)
            return ret(self)
        return method
    ns = {n: rec(n, lambda s: s) for n in SPECIALS}
    ns["__bool__"] = rec("__bool__", lambda s: True)
    ns["__iter__"] = rec("__iter__", lambda s: iter(()))
    ns["__contains__"] = rec("__contains__", lambda s: True)
    ns["__len__"] = rec("__len__", lambda s: 0)
    ns["__index__"] = rec("__index__", lambda s: 0)
    ns["__hash__"] = rec("__hash__", lambda s: 1)
    ns["__format__"] = rec("__format__", lambda s: "")
    ns["__str__"] = rec("__str__", lambda s: "")
    ns["__repr__"] = rec("__repr__", lambda s: "<canary>")
    ns["keys"] = rec("keys", lambda s: [])

    def __getattribute__(self, name):
        log.append(f"getattr:{name}")
        if name in ns:
            return object.__getattribute__(self, name)
        return self
    ns["__getattribute__"] = __getattribute__
    return type("Canary", (), ns)()


class Probe:
    """The canary variables handed to an evaluator, and the evidence they collect."""
    def __init__(self, scratch):
        self.log = []
        self.path = os.path.join(scratch, f"canary-file-{os.getpid()}")
        log, path = self.log, self.path

        def touch(*a, **k):
            log.append("touch()")
            open(path, "w").close()
            return True
        self.vars = {"c": make_canary(self.log), "touch": touch, "v": True}

    def reset(self):
        del self.log[:]
        if os.path.exists(self.path):
            os.unlink(self.path)

    def fired(self):
        return list(self.log) + (["file-created"] if os.path.exists(self.path) else [])


def evaluators():
    from cylc.flow.task_outputs import CompletionEvaluator
    from cylc.flow.host_select import RankingExpressionEvaluator
    from cylc.flow.exceptions import InvalidCompletionExpression
    from cylc.flow.util import restricted_evaluator
    doc = restricted_evaluator(ast.Expression, ast.BinOp, ast.Add, ast.Constant, ast.Name, ast.Load)
    return {"completion": (CompletionEvaluator, InvalidCompletionExpression),
            "ranking": (RankingExpressionEvaluator, ValueError),
            "docexample": (doc, ValueError)}


def run_one(ev, errcls, src, variables):
    """-> (outcome, detail): 'rejected' (detail = reported node class) | 'value' | 'error' (evaluation raised)."""
    try:
        val = ev(src, **variables)
    except errcls as exc:
        msg = str(exc)
        if type(exc) is errcls and msg.startswith("Invalid expression:") and msg.rstrip().endswith('not permitted'):
            return "rejected", msg.rsplit('"', 2)[-2]
        return "error", f"{type(exc).__name__}: {msg}"
    except BaseException as exc:       # noqa  (evaluation of an allowed expression may raise anything)
        return "error", f"{type(exc).__name__}: {exc}"
    return "value", type(val).__name__


def main_kind(offending):
    for k in MAIN_FIRST:
        if k in offending:
            return k
    return sorted(offending)[0]


def check_case(case, evs, probe):
    """case = (src, depth, kinds, per-evaluator [(allowed, offending)]).  Returns (violations, stats)."""
    src, depth, kinds, per = case
    viol = []
    st = {"runs": 0, "allowed_fired": 0, "rejected": 0}
    try:
        real = {type(n).__name__ for n in ast.walk(ast.parse(src, mode="eval"))}
    except SyntaxError as exc:
        raise common.MachineryError(f"oracle text {src!r} is not a Python expression: {exc}")
    if real != set(kinds):
        raise common.MachineryError(f"oracle grammar out of step with Python for {src!r}: {sorted(real ^ set(kinds))}")
    rp = {"src": src, "kinds": sorted(kinds), "per": [[a, sorted(o)] for a, o in per], "depth": depth}
    for name, (allowed, offending) in zip(EVALS, per):
        ev, errcls = evs[name]
        probe.reset()
        outcome, detail = run_one(ev, errcls, src, probe.vars)
        fired = probe.fired()
        st["runs"] += 1
        if outcome == "rejected":
            st["rejected"] += 1
            if allowed:
                viol.append((f"{name}:rejected-allowed:{detail}",
                             f"{name} evaluator rejects {src!r} ({detail} not permitted) although every node class "
                             f"{sorted(kinds)} is whitelisted", rp))
            elif detail not in offending:
                viol.append((f"{name}:wrong-node-reported:{detail}",
                             f"{name} evaluator rejects {src!r} naming {detail}; the non-whitelisted classes are "
                             f"{sorted(offending)}", rp))
            if fired:
                viol.append((f"{name}:evaluated-before-rejection:{main_kind(offending) if offending else detail}",
                             f"{name} evaluator rejected {src!r} but part of it had already run: {fired[:5]}", rp))
            # the verdict does not depend on history: the same text submitted again to the same evaluator object is
            # rejected again, still without running anything (a cache must not remember the parse and skip the check)
            probe.reset()
            outcome2, detail2 = run_one(ev, errcls, src, probe.vars)
            st["runs"] += 1
            if outcome2 != "rejected" or probe.fired():
                viol.append((f"{name}:accepted-on-resubmission:{main_kind(offending) if offending else detail}",
                             f"{name} evaluator rejected {src!r} the first time but on a second submission of the same "
                             f"text: {outcome2} ({detail2}; canaries {probe.fired()[:4]})", rp))
        else:
            if not allowed:
                viol.append((f"{name}:accepted-disallowed:{main_kind(offending)}",
                             f"{name} evaluator ran {src!r} ({outcome}: {detail}; canaries {fired[:4]}) although it contains "
                             f"non-whitelisted {sorted(offending)}", rp))
            elif fired:
                st["allowed_fired"] += 1
    return viol, st


def unrestricted_fires(src, probe):
    """Would plain eval() of this text touch a canary?  (non-vacuity of 'nothing ran before rejection')"""
    probe.reset()
    try:
        eval(compile(src, "<case>", "eval"), {"__builtins__": {}}, dict(probe.vars))   # nosec - oracle text, canaries only
    except BaseException:    # noqa
        pass
    f = bool(probe.fired())
    probe.reset()
    return f


def name_probes():
    skip = {"True", "False", "None", "__debug__"}      # keywords / compile-time constants, never looked up
    names = [n for n in sorted(dir(builtins)) if n.isidentifier() and n not in skip]
    extra = ["__builtins__", "__name__", "__doc__", "__package__", "__loader__", "__spec__", "__file__", "__cached__",
             "os", "sys", "ast", "re", "LOG", "restricted_evaluator", "RestrictedNodeVisitor", "visitor", "whitelist",
             "error_class", "expr", "expr_node", "variables", "self", "_eval", "cylc"]
    return names, extra


def check_names(ctx, evs):
    """No name other than the supplied variables may resolve."""
    names, extra = name_probes()
    n = 0
    reach = {}
    for ev_name, (ev, errcls) in evs.items():
        for nm in names + extra:
            n += 1
            try:
                val = ev(nm, v=True)
            except NameError:
                continue
            except Exception as exc:       # noqa
                ctx.violation(f"name-lookup-error:{ev_name}:{type(exc).__name__}",
                              f"{ev_name} evaluator: looking up the undefined name {nm!r} raised {type(exc).__name__}: {exc}",
                              {"names": [nm], "evaluator": ev_name})
                continue
            if nm in names:
                reach.setdefault(ev_name, []).append(nm)
            else:
                ctx.violation(f"name-resolves:{nm}",
                              f"{ev_name} evaluator: the name {nm!r} is not among the supplied variables but evaluates "
                              f"to {val!r} ({type(val).__name__})", {"names": [nm], "evaluator": ev_name})
        # and a supplied variable does resolve (the probe is live)
        if ev("v", v=True) is not True:
            raise common.MachineryError(f"{ev_name}: supplied variable not visible")
    for ev_name, got in reach.items():
        ctx.violation("builtins-reachable-by-name",
                      f"{ev_name} evaluator: {len(got)} builtin names resolve although no variable of that name was "
                      f"supplied, e.g. {got[:8]}", {"names": got[:8], "evaluator": ev_name})
    return n


DANGEROUS = {"eval", "exec", "compile", "open", "__import__", "getattr", "setattr", "delattr", "globals", "locals", "vars",
             "input", "breakpoint", "exit", "quit", "help", "memoryview"}


def check_reachability(ctx, evs, max_depth):
    """Attribute / subscript chains (whitelisted for the ranking evaluator) from the values it is given must not
    lead to a module, to the builtins namespace or to a code-executing builtin function."""
    ev, _ = evs["ranking"]
    roots = [1.5, 7, "s", [1.5, 2], {"a": 1}, (1, 2), None, True]
    bdict = vars(builtins)
    seen, explored, hits = set(), 0, []
    for root in roots:
        frontier = [("RESULT", root)]
        for depth in range(max_depth):
            nxt = []
            for path, obj in frontier:
                steps = []
                for a in dir(obj):
                    try:
                        steps.append((f"{path}.{a}", getattr(obj, a)))
                    except Exception:    # noqa
                        pass
                if isinstance(obj, (dict, types.MappingProxyType)):
                    for k in list(obj)[:60]:
                        if isinstance(k, str) and "'" not in k:
                            steps.append((f"{path}['{k}']", obj[k]))
                elif isinstance(obj, (list, tuple)):
                    for i in range(min(len(obj), 8)):
                        steps.append((f"{path}[{i}]", obj[i]))
                for p, o in steps:
                    if id(o) in seen:
                        continue
                    seen.add(id(o))
                    explored += 1
                    bad = (isinstance(o, types.ModuleType) or o is bdict
                           or (isinstance(o, (types.BuiltinFunctionType, type)) and getattr(o, "__name__", "") in DANGEROUS
                               and getattr(o, "__module__", "") == "builtins")
                           or hasattr(o, "__globals__"))
                    if bad:
                        hits.append((p, root, o))
                    elif not isinstance(o, (str, bytes, int, float)) or depth == 0:
                        nxt.append((p, o))
            frontier = nxt
    for p, root, o in hits:
        try:
            got = ev(p, RESULT=root)
        except Exception:    # noqa
            continue
        if got is o:
            ctx.violation(f"ranking:code-reachable:{p.split('.')[-1]}",
                          f"ranking evaluator: {p} with RESULT={root!r} evaluates to {o!r}", {"path": p, "root": repr(root)})
    return explored


PAYLOADS = ["__import__('os').system('touch {f}')", "(lambda: open('{f}', 'w'))()", "[open('{f}', 'w') for q in (1,)]",
            "succeeded.__class__.__base__.__subclasses__()", "(w := succeeded)", "f'{{succeeded}}'",
            "succeeded if open('{f}', 'w') else failed", "succeeded[open('{f}', 'w')]", "-succeeded", "succeeded == failed"]


def check_config_path(ctx):
    """The same guarantee through the workflow configuration: a completion setting with non-whitelisted syntax is a
    validation error and nothing of it runs."""
    from harness.engines import completion as C11
    n = 0
    for i, pl in enumerate(PAYLOADS):
        f = os.path.join(ctx.scratch, f"payload-{i}")
        src = pl.format(f=f)
        try:
            loaded, errs = C11.load_defs(ctx.scratch, [("t", "uuuuuuu", f'"""{src}"""')])
        except Exception as exc:       # noqa - not a validation error: the expression got past the whitelist
            loaded, errs = {}, []
            ctx.violation(f"config:not-a-validation-error:{type(exc).__name__}",
                          f"loading a workflow with completion = {src} raised {type(exc).__name__}: {exc} instead of a "
                          f"validation error", {"payload": src})
        n += 1
        if os.path.exists(f):
            ctx.violation("config:payload-ran", f"loading a workflow with completion = {src} created {f}", {"payload": src})
        if loaded:
            ctx.violation("config:accepted-disallowed", f"a workflow with completion = {src} validates", {"payload": src})
    return n


def run(ctx):
    warnings.filterwarnings("ignore", category=SyntaxWarning)     # "'int' object is not callable" etc. on generated text
    states = oracle.enumerate_cases(ctx, "RestrictedAst", "RestrictedAst" if ctx.quick else "RestrictedAst_thorough",
                                    workers=2)
    evs = evaluators()
    probe = Probe(ctx.scratch)
    cases = sorted((c for s in states for c in s["batch"]), key=lambda c: (c[1], c[0]))
    agg = {"runs": 0, "allowed_fired": 0, "rejected": 0}
    sensitive = 0
    for c in cases:
        viol, st = check_case(c, evs, probe)
        for key, text, rp in viol:
            ctx.violation(key, text, rp)
        for k in agg:
            agg[k] += st[k]
        if any(not a for a, _ in c[3]) and unrestricted_fires(c[0], probe):
            sensitive += 1
    n_names = check_names(ctx, evs)
    explored = check_reachability(ctx, evs, 3 if ctx.quick else 4)
    n_cfg = check_config_path(ctx)
    allowed = {n: sum(1 for c in cases if c[3][i][0]) for i, n in enumerate(EVALS)}
    ctx.coverage["c24"] = {"expressions": len(cases), "evaluator_runs": agg["runs"], "rejected_runs": agg["rejected"],
                           "allowed_expressions_per_evaluator": allowed,
                           "allowed_runs_where_a_canary_fired": agg["allowed_fired"],
                           "disallowed_expressions_whose_plain_eval_fires_a_canary": sensitive,
                           "name_lookups": n_names, "objects_explored_for_reachability": explored,
                           "config_payloads": n_cfg}
    step = max(1, len(cases) // 5)
    samples = [{"src": c[0], "allowed": {n: c[3][i][0] for i, n in enumerate(EVALS)}} for c in cases[::step][:5]]
    oracle.finish_cov(ctx, len(cases), sensitive,
                      "every expression form (all unary/binary/comparison/boolean operators, attribute, subscript, slice, "
                      "calls with positional/keyword/*/** arguments, lambda, the four comprehensions, walrus, conditional, "
                      "f-string, starred, await/yield, list/tuple/set/dict displays) over the leaves c, touch, v, 1, 's' at "
                      "depth 2, and every (core; thorough: every) form wrapped around every core depth-2 tree at depth 3, x 3 "
                      "evaluators; non-trivial = disallowed expressions whose unrestricted eval() demonstrably fires a canary",
                      samples, exhaustive=True)
    ctx.coverage["evaluations"] = ctx.coverage.get("evaluations", 0) - len(cases) + agg["runs"] + n_names
    ctx.assumptions += [
        "whitelists are taken from the evaluator definitions (task_outputs.CompletionEvaluator, "
        "host_select.RankingExpressionEvaluator, the docstring example of util.restricted_evaluator); an abstract class "
        "(operator, unaryop, cmpop) whitelists all its members",
        "rejection = the evaluator's error class with the 'Invalid expression ... not permitted' message; any other "
        "exception counts as evaluation",
        "reachability through whitelisted Attribute/Subscript is searched to a bounded depth from JSON-like RESULT values "
        "only; Python-level denial of service (huge literals, deep nesting) is out of scope",
        "True/False/None/__debug__ are compile-time constants, not name lookups",
    ]


def replay(ctx, data):
    warnings.filterwarnings("ignore", category=SyntaxWarning)
    rp = data["replay"]
    evs = evaluators()
    if "src" in rp:
        probe = Probe(ctx.scratch)
        case = (rp["src"], rp["depth"], frozenset(rp["kinds"]), [(a, frozenset(o)) for a, o in rp["per"]])
        viol, st = check_case(case, evs, probe)
        for key, text, r in viol:
            ctx.violation(key, text, r)
        n = st["runs"]
    elif "names" in rp:
        n = check_names(ctx, evs)
    elif "payload" in rp:
        n = check_config_path(ctx)
    else:
        n = check_reachability(ctx, evs, 4)
    ctx.coverage.update({"states": 1, "transitions": 1, "traces_validated_against_impl": 1, "evaluations": n,
                         "samples": [rp]})
