"""C14: graph parsing is faithful and insensitive to presentation; malformed lines are rejected.

Oracle = spec/oracle/GraphSyntax.tla.  TLC enumerates (a) legal graph ASTs with their denotation (per right-hand task
the boolean trigger function as a truth set, per output the declared optionality), (b) the presentations
(chains|pairs x white space x comments x continuation x duplicated line x line order) and (c) malformed lines at
every position of a multi-line graph.  The harness renders <<ast, presentation>> to text, parses it with the real
GraphParser (and a sample through WorkflowConfig) and compares with the denotation.
"""
from __future__ import annotations
import functools, os, random, re
from harness import oracle, common

PROCS = 4
PRES_DIMS = ("form", "ws", "comment", "cont", "dup", "perm")
CANON = {"form": "chains", "ws": "normal", "comment": False, "cont": "none", "dup": False, "perm": "id"}
NODE_FORMAT_KINDS = {"qualifier-order", "offset-after-qualifier", "double-offset", "double-colon"}


# ----------------------------------------------------------------------------------------------- rendering
def _tokens(group):
    """'a:x & (b | c)' -> ['a:x', '&', '(', 'b', '|', 'c', ')']"""
    return [t for t in re.split(r'(\s+|[()&|])', group) if t and not t.isspace()]


def render(chains, pres):
    """Render an AST (tuple of chains of canonical group texts) in the given presentation."""
    # 1. logical lines as token lists
    lines = []
    for ch in chains:
        if pres["form"] == "chains" or len(ch) == 1:
            toks = []
            for k, g in enumerate(ch):
                if k:
                    toks.append("=>")
                toks += _tokens(g)
            lines.append(toks)
        else:
            for k in range(len(ch) - 1):
                lines.append(_tokens(ch[k]) + ["=>"] + _tokens(ch[k + 1]))
    if pres["dup"]:
        lines.append(list(lines[0]))
    if pres["perm"] == "reverse":
        lines.reverse()
    elif pres["perm"] == "rotate":
        lines = lines[1:] + lines[:1]
    # 2. physical lines
    sep = {"normal": " ", "tight": "", "wide": " \t  "}[pres["ws"]]
    indent = {"normal": "    ", "tight": "", "wide": "\t   "}[pres["ws"]]
    trail = "  " if pres["ws"] == "wide" else ""
    op = {"arrow": "=>", "and": "&", "or": "|"}.get(pres["cont"].split("-")[0])
    out = []
    for n, toks in enumerate(lines):
        pieces = [toks]
        if op and op in toks:
            i = toks.index(op)
            pieces = [toks[:i + 1], toks[i + 1:]] if pres["cont"].endswith("trail") else [toks[:i], toks[i:]]
        if pres["comment"] and n:
            out += ["", indent + "# next: p => q & r"]
        for j, piece in enumerate(pieces):
            if j and pres["comment"]:
                out.append("   # (continued) => ")
            text = indent + sep.join(piece) + trail
            if pres["comment"]:
                text += "  # e.g. x => y | z"
            out.append(text)
    return "\n".join(out) + "\n"


def effective_features(chains, pres):
    """Presentation dimensions that actually change the text of this AST (non-vacuity)."""
    base = render(chains, CANON)
    return [d for d in PRES_DIMS if pres[d] != CANON[d] and render(chains, {**CANON, d: pres[d]}) != base]


# ----------------------------------------------------------------------------------------------- comparison
@functools.lru_cache(maxsize=200000)
def _table(expr, atoms):
    try:
        found, table = oracle.bool_table(expr, list(atoms))
    except Exception as e:     # noqa: BLE001 - not even a boolean expression
        return None, f"{type(e).__name__}: {e}"
    return frozenset(found), frozenset(table)


def ast_class(chains):
    text = " ; ".join(" => ".join(ch) for ch in chains)
    for ch in chains:
        for g in ch:
            names = set(re.findall(r'[A-Za-z][\w-]*', re.sub(r':[\w-]+|\[[^\]]*\]', '', g)))
            if '|' in g and any(b.startswith(a + "-") for a in names for b in names):
                return "hyphenated-name-extends-task-name", text
            nodes = re.findall(r'[\w-]+\[[^\]]*\]:(?:fail|succeed|start|submit)\b\??', g)
            if ('|' in g or '(' in g) and len(nodes) != len(set(nodes)):
                return "repeated-offset-node-with-alias-qualifier", text
    return "general", text


def compare_parser(chains, trig, opt, text):
    """Parse text with GraphParser and compare with the denotation. -> list of (aspect, message)."""
    from cylc.flow.graph_parser import GraphParser
    from cylc.flow.exceptions import GraphParseError
    gp = GraphParser()
    try:
        gp.parse_graph(text)
    except GraphParseError as e:
        return [("rejected", f"legal graph rejected: {str(e)[:150]}")]
    out = []
    expected_targets = set()
    for (task, suicide, atoms, truth) in sorted(trig, key=lambda t: (t[0], t[1])):
        expected_targets.add((task, suicide))
        exprs = sorted(e for e, (_, sui) in gp.triggers.get(task, {}).items() if e and sui == suicide)
        if not exprs:
            out.append(("no-trigger", f"task {task} (suicide={suicide}) got no trigger"))
            continue
        expr = "&".join(f"({e})" for e in exprs)
        found, table = _table(expr, tuple(sorted(atoms)))
        if found is None:
            out.append(("truth", f"trigger of {task} is not a boolean expression over task outputs: {expr!r} ({table})"))
        elif found != frozenset(atoms):
            out.append(("truth", f"trigger of {task} is {expr!r}: depends on {sorted(found)}, written {sorted(atoms)}"))
        elif table != truth:
            out.append(("truth", f"trigger of {task} is {expr!r}: truth table differs from the expression written"))
    for task, d in gp.triggers.items():
        for e, (_, sui) in d.items():
            if e and (task, sui) not in expected_targets:
                out.append(("extra-trigger", f"task {task} got a trigger {e!r} that is not in the graph"))
    decl = {(t, o): optional for (t, o, optional) in opt}
    for (t, o), optional in sorted(decl.items()):
        got = gp.task_output_opt.get((t, o))
        if got is None:
            if not (o == "succeeded" and not optional):      # undeclared succeeded defaults to required
                out.append(("optionality", f"{t}:{o} declared {'optional' if optional else 'required'} but not recorded"))
        elif got[0] != optional:
            out.append(("optionality", f"{t}:{o} recorded optional={got[0]}, graph says optional={optional}"))
    for (t, o), got in gp.task_output_opt.items():
        if (t, o) not in decl and not (o == "succeeded" and got[0] is False):
            out.append(("optionality", f"{t}:{o} recorded optional={got[0]} but the graph does not declare it"))
    return out


FLOW = """[scheduler]
    allow implicit tasks = True
[scheduling]
    cycling mode = integer
    initial cycle point = 1
    [[graph]]
        P1 = \"\"\"
{graph}
        \"\"\"
[runtime]
    [[a, b, c, d, a-b]]
        [[[outputs]]]
            x = "message for x"
"""
MSG2OUT = {"message for x": "x"}


def compare_config(chains, trig, opt, text, workdir):
    """Load the graph through WorkflowConfig and compare TaskDef dependencies / outputs with the denotation."""
    from cylc.flow.config import WorkflowConfig
    from cylc.flow.scripts.validate import ValidateOptions
    from cylc.flow.cycling.loader import get_point
    os.makedirs(workdir, exist_ok=True)
    path = os.path.join(workdir, "flow.cylc")
    with open(path, "w") as f:
        f.write(FLOW.format(graph=text))
    try:
        cfg = WorkflowConfig("c14", path, ValidateOptions())
    except Exception as e:     # noqa: BLE001
        return [("config-rejected", f"legal graph rejected by WorkflowConfig: {type(e).__name__}: {str(e)[:150]}")]
    out = []
    point = get_point("1")

    def conv(m):
        return f"{m.group(1)}:{MSG2OUT.get(m.group(2), m.group(2))}"

    for (task, suicide, atoms, truth) in sorted(trig, key=lambda t: (t[0], t[1])):
        tdef = cfg.taskdefs.get(task)
        if tdef is None:
            out.append(("config-no-task", f"task {task} missing after load"))
            continue
        exprs = sorted({re.sub(r'1/([^\s&|()]+) ([^&|()]+)', conv, d.get_expression(point))
                        for seq, deps in tdef.dependencies.items() for d in deps if d.suicide == suicide})
        if not exprs:
            out.append(("config-no-trigger", f"TaskDef {task} (suicide={suicide}) has no dependency"))
            continue
        expr = "&".join(f"({e})" for e in exprs)
        found, table = _table(expr, tuple(sorted(atoms)))
        if found is None or found != frozenset(atoms) or table != truth:
            out.append(("config-truth", f"TaskDef {task} dependency {expr!r} differs from the expression written "
                        f"over {sorted(atoms)}"))
    for (t, o, optional) in sorted(opt):
        tdef = cfg.taskdefs.get(t)
        got = tdef.outputs.get(MSG2OUT.get(o, o)) if tdef else None
        if got is None:
            got = tdef.outputs.get(o) if tdef else None
        if got is None or got[1] is not (not optional):
            out.append(("config-optionality", f"TaskDef {t} output {o}: (message, required)={got}, graph says "
                        f"optional={optional}"))
    return out


# ----------------------------------------------------------------------------------------------- jobs
def pres_key(pres):
    return tuple(pres[d] for d in PRES_DIMS)


def first_feature(pres):
    for d in PRES_DIMS:
        if pres[d] != CANON[d]:
            return f"{d}={pres[d]}"
    return "canonical"


def check_ast(job):
    """job = (idx, ast state, [pres], config_pres or None, scratch) -> (violations, stats)"""
    import logging
    logging.disable(logging.CRITICAL)
    idx, ast, preses, cfg_pres, scratch = job
    chains, trig, opt = ast["chains"], ast["trig"], ast["opt"]
    cls, asttext = ast_class(chains)
    bad = []
    den = {"chains": [list(c) for c in chains],
           "trig": [[t, sui, sorted(atoms), sorted(sorted(S) for S in truth)] for (t, sui, atoms, truth) in sorted(
               trig, key=lambda t: (t[0], t[1]))],
           "opt": sorted(list(o) for o in opt)}
    st = {"renderings": 0, "effective_features": 0, "config_loads": 0, "distinct_texts": 0}
    canon_text = render(chains, CANON)
    res = compare_parser(chains, trig, opt, canon_text)
    st["renderings"] += 1
    if res:
        for aspect, msg in res[:1]:
            bad.append((f"faithful:{aspect}:{cls}", len(asttext),
                        f"graph {canon_text.strip()!r}: {msg}",
                        {**den, "pres": CANON}))
        return bad, st
    seen = {canon_text}
    for pres in preses:
        text = render(chains, pres)
        st["renderings"] += 1
        if text in seen:
            continue
        seen.add(text)
        st["effective_features"] += len(effective_features(chains, pres))
        res = compare_parser(chains, trig, opt, text)
        for aspect, msg in res[:1]:
            bad.append((f"presentation:{first_feature(pres)}:{aspect}", len(asttext),
                        f"graph {canon_text.strip()!r} parses as written, but rendered with {pres} as {text!r}: {msg}",
                        {**den, "pres": pres}))
    st["distinct_texts"] = len(seen)
    if cfg_pres is not None:
        for pres in cfg_pres:
            text = render(chains, pres)
            st["config_loads"] += 1
            res = compare_config(chains, trig, opt, text, os.path.join(scratch, f"c14-{idx}"))
            for aspect, msg in res[:1]:
                bad.append((f"{aspect}:{cls}", len(asttext),
                            f"graph rendered with {pres} as {text!r}: {msg}",
                            {**den, "pres": pres, "config": True}))
    return bad, st


def check_chunk(jobs):
    out = []
    for j in jobs:
        out.append(check_ast(j))
    return out


def check_bad(b):
    """One malformed graph: must raise GraphParseError. -> (key, text) or None"""
    from cylc.flow.graph_parser import GraphParser
    from cylc.flow.exceptions import GraphParseError
    text = "\n".join(b["lines"])
    n, pos = len(b["lines"]), b["pos"]
    where = "only line" if n == 1 else "last line" if pos == n else "first line" if pos == 1 else "middle line"
    gp = GraphParser()
    try:
        gp.parse_graph(text)
    except GraphParseError:
        return None
    except Exception as e:     # noqa: BLE001
        return (f"malformed:{b['kind']}:{type(e).__name__}",
                f"malformed line {b['lines'][pos - 1]!r} ({where} of {text!r}) raises {type(e).__name__} instead of "
                f"GraphParseError: {str(e)[:100]}")
    trig = {t: {e: v for e, v in d.items() if e} for t, d in gp.triggers.items()}
    trig = {t: d for t, d in trig.items() if d}
    if b["kind"] in NODE_FORMAT_KINDS and pos < n:
        key = "malformed:bad-node-format-not-on-last-line"
    else:
        key = f"malformed:{b['kind']}"
    return (key, f"malformed line {b['lines'][pos - 1]!r} ({where} of {text!r}) is accepted and parsed into "
                 f"triggers {trig}")


def covering_presentations(all_pres, rng, k):
    """A seeded sample of k presentations plus every single-feature presentation (each value of each dimension alone)."""
    singles = []
    for p in all_pres:
        if sum(p[d] != CANON[d] for d in PRES_DIMS) == 1:
            singles.append(p)
    singles.sort(key=pres_key_str)
    rest = [p for p in all_pres if p not in singles and p != CANON]
    rest.sort(key=pres_key_str)
    return singles, rest


def pres_key_str(p):
    return tuple(str(p[d]) for d in PRES_DIMS)


def run(ctx):
    states = oracle.enumerate_cases(ctx, "GraphSyntax", None if ctx.quick else "GraphSyntaxFull", timeout=1500,
                                    workers=2)
    asts = [s for s in states if s["kind"] == "ast"]
    preses = [dict(s["pres"]) for s in states if s["kind"] == "pres"]
    bads = [dict(s["bad"]) for s in states if s["kind"] == "bad"]
    asts.sort(key=lambda s: repr(s["chains"]))
    rng = random.Random(ctx.seed)
    singles, rest = covering_presentations(preses, rng, 0)
    n_cfg = 120 if ctx.quick else 2000
    loadable = [i for i, a in enumerate(asts) if a["loadable"]]
    cfg_idx = set(rng.sample(loadable, min(n_cfg, len(loadable))))
    jobs = []
    n_pairs = 0
    for i, a in enumerate(asts):
        if ctx.quick:
            # every single-feature presentation + 4 seeded multi-feature ones per AST
            sel = singles + rng.sample(rest, 4)
        elif len(a["chains"]) == 1:
            sel = singles + rest                      # the full product for single-chain graphs
        else:
            sel = singles + rng.sample(rest, 40)
        n_pairs += len(sel) + 1
        cfg_pres = [rng.choice(rest), CANON] if i in cfg_idx else None
        jobs.append((i, {"chains": a["chains"], "trig": a["trig"], "opt": a["opt"]}, sel, cfg_pres, ctx.scratch))
    chunks = [jobs[i:i + 40] for i in range(0, len(jobs), 40)]
    import gc
    del states
    gc.collect()
    gc.freeze()
    try:
        results = common.parallel_map(check_chunk, chunks, procs=min(PROCS, os.cpu_count() or 1))
    finally:
        gc.unfreeze()
    tot = {}
    best = {}
    for chunk in results:
        for bad, st in chunk:
            for k, v in st.items():
                tot[k] = tot.get(k, 0) + v
            for key, ln, text, rep in bad:
                if key not in best or ln < best[key][0]:
                    best[key] = (ln, text, rep)
    for key in sorted(best):
        ln, text, rep = best[key]
        ctx.violation(key, text, {"case": rep})
    # malformed lines
    n_bad = 0
    first = {"qualifier-order": 0}
    for b in sorted(bads, key=lambda b: (first.get(b["kind"], 1), b["kind"], len(b["lines"]), b["pos"])):
        n_bad += 1
        r = check_bad(b)
        if r:
            ctx.violation(r[0], r[1], {"bad": {"kind": b["kind"], "pos": b["pos"], "lines": list(b["lines"])}})
    ctx.coverage["c14"] = {"asts": len(asts), "presentations": len(preses), "ast_x_presentation_pairs": n_pairs,
                           "malformed_cases": n_bad, **tot}
    samples = [{"chains": [list(c) for c in a["chains"]], "rendered": render(a["chains"], rest[7 * k % len(rest)])}
               for k, a in enumerate(asts[500:503])]
    oracle.finish_cov(
        ctx, tot.get("renderings", 0) + tot.get("config_loads", 0) + n_bad, tot.get("distinct_texts", 0),
        "LegalASTs (chains of 2-3 groups from a pool of 25 groups, alone or with a second chain) x Presentations "
        "(2 forms x 3 white-space styles x comments x 7 continuation styles x duplicated line x 3 line orders = 504), both "
        "enumerated by TLC from GraphSyntax.tla; thorough = full product for single-chain graphs, canonical + every "
        "single-feature + 40 seeded multi-feature presentations for two-chain graphs; quick = canonical + every "
        "single-feature presentation + 4 seeded multi-feature presentations per AST; a seeded sample also loaded through WorkflowConfig; "
        "every malformed-line kind at every position of 1-3 line graphs.  non-trivial = distinct rendered texts",
        samples, exhaustive=False)
    ctx.assumptions += [
        "Denote(ast) does not depend on the presentation, so TLC dumps the two factors of LegalASTs x Presentations "
        "separately and the harness forms the product and renders the text.",
        "An undeclared :succeeded output is required by default, so a missing record counts as 'required'.",
        "'&' binds tighter than '|'.",
        "Malformed kinds are those the parser documents/intends to reject plus two operator-structure errors "
        "(adjacent operators, missing operator before a parenthesis).",
    ]


def replay(ctx, data):
    import logging
    logging.disable(logging.CRITICAL)
    rep = data["replay"]
    if "bad" in rep:
        r = check_bad(rep["bad"])
        if r:
            ctx.violation(r[0], r[1], rep)
        ctx.coverage.update({"states": 1, "transitions": 1, "traces_validated_against_impl": 1,
                             "samples": ["\n".join(rep["bad"]["lines"])]})
        return
    case = rep["case"]
    chains = tuple(tuple(c) for c in case["chains"])
    trig = frozenset((t, sui, frozenset(atoms), frozenset(frozenset(S) for S in truth))
                     for t, sui, atoms, truth in case["trig"])
    opt = frozenset(tuple(o) for o in case["opt"])
    pres = case["pres"]
    bad, _ = check_ast((0, {"chains": chains, "trig": trig, "opt": opt}, [pres],
                        [pres] if case.get("config") else None, ctx.scratch))
    for key, ln, text, r in bad:
        ctx.violation(key, text, {"case": r})
    ctx.coverage.update({"states": 1, "transitions": 1, "traces_validated_against_impl": 1,
                         "samples": [render(chains, pres)]})
