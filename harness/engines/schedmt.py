"""Model-trace validation: executions of the real scheduler against the design model spec/Sched.tla
(spec/SchedMT.tla).  Used by the scheduler engine for the properties whose invariants live in Sched.tla."""
from __future__ import annotations
import json, os, random, re, shutil, tempfile, time, traceback
from collections import Counter
from harness import common, tlc
from harness.sched import mtemit

# what the design model covers: plain runs (no commands), no xtriggers / clock-expire / suicide / absolute triggers
BASE_FEATURES = dict(max_tasks=4, max_fcp=4, xtriggers=False, expire=False, absolute=False, suicide=False, future=True)
MT_FEATURES = {
    "C02": {"retries": "always"}, "C05": {"queues": "always", "max_tasks": 5}, "C31": {"sequential": "always"},
    "C04": {"max_fcp": 5, "future": "always"}, "C07": {"future": "always"},
}
MT_PROPS = {"C01", "C02", "C03", "C04", "C05", "C06", "C07", "C09", "C11", "C26", "C31", "C43", "C28", "C29"}
MT_COMMANDS = {"C06", "C07", "C43", "C03", "C26", "C05", "C28", "C29"}      # every other execution with hold / release / stop-point commands
MT_MANUAL = {"C05", "C26", "C28", "C29"}      # ... and cylc trigger / cylc set --out on pooled tasks
N_WF = {"quick": 16, "thorough": 160}
RUNS_PER_WF = {"quick": 4, "thorough": 6}

def _one_wf(job):
    """Worker: one generated workflow, several executions with different outcome tables and schedules."""
    os.environ["CYLC_FLOW_VERIF"] = "1"
    for attempt in range(3):
        r = _one_wf_try(job)
        if "error" in r and "BrokenBarrierError" in r["error"] and attempt < 2:
            continue      # cylc's own start-up timeout on an overloaded machine: run the same case again
        return r

def _one_wf_try(job):
    import random as _r
    from harness.sched import gen, modeltrace
    rng = _r.Random(job["seed"])
    w = gen.generate(rng, features=job["features"])
    runs = []
    try:
        for k in range(job["nruns"]):
            home = tempfile.mkdtemp(prefix=f"mt{job['seed']}-", dir=job["scratch"])
            try:
                # every other execution with arbitrary job outcomes (incomplete tasks, stalls)
                plan = (modeltrace.command_plan(w, rng, manual=bool(job.get("manual")))
                        if job.get("commands") and k % 2 == 1 else None)
                r = modeltrace.one_mt_run(w, rng.randrange(1 << 30), rng.randrange(1 << 30), home,
                                          mode="complete_novanish" if k % 4 < 2 else "any_novanish", plan=plan)
            finally:
                shutil.rmtree(home, ignore_errors=True)
            runs.append(r)
    except Exception as exc:
        return {"seed": job["seed"], "error": "".join(traceback.format_exception(exc))[-3000:]}
    d = tempfile.mkdtemp(prefix=f"mttlc{job['seed']}-", dir=job["scratch"])
    mtemit.write_mtdata(os.path.join(d, "MTData.tla"), w, [r["steps"] for r in runs], [r["end"] for r in runs])
    with open(os.path.join(d, "RunMT.tla"), "w") as f:
        f.write("---- MODULE RunMT ----\nEXTENDS SchedMT\n====\n")
    with open(os.path.join(d, "RunMT.cfg"), "w") as f:
        f.write(mtemit.CFG)
    return {"seed": job["seed"], "dir": d, "desc": w.describe(), "flow": w.flow_text(),
            "runs": [{"n": len(r["steps"]), "end": r["end"], "evs": [s["ev"] for s in r["steps"]],
                      "idx": [s["i"] for s in r["steps"]]} for r in runs]}

_VERDICT = re.compile(r'<<\s*"MTVERDICT"\s*,\s*(\d+)\s*,\s*(\d+)\s*,\s*(\{.*?\})\s*>>', re.S)
_ITEM = re.compile(r'<<\s*(\d+)\s*,\s*"([^"]*)"\s*>>')

def _tlc_wf(wf):
    d = wf["dir"]
    res = tlc.run_tlc(os.path.join(d, "RunMT.tla"), os.path.join(d, "RunMT.cfg"), workers=1, timeout=1200, scratch=d,
                      heap="2g")
    if not res.ok:
        raise tlc.TLCError(f"model-trace validation did not complete (workflow seed {wf['seed']}):\n{res.out[-3000:]}")
    out = {}
    for m in _VERDICT.finditer(res.out):
        out[int(m.group(1))] = [(int(a), b) for a, b in _ITEM.findall(m.group(3))]
    if len(out) != len(wf["runs"]):
        raise tlc.TLCError(f"model-trace verdicts missing (workflow seed {wf['seed']}): {sorted(out)}\n{res.out[-2000:]}")
    return out, res.distinct, res.generated

def run_mt(ctx):
    """Returns nothing; adds coverage, divergence notes and (for a failed invariant of this property) violations."""
    if ctx.prop not in MT_PROPS:
        return
    from concurrent.futures import ThreadPoolExecutor
    t0 = time.time()
    nwf = int(os.environ.get("VERIF_MT_WF", N_WF[ctx.tier]))
    feats = dict(BASE_FEATURES)
    feats.update(MT_FEATURES.get(ctx.prop, {}))
    jobs = [{"seed": ctx.seed * 1_000_003 + 500_000 + k, "scratch": ctx.scratch, "features": feats,
             "nruns": RUNS_PER_WF[ctx.tier], "commands": ctx.prop in MT_COMMANDS, "manual": ctx.prop in MT_MANUAL} for k in range(nwf)]
    wfs = common.parallel_map(_one_wf, jobs, procs=16)
    errs = [w for w in wfs if "error" in w]
    if errs:
        raise common.MachineryError(f"{len(errs)} model-trace executions failed; first:\n{errs[0]['error']}")
    with ThreadPoolExecutor(16) as ex:
        results = list(ex.map(_tlc_wf, wfs))
    actions = Counter()
    n_runs = n_steps = n_div = 0
    states = trans = 0
    divs = Counter()
    for wf, (verdicts, distinct, generated) in zip(wfs, results):
        states += distinct
        trans += generated
        for k, r in enumerate(wf["runs"], 1):
            n_runs += 1
            n_steps += r["n"]
            actions.update(r["evs"])
            for idx, what in verdicts.get(k, []):
                if what.startswith("DIVERGES:"):
                    n_div += 1
                    divs[what] += 1
                    if os.environ.get("VERIF_SHOW_DIV"):
                        print(f"  model-trace divergence {what} at step {idx} of run {k} of workflow seed={wf['seed']}")
                elif what.startswith(ctx.prop + "_"):
                    ctx.violation("MT_" + what,
                                  f"model invariant {what} is false in the state the real scheduler reached at logged step "
                                  f"{idx} ({r['evs'][idx - 1]}) of model-trace run {k}, workflow {json.dumps(wf['desc'])}",
                                  {"mt": {"seed": wf["seed"], "features": feats, "nruns": len(wf["runs"]), "run": k, "commands": ctx.prop in MT_COMMANDS, "manual": ctx.prop in MT_MANUAL,
                                          "step": idx, "invariant": what}, "flow_cylc": wf["flow"]})
    cov = ctx.coverage
    cov["states"] = cov.get("states", 0) + states
    cov["transitions"] = cov.get("transitions", 0) + trans
    cov["model_trace"] = {"workflows": len(wfs), "runs": n_runs, "steps_matched_to_model_actions": n_steps - n_div,
                          "steps": n_steps, "divergent_steps": n_div, "actions": dict(sorted(actions.items())),
                          "wall_s": round(time.time() - t0, 1),
                          "rule": "every logged step of the real main loop must be the named action of spec/Sched.tla from "
                                  "the previous logged state and yield the logged state; the model's invariants are "
                                  "evaluated on every state the implementation really reached"}
    cov["traces_validated_against_impl"] = cov.get("traces_validated_against_impl", 0) + n_runs
    for what, k in divs.items():
        ctx.notes.append(f"DIVERGENCE engine=sched-mt {what} steps={k} (real step is not the model's action; "
                         f"spec/harness to-do, not a property verdict)")

def replay_mt(ctx, rep):
    """Re-run one workflow's model traces."""
    job = {"seed": rep["seed"], "scratch": ctx.scratch, "features": rep["features"], "nruns": rep["nruns"],
           "commands": rep.get("commands", False), "manual": rep.get("manual", False)}
    wf = _one_wf(job)
    if "error" in wf:
        raise common.MachineryError(wf["error"])
    verdicts, _d, _g = _tlc_wf(wf)
    for k, r in enumerate(wf["runs"], 1):
        for idx, what in verdicts.get(k, []):
            print(f"  run {k} step {idx} ({r['evs'][idx - 1]}): {what}")
            if what.startswith(ctx.prop + "_"):
                ctx.violation("MT_" + what, f"model invariant {what} false at logged step {idx} of run {k}", {"mt": rep})
