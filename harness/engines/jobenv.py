"""C41: literal task environment values reach the job unchanged, in configuration order.

Oracle = spec/oracle/JobEnv.tla (TLC enumerates ordered environment definitions and computes the expected
environment by left-to-right substitution).  Every state is replayed:

  job_conf['environment'] (an OrderedDictWithDefaults, as the scheduler passes it)
      -> the real JobFileWriter._write_runtime_environment  -> file in ctx.scratch
      -> sourced by `env -i HOME=<dir with a space> PRE='o v' bash --noprofile --norc` with `set -euo pipefail` (as
         cylc's job.sh does); the function cylc__job__inst__user_env is called and the *exported* variables are read
         back NUL-separated (names from `compgen -e`, values via printf; the last case of every batch is also observed
         from a real child process with `env -0` and both views must agree) and compared with the TLC expectation.
         If a batch fails, each of its cases is re-run in its own subshell with `env -0`.

For family-B (ordering) cases (quick: every 3rd, thorough: all) the definitions are additionally written to a flow.cylc, loaded with the real
WorkflowConfig, and the resulting [runtime][t][environment] is what is handed to the job file writer - this binds
"configuration order" to the parser's ordered dict and the runtime-inheritance code as well.
"""
from __future__ import annotations
import io, os, subprocess
from harness import oracle
from harness.common import parallel_map
from harness.tlaparse import to_py

HOME_TOKEN = "<HOME>"
PRE_VALUE = "o v"
IGNORED_ENV = {"PWD", "SHLVL", "_", "OLDPWD"}
BATCH = 64
MAX_REPORTED = 12


def decode(atom: str, home: str) -> str:
    """Atom name -> text (TLC cannot print non-ASCII, so those atoms are named)."""
    if atom == "TAB":
        return "\t"
    if atom == "NL":
        return "\n"
    if atom == HOME_TOKEN:
        return home
    if atom.startswith("U+"):
        return chr(int(atom[2:], 16))
    return atom


def render_value(val, home) -> str:
    out = []
    for it in val:
        if it["k"] == "lit":
            out.append(decode(it["s"], home))
        elif it["k"] == "ref":
            out.append("$" + it["s"])
        else:
            out.append("${" + it["s"] + "}")
    return "".join(out)


def case_key(c) -> str:
    """Stable violation key: family + the value class (atom names / item kinds), no seed."""
    def cls(val):
        return "".join({"lit": "", "ref": "$", "bref": "${}"}[it["k"]] + (
            {" ": "SP", "  ": "SP2"}.get(it["s"], it["s"]) if it["k"] == "lit" else it["s"]) + "."
            for it in val).rstrip(".")
    if c["fam"] == "A":
        return "literal:" + cls(c["defs"][0]["val"])
    if c["fam"] == "F":
        return f"filter-{c['filter']}:" + ",".join(d["name"] for d in c["defs"]) + ":" + "|".join(cls(d["val"]) for d in c["defs"])
    return "order:" + ",".join(d["name"] for d in c["defs"]) + ":" + "|".join(cls(d["val"]) for d in c["defs"])


def _env_via_config(defs_txt, wdir, filt="none"):
    """Load the definitions through the real WorkflowConfig; return the task's environment mapping.
    filt = "incl" / "excl" (family F): the definitions, with UNUSED inserted second, sit in a parent family and the
    task selects them with an [environment filter]."""
    from cylc.flow.config import WorkflowConfig
    from cylc.flow.scheduler_cli import RunOptions
    os.makedirs(wdir, exist_ok=True)
    lines = ["[scheduling]", "    [[graph]]", "        R1 = t", "[runtime]"]
    if filt == "none":
        lines += ["    [[t]]", "        script = true", "        [[[environment]]]"]
    else:
        lines += ["    [[FAM]]", "        [[[environment]]]"]
        defs_txt = [defs_txt[0], ("UNUSED", "not wanted")] + list(defs_txt[1:])
    for name, text in defs_txt:
        assert '"' not in text and "\\" not in text and "\n" not in text and text == text.strip()
        lines.append(f'            {name} = "{text}"')
    if filt != "none":
        lines += ["    [[t]]", "        inherit = FAM", "        script = true", "        [[[environment filter]]]"]
        if filt == "incl":
            lines.append("            include = " + ", ".join(n for n, _ in reversed(defs_txt) if n != "UNUSED"))
        else:
            lines.append("            exclude = UNUSED")
    fpath = os.path.join(wdir, "flow.cylc")
    with open(fpath, "w") as f:
        f.write("\n".join(lines) + "\n")
    cfg = WorkflowConfig("c41", fpath, RunOptions(), {}, run_dir=wdir)
    return cfg.cfg["runtime"]["t"]["environment"]


def _parse_records(stdout: bytes, stderr: bytes):
    """NUL separated NAME=value fields, each case closed by an ==C41-CASE-END-n== field."""
    results = {}
    cur, failed, child = {}, None, None
    for fld in stdout.decode("utf-8", "surrogateescape").split("\0"):
        if fld.startswith("==C41-CASE-END-") and fld.endswith("=="):
            idx = int(fld[len("==C41-CASE-END-"):-2])
            if failed:
                results[idx] = ("err", failed + " stderr=" + stderr.decode("utf-8", "replace")[-300:])
            else:
                if child is not None and {k: v for k, v in child.items() if k not in IGNORED_ENV} != \
                        {k: v for k, v in cur.items() if k not in IGNORED_ENV}:
                    raise RuntimeError(f"builtin and child-process views of the environment differ: {cur} / {child}")
                results[idx] = ("ok", cur)
            cur, failed, child = {}, None, None
        elif fld.startswith("FAILED-rc-"):
            failed = fld
        elif fld == "==CHILD-VIEW==":
            child, cur = cur, {}          # what was collected so far came from the child `env -0`
        elif "=" in fld:
            k, v = fld.split("=", 1)
            cur[k] = v
    return results


_KEEP = "HOME|PRE|LC_ALL|PWD|SHLVL|_|OLDPWD"


def _bash(bdir, home, name, lines):
    dfile = os.path.join(bdir, name)
    with open(dfile, "w") as f:
        f.write("\n".join(lines) + "\n")
    return subprocess.run(["/usr/bin/env", "-i", f"HOME={home}", f"PRE={PRE_VALUE}", "LC_ALL=C.UTF-8",
                           "/bin/bash", "--noprofile", "--norc", dfile],
                          capture_output=True, timeout=600, cwd=bdir)


def _run_batch(arg):
    """Worker: (batch_dir, home, [(idx, [(name, text)], via_config)]) -> {idx: ("ok", env) | ("err", msg)}

    Fast path: one bash process per batch, builtins only (process creation is very slow in the sandbox): the
    function file is sourced and called in the main shell, exported names are listed with `compgen -e`, values
    printed with printf, then everything is unset.  The last case of each batch is also observed from a real child
    process (`env -0`).  If anything in the batch fails (set -e kills the shell) every case of the batch is re-run
    in its own subshell with `env -0` (slow path) so that failures are attributed to the right case."""
    bdir, home, items = arg
    from cylc.flow.job_file import JobFileWriter
    from cylc.flow.parsec.OrderedDict import OrderedDictWithDefaults
    os.makedirs(bdir, exist_ok=True)
    results = {}
    files = []
    for idx, defs_txt, via_config in items:
        try:
            if via_config:
                env = _env_via_config(defs_txt, os.path.join(bdir, f"wf{idx}"), "none" if via_config is True else via_config)
            else:
                env = OrderedDictWithDefaults()
                for name, text in defs_txt:
                    env[name] = text
            handle = io.StringIO()
            JobFileWriter._write_runtime_environment(handle, {"environment": env, "param_var": {}})
        except Exception as exc:  # the writer / config refusing a legal value is a finding, not machinery
            results[idx] = ("err", f"{type(exc).__name__}: {exc}")
            continue
        fn = os.path.join(bdir, f"case{idx}.sh")
        with open(fn, "w", encoding="utf-8") as f:
            f.write(handle.getvalue() + "\n")
        files.append((idx, fn))
    tmp = os.path.join(bdir, "names.txt")
    fast = ["set -euo pipefail"]
    for n, (idx, fn) in enumerate(files):
        fast += [f". '{fn}'", "cylc__job__inst__user_env"]
        if n == len(files) - 1:
            fast += ["/usr/bin/env -0", "printf '==CHILD-VIEW==\\0'"]
        fast += [f"compgen -e > '{tmp}'", f"mapfile -t __names < '{tmp}'",
                 'for __n in "${__names[@]}"; do printf \'%s=%s\\0\' "$__n" "${!__n}"; done',
                 f"printf '==C41-CASE-END-{idx}==\\0'",
                 'for __n in "${__names[@]}"; do case "$__n" in ' + _KEEP + ') ;; *) unset "$__n";; esac; done',
                 "unset -f cylc__job__inst__user_env"]
    p = _bash(bdir, home, "driver.sh", fast)
    got = _parse_records(p.stdout, p.stderr) if p.returncode == 0 else {}
    if p.returncode != 0 or any(idx not in got for idx, _ in files):
        slow = ["set -euo pipefail"]
        for idx, fn in files:
            slow += [f"( . '{fn}' && cylc__job__inst__user_env && /usr/bin/env -0 ) || printf 'FAILED-rc-%s\\0' $?",
                     f"printf '==C41-CASE-END-{idx}==\\0'"]
        p = _bash(bdir, home, "driver_slow.sh", slow)
        got = _parse_records(p.stdout, p.stderr)
    results.update(got)
    for idx, _, _ in items:
        if idx not in results:
            raise RuntimeError(f"bash driver produced no record for case {idx}: rc={p.returncode} "
                               f"stderr={p.stderr.decode('utf-8', 'replace')[-500:]}")
    return results


def _expected_env(st, home):
    exp = {n: "".join(decode(a, home) for a in atoms) for n, atoms in st["exp"].items()}
    exp["HOME"] = home
    exp["LC_ALL"] = "C.UTF-8"
    return exp


def _compare(st, got, home, via):
    c = st["c"]
    tag, val = got
    key = case_key(c) + (":via-config" if via else "")
    src = [(d["name"], render_value(d["val"], home)) for d in c["defs"]]
    if tag == "err":
        return [(key, f"environment {src!r}: job function could not be written/evaluated: {val}")]
    exp = _expected_env(st, home)
    seen = {k: v for k, v in val.items() if k not in IGNORED_ENV}
    if seen != exp:
        diff = {k: (seen.get(k), exp.get(k)) for k in set(seen) | set(exp) if seen.get(k) != exp.get(k)}
        return [(key, f"environment {src!r}: job sees (got, expected) {diff!r}")]
    return []


def check_states(ctx, states, home, via_config_every=1):
    import cylc.flow.job_file, cylc.flow.config, cylc.flow.scheduler_cli  # noqa: F401 (import once, before forking)
    work = []
    nb = nf = 0
    for i, st in enumerate(states):
        defs_txt = [(d["name"], render_value(d["val"], home)) for d in st["c"]["defs"]]
        if st["c"]["fam"] == "F":
            nf += 1
            if not via_config_every or nf % via_config_every == 0:
                work.append((2 * i + 1, defs_txt, st["c"]["filter"]))
            continue
        work.append((2 * i, defs_txt, False))
        if st["c"]["fam"] == "B":
            nb += 1
            if via_config_every and nb % via_config_every == 0:
                work.append((2 * i + 1, defs_txt, True))
    batches = [(os.path.join(ctx.scratch, f"b{n}"), home, work[j:j + BATCH])
               for n, j in enumerate(range(0, len(work), BATCH))]
    results = {}
    for r in parallel_map(_run_batch, batches, procs=16):
        results.update(r)
    bad = []
    for i, st in enumerate(states):
        if 2 * i in results:
            bad += [(k, t, st) for k, t in _compare(st, results[2 * i], home, False)]
        if 2 * i + 1 in results:
            bad += [(k, t, st) for k, t in _compare(st, results[2 * i + 1], home, True)]
    return bad, len(work)


def run(ctx):
    home = os.path.join(ctx.scratch, "home dir")       # a space in $HOME: ~/x must still be one word
    os.makedirs(home, exist_ok=True)
    states = oracle.enumerate_cases(ctx, "JobEnv", None if ctx.quick else "JobEnv_thorough", timeout=1800)
    states.sort(key=lambda st: (st["c"]["fam"], case_key(st["c"])))      # deterministic order whatever TLC's dump order
    bad, n_exec = check_states(ctx, states, home, via_config_every=3 if ctx.quick else 1)
    for key, text, st in bad[:MAX_REPORTED]:
        ctx.violation(key, text, {"case": to_py(st)})
    if len(bad) > MAX_REPORTED:
        ctx.notes.append(f"C41: {len(bad)} failing cases, only the first {MAX_REPORTED} (in key order) reported")
    ctx.coverage["failing_cases"] = len(bad)
    nontrivial = 0
    samples = []
    for st in states:
        c = st["c"]
        vals = [d["val"] for d in c["defs"]]
        special = any(it["k"] != "lit" or it["s"] not in ("a", "B7", "_", "x", "lit", "pre", "p", "q", ".", "-")
                      for v in vals for it in v)
        nontrivial += bool(special)
        if len(samples) < 2 and c["fam"] == "A" and len(vals[0]) == 2 and vals[0][0]["s"] == "~":
            samples.append({"defs": [(d["name"], render_value(d["val"], home)) for d in c["defs"]],
                            "expected": _expected_env(st, "$HOME")})
        if len(samples) < 5 and c["fam"] == "B" and len(vals[1]) > 3 and len(vals[2]) > 3:
            samples.append({"defs": [(d["name"], render_value(d["val"], home)) for d in c["defs"]],
                            "expected": {k: v for k, v in _expected_env(st, "$HOME").items() if k not in ("HOME", "LC_ALL")}})
    oracle.finish_cov(ctx, n_exec, nontrivial,
                      "family A: one variable, every sequence of 1..MaxLen literal atoms (36 atoms: letters, space(s), ' # = ~ "
                      ", : / % ! * ? [ ] { } ( ) ; & | < > ^ @ + - . tab newline, 2 non-ASCII; leading ~ only as ~ and ~/rest); "
                      "family B: 3 variables in all 6 orders x values referring to earlier variables via $N / ${N} and to a "
                      "pre-set variable; non-trivial = contains a non-alphanumeric atom or a reference. Each family-B case is "
                      "executed directly (ordered dict -> writer) and (quick: every 3rd, thorough: every) also via WorkflowConfig; "
                      "family F: the family-B definitions inherited from a parent family and selected by an [environment filter] "
                      "(include in reverse order / exclude of an extra variable), via WorkflowConfig (quick: every 3rd).", samples, exhaustive=True)
    ctx.coverage["bash_evaluations"] = n_exec
    ctx.assumptions += [
        "Literal domain = values without the characters bash treats specially inside an assignment: $ ` \\ \" (by the "
        "documentation values are shell expressions evaluated by the job shell); a leading ~ only in the forms ~ and ~/rest "
        "(expected $HOME, $HOME/rest); ~user is not exercised (depends on the password database).",
        "Parameter environment templates (%(i)s with param_var) are not exercised; param_var is empty so % is literal.",
        "Only cylc__job__inst__user_env is evaluated (with set -euo pipefail as in job.sh), not the whole job script.",
        "bash found at /bin/bash is the job shell.",
    ]


def replay(ctx, data):
    from harness.tlaparse import freeze
    st = data["replay"]["case"]
    st = {"c": st["c"], "exp": {k: tuple(v) for k, v in st["exp"].items()}}
    home = os.path.join(ctx.scratch, "home dir")
    os.makedirs(home, exist_ok=True)
    bad, n = check_states(ctx, [st], home)
    for key, text, _ in bad:
        ctx.violation(key, text, {"case": data["replay"]["case"]})
    ctx.coverage.update({"states": 1, "transitions": 1, "traces_validated_against_impl": n,
                         "samples": [[(d["name"], render_value(d["val"], home)) for d in st["c"]["defs"]]]})
