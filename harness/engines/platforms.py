"""C47: platform / host selection avoids unreachable hosts; platform names resolve to the last full match.

Oracle = spec/oracle/Platforms.tla.  Every TLC state is one <<definitions, group, bad-host set, query>> case with
the allowed platforms / hosts (and the required one for 'definition order') computed from the TLA+ definitions.
Replay: the definitions are written to a real global.cylc text, loaded with the real global-config SPEC by parsec,
installed as cylc.flow.platforms.glbl_cfg, and the query goes through
   get_platform(name, bad_hosts=bad)  [-> platform_from_name -> get_platform_from_group]  and
   get_host_from_platform(platform, bad_hosts=bad)
K times with a seeded `random`.
"""
from __future__ import annotations
import os, random
from harness import oracle, tlc
from harness.tlaparse import to_py

def _enumerate(ctx, module, cfg=None, **kw):
    """enumerate_cases with one retry when the JVM dies without any TLC diagnostics (seen on an overloaded host).
    All cases are initial states, which TLC generates sequentially: 2 workers are faster than 16 on a busy host."""
    kw.setdefault("workers", 2)
    try:
        return oracle.enumerate_cases(ctx, module, cfg, **kw)
    except tlc.TLCError as e:
        if "error" in str(e).lower() or "timeout" in str(e):
            raise
        return oracle.enumerate_cases(ctx, module, cfg, **kw)

K_RANDOM = 6          # repetitions per case for the random selection method

_cfg_cache: dict = {}

def config_text(c) -> str:
    lines = ["[platforms]"]
    for d in c["defs"]:
        lines.append(f"    [[{d['pat']}]]")
        if d["hosts"]:
            lines.append(f"        hosts = {', '.join(d['hosts'])}")
        lines.append("        job runner = slurm")          # multi-host platforms need a non-local job runner
        lines.append("        [[[selection]]]")
        lines.append(f"            method = {d['method']}")
    if c["group"]["members"]:
        lines += ["[platform groups]", "    [[g]]", f"        platforms = {', '.join(c['group']['members'])}",
                  "        [[[selection]]]", f"            method = {c['group']['method']}"]
    return "\n".join(lines) + "\n"

def load_global(text: str, scratch: str):
    """Parse a global.cylc text with the real spec (as tests/conftest.py mock_glbl_cfg does)."""
    if text in _cfg_cache:
        return _cfg_cache[text]
    from cylc.flow.parsec.config import ParsecConfig
    from cylc.flow.cfgspec.globalcfg import SPEC
    from cylc.flow.parsec.validate import cylc_config_validate
    from cylc.flow.platforms import validate_platforms
    os.makedirs(scratch, exist_ok=True)
    path = os.path.join(scratch, "global.cylc")
    with open(path, "w") as f:
        f.write(text)
    g = ParsecConfig(SPEC, validator=cylc_config_validate)
    g.loadcfg(path)
    validate_platforms(g.get(["platforms"]))
    if len(_cfg_cache) > 4000:
        _cfg_cache.clear()
    _cfg_cache[text] = g
    return g

def klass(c) -> str:
    """Stable input class for violation keys."""
    k = c["kind"]
    if k == "host":
        return f"host:{c['defs'][0]['method'].replace(' ', '-')}:{'default-host' if not c['defs'][0]['hosts'] else 'hosts%d' % len(c['defs'][0]['hosts'])}"
    if k == "group":
        return f"group:{c['group']['method'].replace(' ', '-')}"
    return "resolve"

def check_case(st, scratch, seed=0):
    import cylc.flow.platforms as P
    from cylc.flow.exceptions import NoHostsError, NoPlatformsError, PlatformLookupError
    c, exp = st["c"], st["exp"]
    out = []
    text = config_text(c)
    g = load_global(text, scratch)
    # the section headings must survive config parsing verbatim, else the oracle's pattern model does not apply
    got_pats = [p for p in g.get(["platforms"]) if p != "localhost"]
    if got_pats != [d["pat"] for d in c["defs"]]:
        raise RuntimeError(f"global config parser changed the platform definitions: {got_pats} vs {c['defs']}")
    saved = P.glbl_cfg
    P.glbl_cfg = lambda cached=False: g
    bad = set(c["bad"])
    kc = klass(c)
    descr = f"defs={[(d['pat'], list(d['hosts']), d['method']) for d in c['defs']]} " \
            f"group={list(c['group']['members'])}/{c['group']['method']} bad={sorted(bad)} query={c['query']!r}"
    try:
        reps = K_RANDOM if (c["kind"] != "resolve") else 1
        for r in range(reps):
            random.seed(seed * 1000 + r)
            # --- platform level
            try:
                plat = P.get_platform(c["query"], bad_hosts=set(bad))
                perr = "none"
            except NoPlatformsError:
                perr = "NoPlatformsError"
            except PlatformLookupError:
                perr = "PlatformLookupError"
            if perr != exp["perr"]:
                if exp["perr"] == "none":
                    out.append((f"{kc}:spurious-{perr}",
                                f"{descr}: raised {perr} although {sorted(exp['plats'])} is/are usable"))
                elif perr == "none":
                    out.append((f"{kc}:missing-{exp['perr']}",
                                f"{descr}: returned platform {plat['name']!r} hosts {plat['hosts']}, expected {exp['perr']}"))
                else:
                    out.append((f"{kc}:wrong-error", f"{descr}: raised {perr}, expected {exp['perr']}"))
                break
            if perr != "none":
                continue
            name = plat["name"]
            if name not in exp["plats"]:
                out.append((f"{kc}:dead-platform-selected",
                            f"{descr}: selected platform {name!r} (hosts {plat['hosts']}), all of whose hosts are "
                            f"unreachable, while {sorted(exp['plats'])} still has/have a reachable host"))
                break
            if exp["pfirst"] and name != exp["pfirst"]:
                out.append((f"{kc}:not-first-available",
                            f"{descr}: selected {name!r}, 'definition order' requires {exp['pfirst']!r}"))
                break
            sel = exp["sel"][name]
            if list(plat["hosts"]) != list(sel["hosts"]):
                out.append((f"{kc}:wrong-definition",
                            f"{descr}: platform {name!r} resolved to the definition with hosts {plat['hosts']}, expected "
                            f"definition #{sel['def']} ({c['defs'][sel['def'] - 1]['pat']!r}, the last one whose "
                            f"pattern fully matches) with hosts {list(sel['hosts'])}"))
                break
            # --- host level
            try:
                host = P.get_host_from_platform(plat, bad_hosts=set(bad))
                herr = False
            except NoHostsError:
                host, herr = None, True
            if herr != sel["herr"]:
                if herr:
                    out.append((f"{kc}:spurious-NoHostsError",
                                f"{descr}: NoHostsError although {sorted(sel['allowed'])} is/are reachable"))
                else:
                    out.append((f"{kc}:missing-NoHostsError",
                                f"{descr}: returned host {host!r} although every host of {name!r} is unreachable"))
                break
            if herr:
                continue
            if host not in sel["allowed"]:
                out.append((f"{kc}:bad-host-selected" if host in bad else f"{kc}:foreign-host-selected",
                            f"{descr}: selected host {host!r} for platform {name!r}; allowed {sorted(sel['allowed'])}"))
                break
            if sel["first"] and host != sel["first"]:
                out.append((f"{kc}:host-not-first-available",
                            f"{descr}: selected host {host!r}, 'definition order' requires {sel['first']!r}"))
                break
    finally:
        P.glbl_cfg = saved
    return out

def run(ctx):
    os.environ["HOME"] = os.path.join(ctx.scratch, "home")
    os.makedirs(os.environ["HOME"], exist_ok=True)
    states = _enumerate(ctx, "Platforms")
    states.sort(key=lambda s: repr(to_py(s["c"])))
    n = 0
    nontrivial = 0
    counts = {"host": 0, "resolve": 0, "group": 0}
    detail = {"host_cases_with_bad_host_in_platform": 0, "host_cases_all_hosts_bad": 0,
              "group_cases_with_dead_member_and_live_member": 0, "group_cases_all_dead": 0,
              "resolve_cases_with_several_matching_definitions": 0, "resolve_cases_no_match": 0,
              "resolve_cases_prefix_only_match_present": 0}
    samples = []
    for st in states:
        c, exp = st["c"], st["exp"]
        n += 1
        counts[c["kind"]] += 1
        nt = False
        if c["kind"] == "host":
            hosts = set(exp["sel"]["p1"]["hosts"])
            if hosts & set(c["bad"]) and not exp["sel"]["p1"]["herr"]:
                detail["host_cases_with_bad_host_in_platform"] += 1; nt = True
            if exp["sel"]["p1"]["herr"]:
                detail["host_cases_all_hosts_bad"] += 1; nt = True
        elif c["kind"] == "group":
            members = set(c["group"]["members"])
            if exp["perr"] != "none":
                detail["group_cases_all_dead"] += 1; nt = True
            elif exp["plats"] != members:
                detail["group_cases_with_dead_member_and_live_member"] += 1; nt = True
                if len(samples) < 2:
                    samples.append({"case": to_py(c), "allowed_platforms": sorted(exp["plats"])})
        else:
            if exp["perr"] != "none":
                detail["resolve_cases_no_match"] += 1
            if any(d["pat"] in ("p", "p1") and c["query"] == "p12" for d in c["defs"]):
                detail["resolve_cases_prefix_only_match_present"] += 1; nt = True
            if exp["perr"] == "none" and exp["sel"][c["query"]]["def"] < len(c["defs"]):
                nt = True
            if exp["perr"] == "none" and exp["sel"][c["query"]]["def"] > 1:
                detail["resolve_cases_with_several_matching_definitions"] += 1
                if len(samples) < 4 and len(c["defs"]) == 3 and exp["sel"][c["query"]]["def"] == 2:
                    samples.append({"defs": [d["pat"] for d in c["defs"]], "query": c["query"], "resolves_to": 2})
        nontrivial += nt
        for key, text in check_case(st, os.path.join(ctx.scratch, "glbl"), ctx.seed):
            ctx.violation(key, text, {"case": to_py(st)})
    oracle.finish_cov(ctx, n, nontrivial,
                      "every case enumerated by TLC from Platforms.tla: (host) 1 platform x every ordered host list over "
                      "{h1,h2,h3} or default host x method x every bad-host set; (resolve) every ordered choice of 1..3 "
                      "distinct name patterns out of 12 (literals, comma lists, regexes, prefix-only matches) x 5 query names; "
                      "(group) 4 definition sets x every ordered member list over {p1,p2,p3} x method x every bad-host set; "
                      "non-trivial = a bad host/dead member must be avoided, an error must be raised, or a later/earlier "
                      "definition must (not) win",
                      samples, exhaustive=True)
    ctx.coverage.update({"cases_by_kind": counts, **detail, "random_repetitions_per_case": K_RANDOM,
                         "oracle_invariants_checked_by_tlc": ["NeverBad", "GroupNeverDead", "NoBadAllAllowed",
                                                              "LastMatchWins"]})
    ctx.assumptions += ["name patterns are modelled by the set of the 5 query names they fully match (PatMatch table in "
                        "Platforms.tla, written from regex semantics); other regex features are not covered",
                        "random selection is sampled K times with a seeded global `random`; a bad choice that the code "
                        "would make only with small probability could be missed (the allowed-set check is exact for "
                        "'definition order')",
                        "platform definitions go through the real global-config parser; section headings ending in ']' "
                        "(e.g. p[12]) are rejected by that parser and therefore not enumerated",
                        "subshell platforms, Cylc 7 host/batch-system upgrade logic and remote host selection rankings "
                        "(host_select.py select_host) are outside this property"]

def replay(ctx, data):
    from harness.tlaparse import FrozenDict
    os.environ["HOME"] = os.path.join(ctx.scratch, "home")
    os.makedirs(os.environ["HOME"], exist_ok=True)
    import copy
    st = copy.deepcopy(data["replay"]["case"])
    c, exp = st["c"], st["exp"]
    c["bad"] = frozenset(c["bad"]); exp["plats"] = frozenset(exp["plats"])
    if isinstance(exp["sel"], dict):
        for m in exp["sel"].values():
            m["allowed"] = frozenset(m["allowed"])
    else:
        exp["sel"] = {}
    for key, text in check_case(st, os.path.join(ctx.scratch, "glbl"), data.get("seed", 0)):
        ctx.violation(key, text, {"case": data["replay"]["case"]})
    ctx.coverage.update({"states": 1, "transitions": 1, "traces_validated_against_impl": 1, "samples": [to_py(c)]})
