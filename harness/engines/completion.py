"""C11 (function half): TaskOutputs.is_complete() == the documented completion rule.

Oracle = spec/oracle/Completion.tla (which EXTENDS BoolExpr.tla).  TLC enumerates task definitions - graph
declarations (required / optional / not mentioned) of succeeded, failed, x, y, expired, submit-failed, submitted,
with or without a user completion expression - and computes for each the set of subsets of completed outputs on
which the task is complete (DefaultComplete transcribed from the documented rules, Eval for user expressions).
The harness writes the definitions into generated flow.cylc files (many tasks per file), loads them with the real
WorkflowConfig, builds the real TaskOutputs from the real TaskDef and compares is_complete() with TLC's value
for all 128 subsets of every definition.

`check_function_half(ctx)` is reusable: the scheduler engine adds the runtime half of C11 (removed from the
pool iff complete) on top of it.
"""
from __future__ import annotations
import os, re
from harness import oracle, common

VARS = ["succeeded", "failed", "x", "y", "expired", "submit_failed", "submitted"]   # = DeclSeq of BoolExpr.tla
TRIG = {v: v.replace("_", "-") for v in VARS}                                     # completion variable -> output name
MSG = {"x": "the x message", "y": "y-msg done"}                                   # custom outputs: message != name
FINALS = ["expired", "submit_failed", "failed", "succeeded"]
CHUNK = 120
PROCS = 8

FLOW = """[scheduler]
    allow implicit tasks = True
[scheduling]
    [[graph]]
        R1 = \"\"\"
{lines}
        \"\"\"
[runtime]
    [[root]]
        [[[outputs]]]
            x = "{mx}"
            y = "{my}"
{runtime}
"""


def decl_lines(task, code):
    """Graph lines that declare exactly the optionality `code` (one letter per VARS entry: r/o/u) for `task`."""
    out = []
    for v, m in zip(VARS, code):
        if m == "r":
            out.append(f"            {task}:{TRIG[v]} => zsink")
        elif m == "o":
            out.append(f"            {task}:{TRIG[v]}? => zsink")
    if not out:
        out.append(f"            zsrc => {task}")     # a right-hand-side mention declares nothing
    return out


def flow_text(defs):
    """defs: [(task, decl code, completion or '')]"""
    lines, runtime = [], []
    for task, code, src in defs:
        lines += decl_lines(task, code)
        if src:
            runtime.append(f"    [[{task}]]\n        completion = {src}")
    return FLOW.format(lines="\n".join(lines), mx=MSG["x"], my=MSG["y"], runtime="\n".join(runtime))


_n = [0]


def load_config(scratch, text):
    from cylc.flow.config import WorkflowConfig
    from cylc.flow.scheduler_cli import RunOptions
    _n[0] += 1
    d = os.path.join(scratch, f"flow-{os.getpid()}-{_n[0]}")
    os.makedirs(d, exist_ok=True)
    p = os.path.join(d, "flow.cylc")
    with open(p, "w") as f:
        f.write(text)
    return WorkflowConfig(f"verif{_n[0]}", p, options=RunOptions())


def load_defs(scratch, defs):
    """Load as many of defs as cylc accepts.  Returns ({task: TaskDef}, [(def, error text)])."""
    from cylc.flow.exceptions import CylcError
    if not defs:
        return {}, []
    try:
        cfg = load_config(scratch, flow_text(defs))
        return {t: cfg.taskdefs[t] for t, _, _ in defs}, []
    except CylcError as exc:
        if len(defs) == 1:
            return {}, [(defs[0], f"{type(exc).__name__}: {exc}")]
        h = len(defs) // 2
        a, ea = load_defs(scratch, defs[:h])
        b, eb = load_defs(scratch, defs[h:])
        a.update(b)
        return a, ea + eb


def complete_on(tdef):
    """The set of subset codes on which the real TaskOutputs of this TaskDef is complete."""
    from cylc.flow.task_outputs import TaskOutputs
    msgs = [MSG.get(v, TRIG[v]) for v in VARS]
    got = set()
    for code in range(128):
        outs = TaskOutputs(tdef)
        for i, m in enumerate(msgs):
            if code >> i & 1:
                if outs.set_message_complete(m) is None:
                    raise common.MachineryError(f"output message {m!r} not registered on {tdef.name}")
        r = outs.is_complete()
        if r:
            got.add(code)
    return got


def subset_names(code):
    return [TRIG[v] for i, v in enumerate(VARS) if code >> i & 1]


def mismatch_key(kind, decl, src, code, expected):
    S = {v for i, v in enumerate(VARS) if code >> i & 1}
    if kind == "user":
        skel = re.sub(r'\b(?!and\b|or\b)[a-z_]+\b', '_', src)
        return f"user-expr:{skel}:expected-{'complete' if expected else 'incomplete'}"
    m = dict(zip(VARS, decl))
    fin = next((f for f in FINALS if f in S), "no-final")
    rel = {"expired": f"expired={m['expired']}",
           "submit_failed": f"submitted={m['submitted']},submit_failed={m['submit_failed']}",
           "failed": f"succeeded={m['succeeded']},failed={m['failed']}",
           "succeeded": f"succeeded={m['succeeded']},failed={m['failed']}",
           "no-final": "-"}[fin]
    return f"default:{fin}:{rel}:expected-{'complete' if expected else 'incomplete'}"


def check_defs(scratch, items):
    """items: [(kind, decl code, src, truth list, required_to_load)].
    Returns (violations [(key, text, replay)], n_loaded, n_evals, rejected [(decl, src, err)], nontrivial)."""
    defs = [(f"t{i}", it[1], it[2]) for i, it in enumerate(items)]
    tdefs, errs = load_defs(scratch, defs)
    viol, evals, nontriv = [], 0, 0
    rejected = [(d[1], d[2], e) for d, e in errs]
    for i, (kind, decl, src, truth, _must) in enumerate(items):
        td = tdefs.get(f"t{i}")
        if td is None:
            continue
        truth = set(truth)
        if src and td.rtconfig["completion"] != src:
            raise common.MachineryError(f"completion of t{i} is {td.rtconfig['completion']!r}, wrote {src!r}")
        got = complete_on(td)
        evals += 128
        if 0 < len(truth) < 127 and len(truth) != 64:
            nontriv += 1
        diff = sorted(got ^ truth)
        if diff:
            code = diff[0]
            exp = code in truth
            what = f"user completion {src!r}" if src else f"default completion ({td.rtconfig['completion']!r})"
            viol.append((mismatch_key(kind, decl, src, code, exp),
                         f"task declared {dict((TRIG[v], m) for v, m in zip(VARS, decl) if m != 'u')} with {what}: "
                         f"is_complete() = {not exp} with completed outputs {subset_names(code)}, documented rule "
                         f"says {exp} ({len(diff)} of 128 subsets differ)",
                         {"kind": kind, "decl": decl, "src": src, "truth": sorted(truth)}))
    return viol, len(tdefs), evals, rejected, nontriv


def _work(args):
    scratch, items = args
    return check_defs(scratch, items)


def pmap(fn, items, procs, timeout=3000):
    """Fork-pool map with an overall timeout (a stuck pool is a machinery failure, never a hang)."""
    import multiprocessing as mp
    if procs <= 1 or len(items) <= 1:
        return [fn(x) for x in items]
    pool = mp.get_context("fork").Pool(min(procs, len(items)))
    try:
        res = pool.map_async(fn, items, 1).get(timeout)
        pool.close()
        return res
    except mp.TimeoutError:
        raise common.MachineryError(f"worker pool did not finish within {timeout}s")
    finally:
        pool.terminate()


def gather_items(states):
    """Flatten TLC batches into work items; strict declarations must load, candidates may."""
    items = []
    n_cases = 0
    for st in states:
        for c in st["batch"]:
            n_cases += 1
            kind, a, src, cand, truth = c
            truth = sorted(truth)
            if kind == "default":
                items.append((kind, a, "", truth, True))
            else:
                for d in sorted(a):
                    items.append((kind, d, src, truth, True))
                for d in sorted(cand):
                    items.append((kind, d, src, truth, False))
    items.sort(key=lambda it: (it[0], it[2], it[1]))
    return items, n_cases


def check_function_half(ctx):
    """Run the function half of C11; reports violations on ctx and returns a stats dict."""
    states = oracle.enumerate_cases(ctx, "Completion", "Completion" if ctx.quick else "Completion_thorough",
                                    workers=2)
    items, n_cases = gather_items(states)
    chunks = [(ctx.scratch, items[i:i + CHUNK]) for i in range(0, len(items), CHUNK)]
    results = pmap(_work, chunks, PROCS)
    n_loaded = evals = nontriv = 0
    rejected_must, rejected_cand = [], 0
    must = {(it[1], it[2]) for it in items if it[4]}
    for viol, nl, ev, rej, nt in results:
        n_loaded += nl
        evals += ev
        nontriv += nt
        for key, text, rp in viol:
            ctx.violation(key, text, rp)
        for decl, src, err in rej:
            if (decl, src) in must:
                rejected_must.append((decl, src, err))
            else:
                rejected_cand += 1
    bad_default = [r for r in rejected_must if not r[1]]
    if bad_default:
        raise common.MachineryError(f"cylc rejected a plain graph declaration the oracle considers legal: {bad_default[:3]}")
    if len(rejected_must) * 2 > max(1, len(must)):
        raise common.MachineryError(f"more than half of the valid user definitions were rejected: {rejected_must[:3]}")
    n_default = sum(1 for it in items if it[0] == "default")
    stats = {"task_definitions_enumerated": n_cases, "definitions_loaded": n_loaded, "default_definitions": n_default,
             "user_definitions_loaded": n_loaded - n_default, "is_complete_evaluations": evals,
             "user_definitions_rejected_though_strictly_consistent": len(rejected_must),
             "candidate_definitions_rejected_by_cylc": rejected_cand}
    if rejected_must:
        ctx.notes.append(f"C11 note: {len(rejected_must)} user definitions that are consistent under every reading were "
                         f"rejected by validation (checked by C12), e.g. {rejected_must[0]}")
    samples = [{"declared": {TRIG[v]: m for v, m in zip(VARS, it[1]) if m != "u"}, "completion": it[2] or "(default)",
                "complete_on": f"{len(it[3])}/128 subsets"} for it in (items[::max(1, len(items) // 4)])[:4]]
    ctx.coverage["function_half"] = stats
    oracle.finish_cov(ctx, n_loaded, nontriv,
                      "every legal graph declaration (r/o/unset) of succeeded, failed, x, y, expired, submit-failed, "
                      "submitted without a user expression (540), plus user and/or expressions (all <= 2 leaves over the 7 "
                      "variables under every strictly consistent declaration, 3 leaves over succeeded/failed/x under one "
                      "declaration; thorough: one leaf more, expired added), each x all 128 subsets of completed outputs; non-trivial = "
                      "definitions whose complete-set is not a single-variable cut",
                      samples, exhaustive=True)
    ctx.coverage["evaluations"] = ctx.coverage.get("evaluations", 0) - n_loaded + evals
    ctx.assumptions += [
        "function half only: TaskOutputs.is_complete() on TaskDefs built by the real WorkflowConfig; the pool-removal half "
        "of C11 is checked by the scheduler engine",
        "`a:submit? => b` (submission optional) is read as tolerating submit-failure, like succeeded?/failed for failure",
        "with failure tolerated the documented 'required outputs' are required of a task that succeeds "
        "((required and succeeded) or failed)",
        "user expressions are only evaluated on definitions that validation accepts; the `started` output is never completed",
    ]
    return stats


def run(ctx):
    check_function_half(ctx)


def replay(ctx, data):
    rp = data["replay"]
    viol, nl, ev, rej, nt = check_defs(ctx.scratch, [(rp["kind"], rp["decl"], rp["src"], rp["truth"], True)])
    if rej:
        raise common.MachineryError(f"definition no longer loads: {rej}")
    for key, text, r in viol:
        ctx.violation(key, text, r)
    ctx.coverage.update({"states": 1, "transitions": 1, "traces_validated_against_impl": 1, "evaluations": ev,
                         "samples": [rp]})
