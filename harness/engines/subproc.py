"""C42: the subprocess pool runs every command once, within its bounds.

Spec: spec/SubProc.tla (state machine: Put / Process / SetStopping / Close / Terminate + environment actions Exit and
Timeout; callback sequence per command).
1. TLC model-checks C42_ExactlyOneCallback (safety; liveness C42_EventuallyCallback under fairness),
   C42_DrainedAllCalledBack, C42_SizeBound, C42_NoSubmitWhenStopping exhaustively (spec/mc/MC_SubProc*.cfg).
2. TLC-generated behaviours (edge cover of the dumped state graph of the 2-command model + `-simulate` traces of the
   3/4-command model) are replayed on the REAL cylc.flow.subprocpool.SubProcPool with real child processes.  Each
   child blocks reading a FIFO, so the harness decides when and with which return code it exits (no sleeping: the
   harness waits for the exit with waitid(WNOWAIT)); `time` as seen by subprocpool is a virtual clock, so timeouts
   are exact.  After every step queue, running list, flags and the callbacks delivered (which callback, return code,
   order) are compared with the TLC state.
"""
from __future__ import annotations
import json, os, re, shutil, signal, subprocess, sys
from harness import tlc, tlaparse

SPEC = os.path.join(tlc.SPEC_DIR, "SubProc.tla")
CFG = lambda name: os.path.join(tlc.SPEC_DIR, "mc", name + ".cfg")  # noqa: E731

# ------------------------------------------------------------------------------------------------------------------
# TLC behaviour generation helpers (kept inside the engine file by contract)

def _dot_unescape(s: str) -> str:
    out, i = [], 0
    while i < len(s):
        c = s[i]
        if c == "\\" and i + 1 < len(s):
            n = s[i + 1]
            out.append({"n": "\n", '"': '"', "\\": "\\"}.get(n, "\\" + n))
            i += 2
        else:
            out.append(c)
            i += 1
    return "".join(out)

_NODE = re.compile(r'^(-?\d+) \[label="((?:[^"\\]|\\.)*)"(.*)$')
_EDGE = re.compile(r'^(-?\d+) -> (-?\d+) \[label="([^"]*)"')

def load_dot(path):
    """Parse a TLC `-dump dot,actionlabels` file -> (states {id: {var: value}}, succ {id: [id]}, [initial ids]).
    Node ids are made canonical (rank of the state's text), so the result does not depend on TLC's fingerprint
    seed or worker scheduling."""
    label, edges, init_raw = {}, [], []
    with open(path) as f:
        for line in f:
            m = _EDGE.match(line)
            if m:
                edges.append((m.group(1), m.group(2)))
                continue
            m = _NODE.match(line)
            if m:
                label[m.group(1)] = m.group(2)
                if "style = filled" in m.group(3):
                    init_raw.append(m.group(1))
    rank = {nid: i for i, (nid, _) in enumerate(sorted(label.items(), key=lambda kv: kv[1]))}
    states = {rank[nid]: tlaparse.parse_conj(_dot_unescape(txt)) for nid, txt in label.items()}
    succ = {}
    for a, b in sorted({(rank[a], rank[b]) for a, b in edges}):
        succ.setdefault(a, []).append(b)
    return states, succ, sorted(rank[i] for i in init_raw)

def edge_cover(inits, succ, rng, max_steps, max_len=64):
    """Paths (lists of node ids, each starting at an initial state) that together traverse every edge of the graph,
    or as many as `max_steps` allows (edges taken in seeded-random order).  Returns (paths, n_edges, n_covered)."""
    from collections import deque
    todo = {a: list(bs) for a, bs in succ.items()}
    for a in sorted(todo):
        rng.shuffle(todo[a])
    n_edges = sum(len(v) for v in todo.values())
    covered = 0
    steps = 0
    paths = []

    def nearest(src):
        """shortest path from src to a node that still has an untaken out-edge"""
        seen = {src: None}
        dq = deque([src])
        while dq:
            x = dq.popleft()
            if todo.get(x):
                p = []
                while x is not None:
                    p.append(x)
                    x = seen[x]
                return p[::-1]
            for y in succ.get(x, ()):
                if y not in seen:
                    seen[y] = x
                    dq.append(y)
        return None

    while covered < n_edges and steps < max_steps:
        start = None
        for i in inits:
            p = nearest(i)
            if p:
                start = p
                break
        if not start:
            break
        path = list(start)
        while len(path) < max_len:
            cur = path[-1]
            if todo.get(cur):
                nxt = todo[cur].pop()
                covered += 1
                path.append(nxt)
                continue
            p = nearest(cur)
            if not p or len(path) + len(p) - 1 > max_len:
                break
            path.extend(p[1:])
        steps += len(path) - 1
        paths.append(path)
    return paths, n_edges, covered

_SIM_STATE = re.compile(r'^STATE_(\d+) ==\s*$', re.M)

def load_sim_traces(dirname):
    """Parse the files written by `tlc -simulate file=<dir>/tr,num=N` -> list of traces (lists of state dicts)."""
    traces = []
    def order(fn):
        return tuple(int(x) for x in re.findall(r'\d+', fn))
    for fn in sorted(os.listdir(dirname), key=order):
        txt = open(os.path.join(dirname, fn)).read()
        ms = list(_SIM_STATE.finditer(txt))
        tr = []
        for i, m in enumerate(ms):
            end = ms[i + 1].start() if i + 1 < len(ms) else len(txt)
            body = txt[m.end():end]
            body = re.sub(r'^\\\*.*$', '', body, flags=re.M)          # action comment lines
            body = re.sub(r'^=+\s*$', '', body, flags=re.M).strip()
            tr.append(tlaparse.parse_conj(body))
        if tr:
            traces.append(tr)
    return traces

def run_model(cfg, *, extra=None, timeout=1500, workers=16, heap="6g"):
    """Run TLC on SPEC with spec/mc/<cfg>.cfg; a violated clause in the *specification* is a machinery failure."""
    res = tlc.run_tlc(SPEC, CFG(cfg), workers=workers, timeout=timeout, extra=extra or [], heap=heap)
    if not res.ok:
        if res.kind in ("invariant", "property"):
            raise tlc.TLCError(f"model {cfg}: {res.kind} {res.violated} violated by the specification itself\n{res.out[-3000:]}")
        raise tlc.TLCError(f"model {cfg} did not check cleanly: {res.kind}\n{res.out[-3000:]}")
    res.cfg = cfg
    res.mode = "simulate" if extra and "-simulate" in extra else "exhaustive"
    return res

def record_model(ctx, res):
    cov = ctx.coverage
    cov["states"] = cov.get("states", 0) + res.distinct
    cov["transitions"] = cov.get("transitions", 0) + res.generated
    cov.setdefault("tlc_models", []).append({"cfg": res.cfg, "distinct": res.distinct, "generated": res.generated,
                                             "depth": res.depth, "wall_s": round(res.wall_s, 2), "mode": res.mode})
    return res

def check_model(ctx, cfg, **kw):
    return record_model(ctx, run_model(cfg, **kw))

class BackgroundModel:
    """Run an exhaustive TLC check in a thread while behaviours are replayed; join() re-raises its failure."""
    def __init__(self, cfg, **kw):
        import threading
        self.res = self.exc = None
        def work():
            try:
                self.res = run_model(cfg, **kw)
            except BaseException as e:   # noqa: BLE001 - re-raised in join
                self.exc = e
        self.t = threading.Thread(target=work, daemon=True)
        self.t.start()
    def join(self, ctx):
        self.t.join()
        if self.exc is not None:
            raise self.exc
        return record_model(ctx, self.res)

# ------------------------------------------------------------------------------------------------------------------
# abstraction

def _seq(v):
    return list(v) if isinstance(v, tuple) else []

def _fired(v):
    return [[int(f[0]), str(f[1]), int(f[2])] for f in _seq(v)]

def abs_state(st):
    n = st["nput"]
    cbs = st["cbs"]
    if isinstance(cbs, tuple):            # function over 1..N prints as a tuple
        cbs = {i + 1: x for i, x in enumerate(cbs)}
    return {"queue": _seq(st["queue"]), "running": _seq(st["running"]), "stopping": bool(st["stopping"]),
            "closed": bool(st["closed"]),
            "cbs": {str(c): [[str(w), int(rc)] for (w, rc) in _seq(cbs[c])] for c in range(1, n + 1)}}

def abs_act(a):
    name = str(a["name"])
    out = {"name": name}
    if name == "Init":
        out["size"] = a["size"]
    elif name == "Put":
        out.update(c=a["c"], k=str(a["k"]), fired=_fired(a["fired"]))
    elif name in ("Process", "Terminate"):
        out["fired"] = _fired(a["fired"])
    elif name == "Exit":
        out.update(c=a["c"], rc=a["rc"])
    elif name == "Timeout":
        out["c"] = a["c"]
    return out

def behaviour_of(states):
    return [{"act": abs_act(s["act"]), "exp": abs_state(s)} for s in states]

def _fmt_act(a):
    n = a["name"]
    if n == "Init":
        return f"pool(size={a['size']})"
    if n == "Put":
        return f"put(cmd{a['c']}:{a['k']})"
    if n == "Exit":
        return f"cmd{a['c']} exits {a['rc']}"
    if n == "Timeout":
        return f"clock passes timeout of cmd{a['c']}"
    return {"Process": "process()", "SetStopping": "set_stopping()", "Close": "close()", "Terminate": "terminate()"}[n]

# ------------------------------------------------------------------------------------------------------------------
# the real pool, with controllable children and a virtual clock

class HarnessStuck(Exception):
    pass

def _alarm(signum, frame):
    raise HarnessStuck("a controlled child did not react within 30 s")

class PoolWorld:
    current = None
    _patched = False
    TIMEOUT = 1000.0

    def __init__(self, scratch):
        self.base = os.path.join(scratch, "subproc-world")
        os.makedirs(self.base, exist_ok=True)
        os.environ.setdefault("HOME", scratch)
        self.bin = os.path.join(self.base, "bin")
        if not os.path.isdir(self.bin):
            os.makedirs(self.bin)
            with open(os.path.join(self.bin, "ssh"), "w") as f:      # stand-in `ssh`: exit code comes through the FIFO
                f.write('#!/bin/sh\nread x < "$1"\nexit "$x"\n')
            os.chmod(os.path.join(self.bin, "ssh"), 0o755)
        import logging
        logging.getLogger("cylc").setLevel(logging.CRITICAL + 1)
        import cylc.flow.subprocpool as spm
        self.spm = spm
        if not PoolWorld._patched:
            PoolWorld._orig_killpg = spm._killpg
            PoolWorld._orig_procopen = spm.procopen
            spm.time = lambda: PoolWorld.current.now
            spm._killpg = lambda proc, sig: PoolWorld.current._killpg(proc, sig)
            spm.procopen = lambda *a, **kw: PoolWorld.current._procopen(*a, **kw)
            PoolWorld._patched = True
        self.n = 0
        self.pool = None

    # -- patched primitives --------------------------------------------------------------------------------------
    def _killpg(self, proc, sig):
        """the real kill, made synchronous: wait (without reaping) until the child is dead"""
        ok = PoolWorld._orig_killpg(proc, sig)
        if ok:
            os.waitid(os.P_PID, proc.pid, os.WEXITED | os.WNOWAIT)
        return ok

    def _procopen(self, cmd, *a, **kw):
        c = self.by_fifo.get(cmd[-1])
        live = sum(1 for p in self.procs.values() if p.returncode is None)
        if live + 1 > self.pool.size or len(self.pool.runnings) + 1 > self.pool.size:
            self.flags.append(("C42_SizeBound", f"cmd{c} launched while {live} children were alive / "
                               f"{len(self.pool.runnings)} in runnings (size {self.pool.size})"))
        if c is not None and self.kinds[c] == "submit" and self.pool.stopping:
            self.flags.append(("C42_NoSubmitWhenStopping", f"jobs-submit command cmd{c} launched while the pool is stopping"))
        self.now += 1.0            # every launch happens at its own instant => distinct timeouts in start order
        proc = PoolWorld._orig_procopen(cmd, *a, **kw)
        if c is not None:
            self.procs[c] = proc
        return proc

    # -- life cycle ----------------------------------------------------------------------------------------------
    def reset(self, size):
        self.cleanup()
        PoolWorld.current = self
        self.n += 1
        self.dir = os.path.join(self.base, f"b{self.n}")
        os.makedirs(self.dir)
        self.now = 1000.0
        self.pool = self.spm.SubProcPool()
        self.pool.size = size
        self.pool.proc_pool_timeout = self.TIMEOUT
        self.ctxs, self.kinds, self.procs, self.by_fifo = {}, {}, {}, {}
        self.cbs = {}
        self.step_fired = []
        self.flags = []
        self.terminated = False

    def cleanup(self):
        if self.pool is None:
            return
        for c, proc in self.procs.items():
            if proc.returncode is None:
                try:
                    os.killpg(proc.pid, signal.SIGKILL)
                except (ProcessLookupError, PermissionError):
                    pass
                proc.wait()
            for h in (proc.stdout, proc.stderr):
                if h and not h.closed:
                    h.close()
        if not self.terminated:
            try:
                self.pool.pipepoller.close()
            except Exception:
                pass
        shutil.rmtree(self.dir, ignore_errors=True)
        self.pool = None

    # -- callbacks -----------------------------------------------------------------------------------------------
    def _cb(self, ctx, c):
        self.cbs.setdefault(c, []).append(["cb", ctx.ret_code])
        self.step_fired.append([c, "cb", ctx.ret_code])

    def _cb255(self, ctx, c):
        self.cbs.setdefault(c, []).append(["cb255", ctx.ret_code])
        self.step_fired.append([c, "cb255", ctx.ret_code])

    # -- actions -------------------------------------------------------------------------------------------------
    def apply(self, act):
        from cylc.flow.subprocctx import SubProcContext
        name = act["name"]
        self.step_fired = []
        if name == "Put":
            c, k = act["c"], act["k"]
            fifo = os.path.join(self.dir, f"fifo{c}")
            os.mkfifo(fifo)
            kw = {}
            if k == "ssh":
                cmd = ["ssh", fifo]
                kw["env"] = dict(os.environ, PATH=self.bin + os.pathsep + os.environ.get("PATH", ""))
            elif k == "badexec":
                cmd = [os.path.join(self.dir, "no-such-executable"), fifo]
            else:
                cmd = ["/bin/sh", "-c", 'read x < "$1"; exit "$x"', "sh", fifo]
            ctx = SubProcContext("jobs-submit" if k == "submit" else f"verif-{k}", cmd,
                                 host="elsewhere" if k == "ssh" else "localhost", **kw)
            self.ctxs[c], self.kinds[c], self.by_fifo[fifo] = ctx, k, c
            self.pool.put_command(ctx, bad_hosts=set(), callback=self._cb, callback_args=[c],
                                  callback_255=self._cb255 if k == "ssh" else None,
                                  callback_255_args=[c] if k == "ssh" else None)
        elif name == "Process":
            self.pool.process()
        elif name == "SetStopping":
            self.pool.set_stopping()
        elif name == "Close":
            self.pool.close()
        elif name == "Terminate":
            self.pool.terminate()
            self.terminated = True
        elif name == "Exit":
            c = act["c"]
            proc = self.procs[c]
            fifo = os.path.join(self.dir, f"fifo{c}")
            old = signal.signal(signal.SIGALRM, _alarm)
            signal.alarm(30)
            try:
                with open(fifo, "w") as f:         # blocks until the child has opened its end
                    f.write(f"{act['rc']}\n")
                os.waitid(os.P_PID, proc.pid, os.WEXITED | os.WNOWAIT)     # dead, but left for the pool to reap
            finally:
                signal.alarm(0)
                signal.signal(signal.SIGALRM, old)
        elif name == "Timeout":
            self.now = max(self.now, self.ctxs[act["c"]].timeout + 0.5)
        elif name != "Init":
            raise ValueError(name)

    # -- observation ---------------------------------------------------------------------------------------------
    def observe(self):
        ident = {id(ctx): c for c, ctx in self.ctxs.items()}
        return {"queue": [ident[id(q[0])] for q in self.pool.queuings],
                "running": [ident[id(r[1])] for r in self.pool.runnings],
                "stopping": bool(self.pool.stopping), "closed": bool(self.pool.closed),
                "cbs": {str(c): self.cbs.get(c, []) for c in sorted(self.ctxs)}}

# ------------------------------------------------------------------------------------------------------------------

def replay_behaviour(world, steps):
    """Replay one behaviour on a fresh pool.  Returns ([(key, text, failing_index)], stats)."""
    world.reset(steps[0]["act"]["size"])
    out = []
    forgiven = set()           # commands whose missing callback has already been reported
    stats = {"steps": 0, "launched": 0, "callbacks": 0, "drops": 0, "nt": []}
    try:
        for i, st in enumerate(steps):
            act, exp = st["act"], st["exp"]
            world.apply(act)
            stats["steps"] += 1
            got = world.observe()
            for key, text in world.flags:
                out.append((f"{key}:{act['name']}", text, i))
            world.flags = []
            fired_exp = act.get("fired", [])
            fired_got = world.step_fired
            stats["callbacks"] += len(fired_got)
            if fired_got or act.get("fired"):
                stats["nt"].append(i)
            if act["name"] in ("Process", "Terminate"):
                dropped = [f for f in fired_exp if f[2] == 999]
                stats["drops"] += len(dropped)
                missing = [f for f in dropped if f not in fired_got]
                gone = all(f[0] not in got["queue"] and f[0] not in got["running"] for f in missing)
                if missing and gone and [f for f in fired_exp if f not in missing] == fired_got:
                    kinds = sorted({world.kinds[f[0]] for f in missing})
                    if act["name"] == "Process":
                        key = "C42_ExactlyOneCallback:no-callback:queued-jobs-submit-dropped-by-process-when-stopping"
                        text = ("process() on a stopping pool removed queued jobs-submit command(s) "
                                f"{['cmd%d' % f[0] for f in missing]} from the queue (ret code 999) without calling their callback; "
                                "they will never get one")
                    else:
                        key = "C42_ExactlyOneCallback:no-callback:queued-command-dropped-by-terminate"
                        text = (f"terminate() drained queued command(s) {['cmd%d' % f[0] for f in missing]} (kinds {kinds}, ret code 999) "
                                "without calling their callback; they will never get one")
                    out.append((key, text, i))
                    forgiven |= {f[0] for f in missing}
                    fired_exp = fired_got
            if fired_exp != fired_got:
                dup = [c for c, v in got["cbs"].items() if len(v) > 1]
                key = (f"C42_ExactlyOneCallback:duplicate:{act['name']}" if dup else
                       f"C42_ExactlyOneCallback:callbacks-differ:{act['name']}")
                out.append((key, f"after {_fmt_act(act)} the callbacks delivered in this step were {fired_got}, "
                                 f"the specification delivers {fired_exp} ([cmd, callback, ret code])", i))
                break
            exp_cmp = dict(exp, cbs={c: v for c, v in exp["cbs"].items() if int(c) not in forgiven})
            got_cmp = dict(got, cbs={c: v for c, v in got["cbs"].items() if int(c) not in forgiven})
            if exp_cmp != got_cmp:
                comp = [k for k in exp_cmp if exp_cmp[k] != got_cmp.get(k)]
                clause = "C42_SizeBound" if len(got["running"]) > world.pool.size else "C42_Conformance"
                out.append((f"{clause}:{'+'.join(comp)}:{act['name']}",
                            f"after {_fmt_act(act)} the pool state differs in {comp}: expected {exp_cmp} got {got_cmp}", i))
                break
        stats["launched"] = len(world.procs)
    finally:
        world.cleanup()
    return out, stats

def worker(inp, outp, scratch):
    """Entry point of a replay worker process: a small process, so that launching children (fork) stays cheap."""
    with open(inp) as f:
        behaviours = json.load(f)
    os.makedirs(scratch, exist_ok=True)
    world = PoolWorld(scratch)
    results = [replay_behaviour(world, steps) for steps in behaviours]
    with open(outp, "w") as f:
        json.dump(results, f)

def replay_parallel(ctx, behaviours, nproc):
    """Replay behaviours in `nproc` worker processes; returns [(violations, stats)] in the order of `behaviours`."""
    verif = os.path.dirname(os.path.dirname(os.path.dirname(os.path.abspath(__file__))))
    code = ("import sys; sys.path.insert(0, %r); from harness.engines import subproc; "
            "subproc.worker(sys.argv[1], sys.argv[2], sys.argv[3])" % verif)
    jobs = []
    for i in range(nproc):
        chunk = behaviours[i::nproc]
        if not chunk:
            continue
        inp, outp = os.path.join(ctx.scratch, f"sp-in{i}.json"), os.path.join(ctx.scratch, f"sp-out{i}.json")
        with open(inp, "w") as f:
            json.dump(chunk, f)
        p = subprocess.Popen([sys.executable, "-c", code, inp, outp, os.path.join(ctx.scratch, f"sp-w{i}")],
                             stdout=subprocess.PIPE, stderr=subprocess.STDOUT, text=True)
        jobs.append((i, p, outp))
    results = [None] * len(behaviours)
    for i, p, outp in jobs:
        out, _ = p.communicate()
        if p.returncode != 0:
            raise RuntimeError(f"replay worker {i} failed:\n{out[-3000:]}")
        with open(outp) as f:
            for j, r in enumerate(json.load(f)):
                results[i + j * nproc] = r
    return results

def _sim(ctx, cfg, n, depth):
    simdir = os.path.join(ctx.scratch, f"subproc-sim-{cfg}")
    os.makedirs(simdir)
    check_model(ctx, cfg, workers=1,
                extra=["-simulate", f"file={simdir}/tr,num={n}", "-depth", str(depth), "-seed", str(4200 + ctx.seed)])
    return [behaviour_of(tr) for tr in load_sim_traces(simdir)]

def run(ctx):
    quick = ctx.quick
    bg = BackgroundModel("MC_SubProc" if quick else "MC_SubProc_thorough", timeout=3000)
    bg2 = None if quick else BackgroundModel("MC_SubProc", timeout=3000)     # liveness on the 3-command model
    try:
        dot = os.path.join(ctx.scratch, "subproc-walk")
        check_model(ctx, "MC_SubProc_walk", extra=["-dump", "dot,actionlabels", dot])
        states, succ, inits = load_dot(dot + ".dot")
        paths, n_edges, n_cov = edge_cover(inits, succ, ctx.rng, max_steps=5000 if quick else 10**9)
        behaviours = [behaviour_of([states[n] for n in p]) for p in paths]
        n_sim = 100 if quick else 4000
        behaviours += _sim(ctx, "MC_SubProc" if quick else "MC_SubProc_thorough", n_sim, 16 if quick else 20)
        del states, succ
        found = {}
        acts = {}
        for b in behaviours:
            for st in b:
                acts[st["act"]["name"]] = acts.get(st["act"]["name"], 0) + 1
        ctx.coverage["actions_replayed"] = acts
        tot = {"steps": 0, "launched": 0, "callbacks": 0, "drops": 0}
        nontrivial = set()
        for steps, (res, stats) in zip(behaviours, replay_parallel(ctx, behaviours, 4 if quick else 8)):
            for k in tot:
                tot[k] += stats[k]
            for i in stats["nt"]:
                nontrivial.add(hash(json.dumps([x["act"] for x in steps[: i + 1]], sort_keys=True)))
            for key, text, idx in res:
                rank = (idx, len(json.dumps([x["act"] for x in steps[: idx + 1]])))
                if key not in found or rank < found[key][1]:
                    found[key] = (text, rank, steps[: idx + 1])
        for key, (text, rank, steps) in sorted(found.items()):
            hist = " ; ".join(_fmt_act(s["act"]) for s in steps)
            ctx.violation(key, f"{text}\n  history: {hist}", {"steps": steps})
    finally:
        bg.t.join()
        if bg2:
            bg2.t.join()
    bg.join(ctx)
    if bg2:
        bg2.join(ctx)
    cov = ctx.coverage
    cov["traces_validated_against_impl"] = len(behaviours)
    cov["evaluations"] = tot["steps"]
    cov["distinct_nontrivial"] = len(nontrivial)
    cov["rule"] = ("behaviours = seeded edge cover of the dumped state graph of MC_SubProc_walk (2 commands, sizes 1-2; "
                   f"{n_cov}/{n_edges} transitions covered) + {n_sim} `tlc -simulate` traces of the larger model; every step runs on "
                   "the real SubProcPool with real child processes; evaluations = replayed steps; distinct_nontrivial = distinct "
                   f"histories ending in a step that delivers (or must deliver) a callback; {tot['callbacks']} callbacks observed and "
                   f"compared, {tot['launched']} children launched, {tot['drops']} specified 999-callbacks for commands dropped from "
                   "the queue by process()/terminate()")
    cov["samples"] = [[_fmt_act(s["act"]) for s in b] for b in behaviours[:: max(1, len(behaviours) // 4)][:4]]
    cov["exhaustive"] = (n_cov == n_edges)
    cov["checker_cmd"] = "tlc MC_SubProc*.cfg (exhaustive incl. liveness; -dump dot; -simulate) + replay on cylc.flow.subprocpool.SubProcPool"
    ctx.assumptions += [
        "SIGKILL delivery is made synchronous (the harness waits inside the patched _killpg until the child is dead), so "
        "a killed child is always seen as exited by the poll() that follows; kill latency is not explored",
        "subprocpool.time is a virtual clock advanced by the harness; every child gets the same time allowance "
        "(process pool timeout), so passing one child's timeout passes that of every child started earlier",
        "quick/slow/failing/timing-out commands are the environment's choices in the model (Exit rc 0/1/255 at any point, or "
        "Timeout); kinds that change the pool's own behaviour: plain, jobs-submit, ssh (+callback_255), unlaunchable",
    ]

def replay(ctx, data):
    steps = data["replay"]["steps"]
    world = PoolWorld(ctx.scratch)
    res, stats = replay_behaviour(world, steps)
    for key, text, idx in res:
        hist = " ; ".join(_fmt_act(s["act"]) for s in steps[: idx + 1])
        ctx.violation(key, f"{text}\n  history: {hist}", {"steps": steps[: idx + 1]})
    ctx.coverage.update({"states": len(steps), "transitions": len(steps) - 1, "traces_validated_against_impl": 1,
                         "evaluations": stats["steps"], "samples": [[_fmt_act(s["act"]) for s in steps]]})
