"""C22: broadcasts override in precedence order and persist exactly.

Spec: spec/Bcast.tla (state machine: Put / Clear / Expire / Commit / Restart over broadcasts[point][namespace],
the queue of pending DB deletes/inserts and the committed broadcast_states table).
1. TLC model-checks the named clauses (C22_Precedence, C22_ClearExact, C22_ExpireOnlyEarlierCycle,
   C22_RestartIdentical) exhaustively for the constants in spec/mc/MC_Bcast*.cfg.
2. TLC-generated behaviours (an edge cover of the dumped state graph of the small model + `-simulate` traces of the
   large one) are replayed step by step on a real BroadcastMgr wired to a real WorkflowDatabaseManager (two sqlite
   files) and a real WorkflowConfig; after every step the abstract projection of the real state (broadcasts,
   get_updated_rtconfig of every task at every cycle, broadcast_states rows after a commit, the store rebuilt by
   load_db_broadcast_states after a restart) is compared with the TLC state.
"""
from __future__ import annotations
import json, os, re, shutil, types
from harness import tlc, tlaparse

SPEC = os.path.join(tlc.SPEC_DIR, "mc", "MC_Bcast.tla")
CFG = lambda name: os.path.join(tlc.SPEC_DIR, "mc", name + ".cfg")  # noqa: E731

# ------------------------------------------------------------------------------------------------------------------
# TLC behaviour generation helpers (kept inside the engine file by contract)

def _dot_unescape(s: str) -> str:
    out, i = [], 0
    while i < len(s):
        c = s[i]
        if c == "\\" and i + 1 < len(s):
            n = s[i + 1]
            out.append({"n": "\n", '"': '"', "\\": "\\"}.get(n, "\\" + n))
            i += 2
        else:
            out.append(c)
            i += 1
    return "".join(out)

_NODE = re.compile(r'^(-?\d+) \[label="((?:[^"\\]|\\.)*)"(.*)$')
_EDGE = re.compile(r'^(-?\d+) -> (-?\d+) \[label="([^"]*)"')

def load_dot(path):
    """Parse a TLC `-dump dot,actionlabels` file -> (states {id: {var: value}}, succ {id: [id]}, [initial ids]).
    Node ids are made canonical (rank of the state's text), so the result does not depend on TLC's fingerprint
    seed or worker scheduling."""
    label, edges, init_raw = {}, [], []
    with open(path) as f:
        for line in f:
            m = _EDGE.match(line)
            if m:
                edges.append((m.group(1), m.group(2)))
                continue
            m = _NODE.match(line)
            if m:
                label[m.group(1)] = m.group(2)
                if "style = filled" in m.group(3):
                    init_raw.append(m.group(1))
    rank = {nid: i for i, (nid, _) in enumerate(sorted(label.items(), key=lambda kv: kv[1]))}
    states = {rank[nid]: tlaparse.parse_conj(_dot_unescape(txt)) for nid, txt in label.items()}
    succ = {}
    for a, b in sorted({(rank[a], rank[b]) for a, b in edges}):
        succ.setdefault(a, []).append(b)
    return states, succ, sorted(rank[i] for i in init_raw)

def edge_cover(inits, succ, rng, max_steps, max_len=64):
    """Paths (lists of node ids, each starting at an initial state) that together traverse every edge of the graph,
    or as many as `max_steps` allows (edges taken in seeded-random order).  Returns (paths, n_edges, n_covered)."""
    from collections import deque
    todo = {a: list(bs) for a, bs in succ.items()}
    for a in sorted(todo):
        rng.shuffle(todo[a])
    n_edges = sum(len(v) for v in todo.values())
    covered = 0
    steps = 0
    paths = []

    def nearest(src):
        """shortest path from src to a node that still has an untaken out-edge"""
        seen = {src: None}
        dq = deque([src])
        while dq:
            x = dq.popleft()
            if todo.get(x):
                p = []
                while x is not None:
                    p.append(x)
                    x = seen[x]
                return p[::-1]
            for y in succ.get(x, ()):
                if y not in seen:
                    seen[y] = x
                    dq.append(y)
        return None

    while covered < n_edges and steps < max_steps:
        start = None
        for i in inits:
            p = nearest(i)
            if p:
                start = p
                break
        if not start:
            break
        path = list(start)
        while len(path) < max_len:
            cur = path[-1]
            if todo.get(cur):
                nxt = todo[cur].pop()
                covered += 1
                path.append(nxt)
                continue
            p = nearest(cur)
            if not p or len(path) + len(p) - 1 > max_len:
                break
            path.extend(p[1:])
        steps += len(path) - 1
        paths.append(path)
    return paths, n_edges, covered

_SIM_STATE = re.compile(r'^STATE_(\d+) ==\s*$', re.M)

def load_sim_traces(dirname):
    """Parse the files written by `tlc -simulate file=<dir>/tr,num=N` -> list of traces (lists of state dicts)."""
    traces = []
    def order(fn):
        return tuple(int(x) for x in re.findall(r'\d+', fn))
    for fn in sorted(os.listdir(dirname), key=order):
        txt = open(os.path.join(dirname, fn)).read()
        ms = list(_SIM_STATE.finditer(txt))
        tr = []
        for i, m in enumerate(ms):
            end = ms[i + 1].start() if i + 1 < len(ms) else len(txt)
            body = txt[m.end():end]
            body = re.sub(r'^\\\*.*$', '', body, flags=re.M)          # action comment lines
            body = re.sub(r'^=+\s*$', '', body, flags=re.M).strip()
            tr.append(tlaparse.parse_conj(body))
        if tr:
            traces.append(tr)
    return traces

def run_model(cfg, *, extra=None, timeout=1500, workers=16, heap="6g"):
    """Run TLC on SPEC with spec/mc/<cfg>.cfg; a violated clause in the *specification* is a machinery failure."""
    res = tlc.run_tlc(SPEC, CFG(cfg), workers=workers, timeout=timeout, extra=extra or [], heap=heap)
    if not res.ok:
        if res.kind in ("invariant", "property"):
            raise tlc.TLCError(f"model {cfg}: {res.kind} {res.violated} violated by the specification itself\n{res.out[-3000:]}")
        raise tlc.TLCError(f"model {cfg} did not check cleanly: {res.kind}\n{res.out[-3000:]}")
    res.cfg = cfg
    res.mode = "simulate" if extra and "-simulate" in extra else "exhaustive"
    return res

def record_model(ctx, res):
    cov = ctx.coverage
    cov["states"] = cov.get("states", 0) + res.distinct
    cov["transitions"] = cov.get("transitions", 0) + res.generated
    cov.setdefault("tlc_models", []).append({"cfg": res.cfg, "distinct": res.distinct, "generated": res.generated,
                                             "depth": res.depth, "wall_s": round(res.wall_s, 2), "mode": res.mode})
    return res

def check_model(ctx, cfg, **kw):
    return record_model(ctx, run_model(cfg, **kw))

class BackgroundModel:
    """Run an exhaustive TLC check in a thread while behaviours are replayed; join() re-raises its failure."""
    def __init__(self, cfg, **kw):
        import threading
        self.res = self.exc = None
        def work():
            try:
                self.res = run_model(cfg, **kw)
            except BaseException as e:   # noqa: BLE001 - re-raised in join
                self.exc = e
        self.t = threading.Thread(target=work, daemon=True)
        self.t.start()
    def join(self, ctx):
        self.t.join()
        if self.exc is not None:
            raise self.exc
        return record_model(ctx, self.res)

# ------------------------------------------------------------------------------------------------------------------
# abstraction: TLC value <-> JSON-able python

PT = {"ALL": "*", "P1": "1", "P2": "2"}
PT_INV = {v: k for k, v in PT.items()}
PATHS = [("script",), ("environment", "A"), ("environment", "B")]

def _pathstr(p):
    return ".".join(p)

def _nest(flat):
    """{'environment.A': 'x', 'script': 'y'} -> {'script': 'y', 'environment': {'A': 'x'}} (keys in PATHS order)."""
    out = {}
    for p in PATHS:
        k = _pathstr(p)
        if k in flat:
            d = out
            for part in p[:-1]:
                d = d.setdefault(part, {})
            d[p[-1]] = flat[k]
    return out

def _cells(f):
    """TLC function <<point, ns, path>> -> value  =>  {'P1|root|environment.A': 'x'}"""
    if not isinstance(f, dict):
        return {}
    return {f"{p}|{n}|{_pathstr(q)}": v for (p, n, q), v in f.items()}

def abs_state(st):
    """TLC state -> comparable / JSON-able projection."""
    eff = {t: {c: {} for c in ("P1", "P2")} for t in ("t", "u")}
    if isinstance(st["eff"], dict):
        for (t, c, q), v in st["eff"].items():
            eff[str(t)][str(c)][_pathstr(q)] = v
    return {"bc": _cells(st["bc"]), "eff": eff, "tbl": _cells(st["tbl"])}

def abs_act(a):
    name = str(a["name"])
    out = {"name": name}
    if name == "Put":
        out["P"] = sorted(a["P"]); out["N"] = sorted(a["N"])
        out["S"] = [_nest({_pathstr(k): v for k, v in d.items()}) for d in a["S"]]
    elif name == "Clear":
        out["P"] = sorted(a["P"]); out["N"] = sorted(a["N"]); out["K"] = sorted(_pathstr(k) for k in a["K"])
    elif name == "Expire":
        out["c"] = a["c"]
    return out

def behaviour_of(states):
    """list of TLC states -> list of steps {'act':..., 'exp':...} (the initial state is step 0)."""
    return [{"act": abs_act(s["act"]), "exp": abs_state(s)} for s in states]

# ------------------------------------------------------------------------------------------------------------------
# the real world

FLOW = """
[scheduler]
    allow implicit tasks = False
[scheduling]
    cycling mode = integer
    initial cycle point = 1
    final cycle point = 2
    [[graph]]
        P1 = t & u
[runtime]
    [[root]]
        script = s_root
        [[[environment]]]
            A = a_root
    [[FAM]]
        [[[environment]]]
            B = b_fam
    [[t]]
        inherit = FAM
        script = s_t
    [[u]]
"""

class _NullDataStore:
    def delta_broadcast(self):
        pass

class World:
    """A real BroadcastMgr + WorkflowDatabaseManager (private and public sqlite files) + WorkflowConfig."""
    _cfg = None

    def __init__(self, scratch):
        self.dir = os.path.join(scratch, "bcast-world")
        os.makedirs(self.dir, exist_ok=True)
        if World._cfg is None:
            os.environ.setdefault("HOME", scratch)
            from cylc.flow.config import WorkflowConfig
            from cylc.flow.scheduler_cli import RunOptions
            src = os.path.join(scratch, "bcast-src")
            os.makedirs(src, exist_ok=True)
            with open(os.path.join(src, "flow.cylc"), "w") as f:
                f.write(FLOW)
            import logging
            logging.getLogger("cylc").setLevel(logging.CRITICAL)
            World._cfg = WorkflowConfig("c22", os.path.join(src, "flow.cylc"), RunOptions(), run_dir=src)
        self.cfg = World._cfg
        from cylc.flow.task_proxy import TaskProxy
        from cylc.flow.id import Tokens
        from cylc.flow.cycling.loader import get_point
        self.itasks = {(t, c): TaskProxy(Tokens("~verif/c22"), self.cfg.taskdefs[t], get_point(PT[c]))
                       for t in ("t", "u") for c in ("P1", "P2")}
        self.n = 0
        self.reset()

    def _new_mgrs(self, is_restart):
        from cylc.flow.workflow_db_mgr import WorkflowDatabaseManager
        from cylc.flow.broadcast_mgr import BroadcastMgr
        from cylc.flow.run_modes import RunMode
        self.dbm = WorkflowDatabaseManager(os.path.join(self.cur, "pri"), os.path.join(self.cur, "pub"))
        self.dbm.on_workflow_start(is_restart=is_restart)
        schd = types.SimpleNamespace(get_run_mode=lambda: RunMode.LIVE, workflow_db_mgr=self.dbm,
                                     data_store_mgr=_NullDataStore(), config=self.cfg)
        self.mgr = BroadcastMgr(schd)
        self.mgr.linearized_ancestors.update(self.cfg.get_linearized_ancestors())

    def reset(self):
        """Fresh private + public DB files and fresh managers (the empty private DB is created once by the real
        on_workflow_start and copied afterwards: table creation is the slow part)."""
        if getattr(self, "dbm", None) is not None:
            self.dbm.on_workflow_shutdown()
        self.n += 1
        self.cur = os.path.join(self.dir, f"run{self.n}")
        if self.n > 1:
            shutil.rmtree(os.path.join(self.dir, f"run{self.n - 1}"), ignore_errors=True)
        os.makedirs(os.path.join(self.cur, "pri"))
        os.makedirs(os.path.join(self.cur, "pub"))
        template = os.path.join(self.dir, "template.db")
        if not os.path.exists(template):
            self._new_mgrs(is_restart=False)
            self.dbm.on_workflow_shutdown()
            shutil.copy(self.dbm.pri_path, template)
        else:
            shutil.copy(template, os.path.join(self.cur, "pri", "db"))
        self._new_mgrs(is_restart=True)

    # -- actions -------------------------------------------------------------------------------------------------
    def apply(self, act):
        name = act["name"]
        if name == "Put":
            mod, bad = self.mgr.put_broadcast(point_strings=[PT[p] for p in act["P"]], namespaces=list(act["N"]),
                                              settings=[json.loads(json.dumps(s)) for s in act["S"]])
            if bad:
                return f"put_broadcast rejected legal input: {bad}"
        elif name == "Clear":
            cancel = []
            for k in act["K"]:
                parts = k.split(".")
                d = "anything"
                for part in reversed(parts):
                    d = {part: d}
                cancel.append(d)
            self.mgr.clear_broadcast(point_strings=[PT[p] for p in act["P"]] or None,
                                     namespaces=list(act["N"]) or None, cancel_settings=cancel or None)
        elif name == "Expire":
            self.mgr.expire_broadcast(str(act["c"]))
        elif name == "Commit":
            self.dbm.process_queued_ops()
        elif name == "Restart":
            # clean stop: final commit, close; new scheduler process: DAOs on the same files, load from the table
            self.dbm.process_queued_ops()
            self.dbm.on_workflow_shutdown()
            self._new_mgrs(is_restart=True)
            self.dbm.pri_dao.select_broadcast_states(self.mgr.load_db_broadcast_states)
            self.mgr.post_load_db_coerce()
            self.dbm.pri_dao.close()
        elif name != "Init":
            raise ValueError(name)
        return None

    # -- observation ---------------------------------------------------------------------------------------------
    def bc(self):
        out = {}
        for p, per_ns in self.mgr.get_broadcast().items():
            for n, s in per_ns.items():
                for k, v in _plain(s).items():
                    if isinstance(v, dict):
                        for k2, v2 in v.items():
                            out[f"{PT_INV.get(p, p)}|{n}|{k}.{k2}"] = v2
                    else:
                        out[f"{PT_INV.get(p, p)}|{n}|{k}"] = v
        return out

    def eff(self):
        out = {}
        for (t, c), itask in self.itasks.items():
            rt = self.mgr.get_updated_rtconfig(itask)
            m = {}
            if rt.get("script") not in (None, ""):
                m["script"] = str(rt["script"])
            for k in ("A", "B"):
                if k in rt["environment"]:
                    m["environment." + k] = str(rt["environment"][k])
            out.setdefault(t, {})[c] = m
        return out

    def table(self, which="pri"):
        import sqlite3
        path = self.dbm.pri_path if which == "pri" else self.dbm.pub_path
        conn = sqlite3.connect(path)
        try:
            rows = conn.execute("SELECT point, namespace, key, value FROM broadcast_states").fetchall()
        finally:
            conn.close()
        out = {}
        for p, n, k, v in rows:
            sect = re.findall(r"\[([^\]]+)\]", k)
            leaf = k.rsplit("]", 1)[-1]
            out[f"{PT_INV.get(p, p)}|{n}|{'.'.join(sect + [leaf])}"] = v
        return out

def _plain(d):
    out = {}
    for k, v in d.items():
        if isinstance(v, dict):
            v = _plain(v)
            if v:
                out[k] = v
        elif v is not None:
            out[k] = str(v)
    return out

# ------------------------------------------------------------------------------------------------------------------
# comparison / classification

def _multikey_put_before(steps, upto):
    for s in steps[: upto + 1]:
        a = s["act"]
        if a["name"] == "Put":
            for d in a["S"]:
                leaves = sum(len(v) if isinstance(v, dict) else 1 for v in d.values())
                if leaves > 1:
                    return True
    return False

def _diff(exp, got):
    lost = sorted(k for k in exp if k not in got)
    extra = sorted(k for k in got if k not in exp)
    changed = sorted(k for k in exp if k in got and exp[k] != got[k])
    return lost, extra, changed

def _clear_class(a):
    return "+".join(x for x, on in (("points", a["P"]), ("namespaces", a["N"]), ("cancel", a["K"])) if on) or "everything"

def replay_behaviour(world, steps):
    """Replay one behaviour.  Returns (None | (key, text, failing_index), stats)."""
    world.reset()
    stats = {"steps": 0, "restarts": 0, "commits": 0, "multikey_restart": 0, "nt": []}
    for i, st in enumerate(steps):
        act, exp = st["act"], st["exp"]
        name = act["name"]
        err = world.apply(act)
        stats["steps"] += 1
        if name in ("Restart", "Commit", "Clear", "Expire"):
            stats["nt"].append(i)
        if err:
            return (f"C22_PutAccepted:{name}", err, i), stats
        got_bc = world.bc()
        if got_bc != exp["bc"]:
            lost, extra, changed = _diff(exp["bc"], got_bc)
            kind = "lost" if lost else "extra" if extra else "changed"
            what = f"after {name} the broadcast store differs from the specification: lost={lost} extra={extra} changed={changed}"
            if name == "Restart":
                cls = "multikey-put" if _multikey_put_before(steps, i) else "single-key-puts-only"
                return (f"C22_RestartIdentical:{cls}",
                        what + " (state rebuilt from broadcast_states by load_db_broadcast_states)", i), stats
            if name == "Clear":
                return (f"C22_ClearExact:{kind}:{_clear_class(act)}", what, i), stats
            if name == "Expire":
                return (f"C22_ExpireOnlyEarlierCycle:{kind}:cutoff{act['c']}", what, i), stats
            return (f"C22_{name}Exact:{kind}", what, i), stats
        got_eff = world.eff()
        if got_eff != exp["eff"]:
            bad = sorted(f"{t}@{c}" for t in exp["eff"] for c in exp["eff"][t] if exp["eff"][t][c] != got_eff.get(t, {}).get(c))
            return (f"C22_Precedence:get_updated_rtconfig:after-{name}",
                    f"runtime configuration of {bad} differs: expected {exp['eff']} got {got_eff}", i), stats
        if name in ("Commit", "Restart"):
            stats["commits"] += 1
            for which in ("pri", "pub"):
                got_tbl = world.table(which)
                if got_tbl != exp["tbl"]:
                    lost, extra, changed = _diff(exp["tbl"], got_tbl)
                    kind = "lost" if lost else "extra" if extra else "changed"
                    cls = "multikey-put" if _multikey_put_before(steps, i) else "single-key-puts-only"
                    return (f"C22_RestartIdentical:{cls}",
                            f"after {name} the {which} broadcast_states table differs from the store's leaves: "
                            f"lost={lost} extra={extra} changed={changed}", i), stats
        if name == "Restart":
            stats["restarts"] += 1
            if _multikey_put_before(steps, i):
                stats["multikey_restart"] += 1
    return None, stats

# ------------------------------------------------------------------------------------------------------------------

def run(ctx):
    quick = ctx.quick
    # (M) exhaustive model check of the clauses (in the background while behaviours are replayed)
    bg = BackgroundModel("MC_Bcast" if quick else "MC_Bcast_thorough", timeout=3000)
    # (R1) small model: dump the state graph, cover its edges
    dot = os.path.join(ctx.scratch, "bcast-walk")
    check_model(ctx, "MC_Bcast_walk", extra=["-dump", "dot,actionlabels", dot])
    states, succ, inits = load_dot(dot + ".dot")
    paths, n_edges, n_cov = edge_cover(inits, succ, ctx.rng, max_steps=6000 if quick else 10**9)
    behaviours = [behaviour_of([states[n] for n in p]) for p in paths]
    # (R2, thorough) large model: seeded random behaviours
    simdir = os.path.join(ctx.scratch, "bcast-sim")
    os.makedirs(simdir)
    n_sim = 0 if quick else 6000
    if n_sim:
        check_model(ctx, "MC_Bcast_thorough", workers=1,
                    extra=["-simulate", f"file={simdir}/tr,num={n_sim}", "-depth", "9", "-seed", str(1000 + ctx.seed)])
    for tr in load_sim_traces(simdir):
        steps = behaviour_of(tr)
        # a clean restart is enabled in every state and must leave the store unchanged (C22_RestartIdentical is an
        # invariant of the model): close every sampled behaviour with one
        if steps[-1]["act"]["name"] != "Restart":
            last = steps[-1]["exp"]
            steps.append({"act": {"name": "Restart"}, "exp": {"bc": last["bc"], "eff": last["eff"], "tbl": dict(last["bc"])}})
        behaviours.append(steps)

    world = World(ctx.scratch)
    acts = {}
    for b in behaviours:
        for st in b:
            acts[st["act"]["name"]] = acts.get(st["act"]["name"], 0) + 1
    ctx.coverage["actions_replayed"] = acts
    found = {}
    tot = {"steps": 0, "restarts": 0, "commits": 0, "multikey_restart": 0}
    distinct, nontrivial = set(), set()
    for steps in behaviours:
        res, stats = replay_behaviour(world, steps)
        for k in tot:
            tot[k] += stats[k]
        distinct.add(json.dumps([s["act"] for s in steps], sort_keys=True))
        for i in stats["nt"]:
            nontrivial.add(hash(json.dumps([s["act"] for s in steps[: i + 1]], sort_keys=True)))
        if res:
            key, text, idx = res
            rank = (idx, len(json.dumps([x["act"] for x in steps[: idx + 1]])))
            if key not in found or rank < found[key][1]:
                found[key] = (text, rank, steps[: idx + 1])
    for key, (text, idx, steps) in sorted(found.items()):
        hist = " ; ".join(_fmt_act(s["act"]) for s in steps[1:])
        ctx.violation(key, f"{text}\n  history: {hist}", {"steps": steps})
    bg.join(ctx)
    cov = ctx.coverage
    cov["traces_validated_against_impl"] = len(behaviours)
    cov["evaluations"] = tot["steps"]
    cov["distinct_nontrivial"] = len(nontrivial)
    cov["rule"] = ("behaviours = seeded edge cover of the dumped state graph of MC_Bcast_walk "
                   f"({n_cov}/{n_edges} transitions covered) + {n_sim} `tlc -simulate` traces of the exhaustively checked model, "
                   "each closed by a clean restart; evaluations = replayed steps (store, effective config of 2 tasks x 2 cycles "
                   "and, after commits, both DB tables compared each step); distinct_nontrivial = distinct histories ending in a "
                   f"clear / expire / commit / restart step (the steps that exercise a clause beyond a plain put); {tot['restarts']} restarts "
                   f"compared ({tot['multikey_restart']} after a multi-key dictionary put), {tot['commits']} table comparisons")
    cov["samples"] = [[_fmt_act(s["act"]) for s in b[1:]] for b in behaviours[:: max(1, len(behaviours) // 4)][:4]]
    cov["exhaustive"] = (n_cov == n_edges)
    cov["distinct_behaviours"] = len(distinct)
    cov["checker_cmd"] = "tlc MC_Bcast*.cfg (exhaustive; -dump dot; -simulate) + replay on BroadcastMgr/WorkflowDatabaseManager"
    ctx.assumptions += [
        "BroadcastMgr is attached to a stand-in scheduler object (real WorkflowConfig, real WorkflowDatabaseManager with "
        "private+public sqlite files, no-op data store); the scheduler's own calls are reproduced literally "
        "(process_queued_ops per commit; on restart select_broadcast_states(load_db_broadcast_states) + post_load_db_coerce)",
        "settings domain: script, [environment]A, [environment]B with string values; integer cycling; points *, 1, 2",
    ]

def _fmt_act(a):
    n = a["name"]
    if n == "Put":
        return f"put(points={[PT[p] for p in a['P']]}, namespaces={a['N']}, settings={a['S']})"
    if n == "Clear":
        return f"clear(points={[PT[p] for p in a['P']]}, namespaces={a['N']}, cancel={a['K']})"
    if n == "Expire":
        return f"expire({a['c']})"
    return n.lower()

def replay(ctx, data):
    steps = data["replay"]["steps"]
    world = World(ctx.scratch)
    res, stats = replay_behaviour(world, steps)
    if res:
        key, text, idx = res
        hist = " ; ".join(_fmt_act(s["act"]) for s in steps[1: idx + 1])
        ctx.violation(key, f"{text}\n  history: {hist}", {"steps": steps[: idx + 1]})
    ctx.coverage.update({"states": len(steps), "transitions": len(steps) - 1, "traces_validated_against_impl": 1,
                         "evaluations": stats["steps"], "samples": [[_fmt_act(s["act"]) for s in steps[1:]]]})
