"""C21: database writes are atomic and the public database converges.

Spec: spec/Db.tla (state machine: Queue / ExecOK / PubFail(k) / PriFail(k) / Crash(db, k) / Restart / Recover over the
manager's queue, the committed private and public tables, the batches kept for the public DB and n_tries).
1. TLC model-checks C21_PrivateAtomic, C21_BatchRetried, C21_PublicConverges exhaustively (spec/mc/MC_Db*.cfg), and,
   as a diagnostic, asks whether the merged-queue design read off rundb.py converges (MC_Db_asis.cfg); TLC's
   counterexample to that is replayed on the real code.
2. TLC-generated behaviours (that counterexample, an edge cover of the dumped state graph of the 2-operation model,
   `-simulate` traces of the larger model) are replayed on a real WorkflowDatabaseManager with two sqlite files and a
   fault-injecting connection wrapper (sqlite3.OperationalError at row-statement k or at commit; process death =
   the batch is executed in a forked child that _exit()s at statement k without closing anything).  After every step
   both files are read back with a plain sqlite3 connection and compared with the spec's tables; n_tries too.
"""
from __future__ import annotations
import json, os, re, shutil, sqlite3, subprocess, sys, types
from harness import tlc, tlaparse

SPEC = os.path.join(tlc.SPEC_DIR, "mc", "MC_Db.tla")
CFG = lambda name: os.path.join(tlc.SPEC_DIR, "mc", name + ".cfg")  # noqa: E731
MAX_TRIES = 3          # = MaxTries in the MC_Db*.cfg files; CylcWorkflowDAO.MAX_TRIES is patched to it

# ------------------------------------------------------------------------------------------------------------------
# TLC behaviour generation helpers (kept inside the engine file by contract)

def _dot_unescape(s: str) -> str:
    out, i = [], 0
    while i < len(s):
        c = s[i]
        if c == "\\" and i + 1 < len(s):
            n = s[i + 1]
            out.append({"n": "\n", '"': '"', "\\": "\\"}.get(n, "\\" + n))
            i += 2
        else:
            out.append(c)
            i += 1
    return "".join(out)

_NODE = re.compile(r'^(-?\d+) \[label="((?:[^"\\]|\\.)*)"(.*)$')
_EDGE = re.compile(r'^(-?\d+) -> (-?\d+) \[label="([^"]*)"')

def load_dot(path):
    """Parse a TLC `-dump dot,actionlabels` file -> (states {id: {var: value}}, succ {id: [id]}, [initial ids]).
    Node ids are made canonical (rank of the state's text), so the result does not depend on TLC's fingerprint
    seed or worker scheduling."""
    label, edges, init_raw = {}, [], []
    with open(path) as f:
        for line in f:
            m = _EDGE.match(line)
            if m:
                edges.append((m.group(1), m.group(2)))
                continue
            m = _NODE.match(line)
            if m:
                label[m.group(1)] = m.group(2)
                if "style = filled" in m.group(3):
                    init_raw.append(m.group(1))
    rank = {nid: i for i, (nid, _) in enumerate(sorted(label.items(), key=lambda kv: kv[1]))}
    states = {rank[nid]: tlaparse.parse_conj(_dot_unescape(txt)) for nid, txt in label.items()}
    succ = {}
    for a, b in sorted({(rank[a], rank[b]) for a, b in edges}):
        succ.setdefault(a, []).append(b)
    return states, succ, sorted(rank[i] for i in init_raw)

def edge_cover(inits, succ, rng, max_steps, max_len=64):
    """Paths (lists of node ids, each starting at an initial state) that together traverse every edge of the graph,
    or as many as `max_steps` allows (edges taken in seeded-random order).  Returns (paths, n_edges, n_covered)."""
    from collections import deque
    todo = {a: list(bs) for a, bs in succ.items()}
    for a in sorted(todo):
        rng.shuffle(todo[a])
    n_edges = sum(len(v) for v in todo.values())
    covered = 0
    steps = 0
    paths = []

    def nearest(src):
        """shortest path from src to a node that still has an untaken out-edge"""
        seen = {src: None}
        dq = deque([src])
        while dq:
            x = dq.popleft()
            if todo.get(x):
                p = []
                while x is not None:
                    p.append(x)
                    x = seen[x]
                return p[::-1]
            for y in succ.get(x, ()):
                if y not in seen:
                    seen[y] = x
                    dq.append(y)
        return None

    while covered < n_edges and steps < max_steps:
        start = None
        for i in inits:
            p = nearest(i)
            if p:
                start = p
                break
        if not start:
            break
        path = list(start)
        while len(path) < max_len:
            cur = path[-1]
            if todo.get(cur):
                nxt = todo[cur].pop()
                covered += 1
                path.append(nxt)
                continue
            p = nearest(cur)
            if not p or len(path) + len(p) - 1 > max_len:
                break
            path.extend(p[1:])
        steps += len(path) - 1
        paths.append(path)
    return paths, n_edges, covered

_SIM_STATE = re.compile(r'^STATE_(\d+) ==\s*$', re.M)

def load_sim_traces(dirname):
    """Parse the files written by `tlc -simulate file=<dir>/tr,num=N` -> list of traces (lists of state dicts)."""
    traces = []
    def order(fn):
        return tuple(int(x) for x in re.findall(r'\d+', fn))
    for fn in sorted(os.listdir(dirname), key=order):
        txt = open(os.path.join(dirname, fn)).read()
        ms = list(_SIM_STATE.finditer(txt))
        tr = []
        for i, m in enumerate(ms):
            end = ms[i + 1].start() if i + 1 < len(ms) else len(txt)
            body = txt[m.end():end]
            body = re.sub(r'^\\\*.*$', '', body, flags=re.M)          # action comment lines
            body = re.sub(r'^=+\s*$', '', body, flags=re.M).strip()
            tr.append(tlaparse.parse_conj(body))
        if tr:
            traces.append(tr)
    return traces

def run_model(cfg, *, extra=None, timeout=1500, workers=16, heap="6g"):
    """Run TLC on SPEC with spec/mc/<cfg>.cfg; a violated clause in the *specification* is a machinery failure."""
    res = tlc.run_tlc(SPEC, CFG(cfg), workers=workers, timeout=timeout, extra=extra or [], heap=heap)
    if not res.ok:
        if res.kind in ("invariant", "property"):
            raise tlc.TLCError(f"model {cfg}: {res.kind} {res.violated} violated by the specification itself\n{res.out[-3000:]}")
        raise tlc.TLCError(f"model {cfg} did not check cleanly: {res.kind}\n{res.out[-3000:]}")
    res.cfg = cfg
    res.mode = "simulate" if extra and "-simulate" in extra else "exhaustive"
    return res

def record_model(ctx, res):
    cov = ctx.coverage
    cov["states"] = cov.get("states", 0) + res.distinct
    cov["transitions"] = cov.get("transitions", 0) + res.generated
    cov.setdefault("tlc_models", []).append({"cfg": res.cfg, "distinct": res.distinct, "generated": res.generated,
                                             "depth": res.depth, "wall_s": round(res.wall_s, 2), "mode": res.mode})
    return res

def check_model(ctx, cfg, **kw):
    return record_model(ctx, run_model(cfg, **kw))

class BackgroundModel:
    """Run an exhaustive TLC check in a thread while behaviours are replayed; join() re-raises its failure."""
    def __init__(self, cfg, **kw):
        import threading
        self.res = self.exc = None
        def work():
            try:
                self.res = run_model(cfg, **kw)
            except BaseException as e:   # noqa: BLE001 - re-raised in join
                self.exc = e
        self.t = threading.Thread(target=work, daemon=True)
        self.t.start()
    def join(self, ctx):
        self.t.join()
        if self.exc is not None:
            raise self.exc
        return record_model(ctx, self.res)

# ------------------------------------------------------------------------------------------------------------------
# abstraction

TABLES = ("POOL", "STATES", "BCAST")

def _rows(v):
    return {str(k): int(x) for k, x in v.items()} if isinstance(v, dict) else {}

def _db(v):
    return {t: _rows(v[t]) for t in TABLES}

def _op(o):
    return {"t": str(o["t"]), "k": str(o["k"]), "key": str(o["key"]), "v": int(o["v"])}

def abs_state(st):
    return {"pri": _db(st["pri"]), "pub": _db(st["pub"]), "pubm": _db(st["pubm"]), "ntries": int(st["ntries"]),
            "alive": bool(st["alive"]), "pending": len(st["pubq"]) > 0, "pending_m": len(st["pubmq"]) > 0}

def abs_act(a):
    name = str(a["name"])
    out = {"name": name}
    if name == "Queue":
        out["op"] = _op(a["op"])
    elif name in ("PubFail", "PriFail"):
        out["k"] = int(a["k"]); out["n"] = int(a["n"])
    elif name == "Crash":
        out["db"] = str(a["db"]); out["k"] = int(a["k"]); out["n"] = int(a["n"])
    return out

def behaviour_of(states):
    return [{"act": abs_act(s["act"]), "exp": abs_state(s)} for s in states]

def _fmt_op(o):
    t = {"POOL": "task_pool", "STATES": "task_states", "BCAST": "broadcast_states"}[o["t"]]
    if o["k"] == "ins":
        return f"INSERT {t}[{o['key']}]={o['v']}"
    if o["k"] == "upd":
        return f"UPDATE {t}[{o['key']}]={o['v']}"
    if o["k"] == "del":
        return f"DELETE {t}[{o['key']}]"
    return f"DELETE all {t}"

def _fmt_act(a):
    n = a["name"]
    if n == "Queue":
        return "queue " + _fmt_op(a["op"])
    if n == "ExecOK":
        return "process_queued_ops()"
    if n == "PubFail":
        return f"process_queued_ops() with the public DB failing at statement {a['k']}"
    if n == "PriFail":
        return f"process_queued_ops() with the private DB failing at statement {a['k']}"
    if n == "Crash":
        return f"process killed at statement {a['k']} of the {'private' if a['db'] == 'pri' else 'public'} transaction"
    if n == "Restart":
        return "restart"
    if n == "Recover":
        return "recover_pub_from_pri()"
    return n.lower()

# ------------------------------------------------------------------------------------------------------------------
# the real manager with a fault-injecting sqlite3

MODEL_TABLES = {"task_pool", "task_states", "broadcast_states"}
_TBL = re.compile(r"^\s*(?:INSERT OR REPLACE INTO|DELETE FROM|UPDATE)\s+(\w+)", re.I)
BKEY = {"a": "script", "b": "pre-script"}
BKEY_INV = {v: k for k, v in BKEY.items()}
CRASH_EXIT = 77

class FaultConn:
    """sqlite3 connection wrapper: counts the row-statements on the modelled tables and injects the planned fault."""
    def __init__(self, real, which, world):
        self._real, self._which, self._world = real, which, world
    def executemany(self, stmt, rows):
        m = _TBL.match(stmt)
        counted = bool(m) and m.group(1) in MODEL_TABLES
        for row in list(rows):
            if counted:
                self._world.hit(self._which, commit=False)
            self._real.execute(stmt, row)
    def commit(self):
        self._world.hit(self._which, commit=True)
        self._real.commit()
    def __getattr__(self, name):
        return getattr(self._real, name)

class _Sqlite3Shim:
    """stands in for the `sqlite3` module inside cylc.flow.rundb"""
    def __init__(self, world_ref):
        self._world_ref = world_ref
    def __getattr__(self, name):
        return getattr(sqlite3, name)
    def connect(self, path, *a, **kw):
        real = sqlite3.connect(path, *a, **kw)
        world = self._world_ref()
        if world is None or world.dbm is None:
            return real
        which = "pri" if os.path.abspath(path) == os.path.abspath(world.dbm.pri_path) else "pub"
        return FaultConn(real, which, world)

class DbWorld:
    current = None
    _patched = False

    def __init__(self, scratch):
        self.dir = os.path.join(scratch, "db-world")
        os.makedirs(self.dir, exist_ok=True)
        os.environ.setdefault("HOME", scratch)
        import logging
        logging.getLogger("cylc").setLevel(logging.CRITICAL + 1)
        import cylc.flow.rundb as rundb
        if not DbWorld._patched:
            rundb.sqlite3 = _Sqlite3Shim(lambda: DbWorld.current)
            rundb.CylcWorkflowDAO.MAX_TRIES = MAX_TRIES
            DbWorld._patched = True
        DbWorld.current = self
        self.dbm = None
        self.n = 0
        self.plan = None

    # -- fault plan ----------------------------------------------------------------------------------------------
    def hit(self, which, commit):
        """Called before every row-statement on a modelled table and before every commit of connection `which`.
        Plan {db, k, n, mode}: statement k fails (k < n), or the commit that follows the n-th statement (k = n)."""
        p = self.plan
        if not p or p["db"] != which or p.get("done"):
            return
        if commit:
            if not (p["k"] >= p["n"] and self.count >= p["n"]):
                return
        elif not (self.count == p["k"] and p["k"] < p["n"]):
            self.count += 1
            return
        p["done"] = True
        if p["mode"] == "crash":
            os._exit(CRASH_EXIT)                        # no rollback, no close: the process is gone
        raise sqlite3.OperationalError("database is locked (injected)")

    # -- life cycle ----------------------------------------------------------------------------------------------
    def _new_mgr(self, is_restart):
        from cylc.flow.workflow_db_mgr import WorkflowDatabaseManager
        self.dbm = None
        dbm = WorkflowDatabaseManager(os.path.join(self.cur, "pri"), os.path.join(self.cur, "pub"))
        self.dbm = dbm
        dbm.on_workflow_start(is_restart=is_restart)

    def reset(self):
        if self.dbm is not None:
            self.dbm.on_workflow_shutdown()
        self.n += 1
        self.cur = os.path.join(self.dir, f"run{self.n}")
        if self.n > 1:
            shutil.rmtree(os.path.join(self.dir, f"run{self.n - 1}"), ignore_errors=True)
        os.makedirs(os.path.join(self.cur, "pri"))
        os.makedirs(os.path.join(self.cur, "pub"))
        template = os.path.join(self.dir, "template.db")
        if not os.path.exists(template):
            self._new_mgr(is_restart=False)
            self.dbm.on_workflow_shutdown()
            shutil.copy(self.dbm.pri_path, template)
        else:
            shutil.copy(template, os.path.join(self.cur, "pri", "db"))
        self._new_mgr(is_restart=True)
        self.alive = True
        self.plan = None

    # -- actions -------------------------------------------------------------------------------------------------
    @staticmethod
    def _itask(key, v):
        return types.SimpleNamespace(tdef=types.SimpleNamespace(name=key), point="1", submit_num=1, flow_nums={1},
                                     flow_wait=False, is_manual_submit=False, transient=False,
                                     state=types.SimpleNamespace(status=f"s{v}", time_updated="2000-01-01T00:00:00Z"))

    def queue(self, op):
        m = self.dbm
        t, k, key, v = op["t"], op["k"], op["key"], op["v"]
        if t == "POOL" and k == "delall":
            m.db_deletes_map[m.TABLE_TASK_POOL].append({})                 # as put_task_pool does
        elif t == "POOL" and k == "ins":
            m.db_inserts_map[m.TABLE_TASK_POOL].append(
                {"name": key, "cycle": "1", "flow_nums": "[1]", "status": f"s{v}", "is_held": 0})
        elif t == "STATES" and k == "ins":
            m.put_insert_task_states(self._itask(key, v))
        elif t == "STATES" and k == "upd":
            m.put_update_task_state(self._itask(key, v))
        elif t == "BCAST" and k == "ins":
            m.put_broadcast([("1", "root", {BKEY[key]: f"s{v}"})])
        elif t == "BCAST" and k == "del":
            m.put_broadcast([("1", "root", {BKEY[key]: "x"})], is_cancel=True)
        else:
            raise ValueError(op)

    def apply(self, act):
        """Returns None or an error text (the real code did not behave as the action says)."""
        name = act["name"]
        self.plan, self.count = None, 0
        if name == "Queue":
            self.queue(act["op"])
        elif name == "ExecOK":
            self.dbm.process_queued_ops()
        elif name == "PubFail":
            self.plan = {"db": "pub", "k": act["k"], "n": act["n"], "mode": "error"}
            self.dbm.process_queued_ops()
            if not self.plan.get("done"):
                if self.count == 0:
                    return (f"the specification has {act['n']} statement(s) to (re)try on the public DB, the implementation "
                            "executed none: a batch whose public write failed was not kept")
                return "harness: the planned public-DB fault was never reached"
        elif name == "PriFail":
            self.plan = {"db": "pri", "k": act["k"], "n": act["n"], "mode": "error"}
            try:
                self.dbm.process_queued_ops()
            except sqlite3.Error:
                self.alive = False          # the exception propagates: the scheduler dies
            else:
                return ("a failing private-DB write did not raise" if self.plan.get("done")
                        else "harness: the planned private-DB fault was never reached")
        elif name == "Crash":
            self.plan = {"db": act["db"], "k": act["k"], "n": act["n"], "mode": "crash"}
            pid = os.fork()
            if pid == 0:
                try:
                    self.dbm.process_queued_ops()
                except BaseException:      # noqa: BLE001
                    os._exit(98)
                os._exit(99)               # plan never triggered
            _, status = os.waitpid(pid, 0)
            code = os.waitstatus_to_exitcode(status)
            if code != CRASH_EXIT:
                raise RuntimeError(f"crash child exited {code} instead of dying at the planned statement")
            self.alive = False
        elif name == "Restart":
            # the dead process's manager is abandoned as it is (nothing closed, nothing committed)
            self._new_mgr(is_restart=True)
            self.alive = True
        elif name == "Recover":
            self.dbm.recover_pub_from_pri()
        elif name != "Init":
            raise ValueError(name)
        self.plan = None
        return None

    # -- observation ---------------------------------------------------------------------------------------------
    def dump(self, which):
        path = self.dbm.pri_path if which == "pri" else self.dbm.pub_path
        conn = sqlite3.connect(path)
        try:
            out = {"POOL": {n: int(s[1:]) for n, s in conn.execute("SELECT name, status FROM task_pool")},
                   "STATES": {n: int(s[1:]) for n, s in conn.execute("SELECT name, status FROM task_states")},
                   "BCAST": {BKEY_INV[k]: int(v[1:]) for k, v in conn.execute("SELECT key, value FROM broadcast_states")}}
        finally:
            conn.close()
        return out

# ------------------------------------------------------------------------------------------------------------------

def replay_behaviour(world, steps):
    """Replay one behaviour.  Returns ([(key, text, failing_index)], stats)."""
    world.reset()
    out = []
    stats = {"steps": 0, "faults": 0, "crashes": 0, "retries": 0, "nt": []}
    as_is = False           # after the known divergence follow the merged-queue model for the public DB
    for i, st in enumerate(steps):
        act, exp = st["act"], st["exp"]
        name = act["name"]
        prev = steps[i - 1]["exp"] if i else None
        err = world.apply(act)
        stats["steps"] += 1
        if name in ("PubFail", "PriFail"):
            stats["faults"] += 1
        if name == "Crash":
            stats["crashes"] += 1
        if name == "ExecOK" and prev and (prev["pending"] or prev["pending_m"]):
            stats["retries"] += 1
            stats["nt"].append(i)
        if name in ("PubFail", "PriFail", "Crash", "Recover"):
            stats["nt"].append(i)
        if err:
            if err.startswith("harness:"):
                raise RuntimeError(f"{err} at step {i} of {[_fmt_act(s['act']) for s in steps]}")
            key = f"C21_BatchRetried:nothing-retried:{name}" if "not kept" in err else f"C21_PrivateAtomic:no-exception:{name}"
            out.append((key, err, i))
            break
        pri, pub = world.dump("pri"), world.dump("pub")
        if pri != exp["pri"]:
            clause = "C21_PrivateAtomic"
            out.append((f"{clause}:{name}", f"after {_fmt_act(act)} the private DB holds {pri}, the specification says {exp['pri']}"
                        + (f" (before the step: {prev['pri']})" if prev else ""), i))
            break
        exp_pub = exp["pubm"] if as_is else exp["pub"]
        if pub != exp_pub:
            if not as_is and pub == exp["pubm"]:
                out.append(("C21_PublicConverges:kept-batch-reordered-with-later-batch",
                            f"after {_fmt_act(act)} the public DB holds {pub} but the private DB holds {pri} and nothing is pending "
                            "for the public DB: the batch kept after the failed public write was merged with the later batch "
                            "(all deletes, then all inserts, then all updates), so its statements ran in a different order "
                            "than on the private DB", i))
                as_is = True
            else:
                clause = "C21_PublicConverges" if name in ("ExecOK", "Recover", "Restart") else "C21_BatchRetried"
                out.append((f"{clause}:{name}", f"after {_fmt_act(act)} the public DB holds {pub}, the specification says {exp_pub} "
                            f"(private: {pri})", i))
                break
        if world.alive:
            nt = world.dbm.pub_dao.n_tries
            if nt != exp["ntries"]:
                out.append((f"C21_BatchRetried:n_tries:{name}", f"after {_fmt_act(act)} n_tries = {nt}, the specification says {exp['ntries']}", i))
                break
    return out, stats

def worker(inp, outp, scratch):
    with open(inp) as f:
        behaviours = json.load(f)
    os.makedirs(scratch, exist_ok=True)
    world = DbWorld(scratch)
    results = [replay_behaviour(world, steps) for steps in behaviours]
    with open(outp, "w") as f:
        json.dump(results, f)

def replay_parallel(ctx, behaviours, nproc):
    """Replay in `nproc` small worker processes (cheap fork() for the crash steps); results in input order."""
    verif = os.path.dirname(os.path.dirname(os.path.dirname(os.path.abspath(__file__))))
    code = ("import sys; sys.path.insert(0, %r); from harness.engines import db; "
            "db.worker(sys.argv[1], sys.argv[2], sys.argv[3])" % verif)
    jobs = []
    for i in range(nproc):
        chunk = behaviours[i::nproc]
        if not chunk:
            continue
        inp, outp = os.path.join(ctx.scratch, f"db-in{i}.json"), os.path.join(ctx.scratch, f"db-out{i}.json")
        with open(inp, "w") as f:
            json.dump(chunk, f)
        p = subprocess.Popen([sys.executable, "-c", code, inp, outp, os.path.join(ctx.scratch, f"db-w{i}")],
                             stdout=subprocess.PIPE, stderr=subprocess.STDOUT, text=True)
        jobs.append((i, p, outp))
    results = [None] * len(behaviours)
    for i, p, outp in jobs:
        out, _ = p.communicate()
        if p.returncode != 0:
            raise RuntimeError(f"replay worker {i} failed:\n{out[-3000:]}")
        with open(outp) as f:
            for j, r in enumerate(json.load(f)):
                results[i + j * nproc] = r
    return results

def asis_counterexample(ctx):
    """TLC on the merged-queue design: returns its counterexample to convergence as a behaviour (or None)."""
    res = tlc.run_tlc(SPEC, CFG("MC_Db_asis"), workers=1, timeout=600, heap="2g")
    ctx.coverage.setdefault("tlc_models", []).append({"cfg": "MC_Db_asis", "distinct": res.distinct, "generated": res.generated,
                                                      "wall_s": round(res.wall_s, 2), "mode": "diagnostic",
                                                      "violated": res.violated})
    if res.ok:
        return None
    if res.kind != "invariant" or res.violated != "AsIs_PublicConverges":
        raise tlc.TLCError(f"MC_Db_asis: unexpected outcome {res.kind} {res.violated}\n{res.out[-2000:]}")
    return behaviour_of([s for _, s in res.trace])

def run(ctx):
    quick = ctx.quick
    bg = BackgroundModel("MC_Db" if quick else "MC_Db_thorough", timeout=3000)
    try:
        behaviours = []
        cex = asis_counterexample(ctx)
        if cex:
            behaviours.append(cex)
        dot = os.path.join(ctx.scratch, "db-walk")
        check_model(ctx, "MC_Db_walk", extra=["-dump", "dot,actionlabels", dot])
        states, succ, inits = load_dot(dot + ".dot")
        paths, n_edges, n_cov = edge_cover(inits, succ, ctx.rng, max_steps=5000 if quick else 10**9)
        behaviours += [behaviour_of([states[n] for n in p]) for p in paths]
        del states, succ
        n_sim = 0 if quick else 5000
        simdir = os.path.join(ctx.scratch, "db-sim")
        os.makedirs(simdir)
        if n_sim:
            check_model(ctx, "MC_Db_thorough", workers=1,
                        extra=["-simulate", f"file={simdir}/tr,num={n_sim}", "-depth", "14", "-seed", str(2100 + ctx.seed)])
        behaviours += [behaviour_of(tr) for tr in load_sim_traces(simdir)]
        found = {}
        acts = {}
        for b in behaviours:
            for st in b:
                acts[st["act"]["name"]] = acts.get(st["act"]["name"], 0) + 1
        ctx.coverage["actions_replayed"] = acts
        tot = {"steps": 0, "faults": 0, "crashes": 0, "retries": 0}
        nontrivial = set()
        for steps, (res, stats) in zip(behaviours, replay_parallel(ctx, behaviours, 4 if quick else 8)):
            for k in tot:
                tot[k] += stats[k]
            for i in stats["nt"]:
                nontrivial.add(hash(json.dumps([x["act"] for x in steps[: i + 1]], sort_keys=True)))
            for key, text, idx in res:
                rank = (idx, len(json.dumps([x["act"] for x in steps[: idx + 1]])))
                if key not in found or rank < found[key][1]:
                    found[key] = (text, rank, steps[: idx + 1])
        for key, (text, rank, steps) in sorted(found.items()):
            hist = " ; ".join(_fmt_act(s["act"]) for s in steps[1:])
            ctx.violation(key, f"{text}\n  history: {hist}", {"steps": steps})
    finally:
        bg.t.join()
    bg.join(ctx)
    cov = ctx.coverage
    cov["traces_validated_against_impl"] = len(behaviours)
    cov["evaluations"] = tot["steps"]
    cov["distinct_nontrivial"] = len(nontrivial)
    cov["rule"] = ("behaviours = TLC's counterexample for the merged-queue design (if any) + seeded edge cover of the dumped state "
                   f"graph of MC_Db_walk ({n_cov}/{n_edges} transitions covered) + {n_sim} `tlc -simulate` traces of the exhaustively "
                   "checked model; evaluations = replayed steps (both sqlite files read back and compared after each); "
                   "distinct_nontrivial = distinct histories ending in an injected fault, a recovery or a successful batch that carries kept "
                   f"statements ({tot['faults']} OperationalError at a statement/commit, {tot['crashes']} process deaths inside a "
                   f"transaction, {tot['retries']} retries in total)")
    cov["samples"] = [[_fmt_act(s["act"]) for s in b[1:]] for b in behaviours[:: max(1, len(behaviours) // 4)][:4]]
    cov["exhaustive"] = (n_cov == n_edges)
    cov["checker_cmd"] = "tlc MC_Db*.cfg (exhaustive; diagnostic; -dump dot; -simulate) + replay on WorkflowDatabaseManager/CylcWorkflowDAO"
    ctx.assumptions += [
        f"MAX_TRIES is scaled to {MAX_TRIES} (CylcWorkflowDAO.MAX_TRIES patched to the model's MaxTries)",
        "a public/private write failure is injected as sqlite3.OperationalError from the connection (as a lock or I/O error "
        "surfaces); a crash is a forked child running the batch and _exit()ing at the statement; a crash *during* sqlite's own "
        "commit protocol is not simulated (trusted to sqlite's journal)",
        "after a fatal private-DB error the model lets the process die; the shutdown path's second process_queued_ops is not modelled",
        "operations are queued the way the scheduler does: task_pool via the db_*_map lists as in put_task_pool, task_states via "
        "put_insert_task_states/put_update_task_state, broadcast_states via put_broadcast (single-key settings)",
    ]

def replay(ctx, data):
    steps = data["replay"]["steps"]
    world = DbWorld(ctx.scratch)
    res, stats = replay_behaviour(world, steps)
    for key, text, idx in res:
        hist = " ; ".join(_fmt_act(s["act"]) for s in steps[1: idx + 1])
        ctx.violation(key, f"{text}\n  history: {hist}", {"steps": steps[: idx + 1]})
    ctx.coverage.update({"states": len(steps), "transitions": len(steps) - 1, "traces_validated_against_impl": 1,
                         "evaluations": stats["steps"], "samples": [[_fmt_act(s["act"]) for s in steps[1:]]]})
