"""C13: prerequisite satisfaction == truth of the trigger expression.

Oracle = spec/oracle/TrigExpr.tla.  Every TLC state is one expression tree over a pool of textually colliding
atoms, with its graph text (two parenthesisation styles) and, per evaluation point, the set of satisfaction subsets
for which it is true.  The harness packs many expressions into generated flow.cylc files (one right-hand-side task
each), loads them with the real WorkflowConfig, builds the real TaskProxy/Prerequisite objects and drives
satisfy_me / is_satisfied, comparing with TLC's value for every subset (directly and incrementally in several
orders, to exercise the satisfaction cache).
"""
from __future__ import annotations
import itertools, os, random, re
from harness import oracle, common

TASKS = ["foo", "foo2", "afoo", "fo", "foo-bar"]
CUSTOM = {"x": "data ready", "y": "data ready-final"}     # output name -> message (one message extends the other)
DT_ICP = "20000101T0000+0530"
DT_TZ = "+0530"
CHUNK = 60
PROCS = 4

FLOW = """[scheduler]
    allow implicit tasks = True
{tz}
[scheduling]
{cyc}
    initial cycle point = {icp}
    [[graph]]
        {rec} = \"\"\"
            {lone}
{lines}
        \"\"\"
[runtime]
    [[{tasks}]]
        [[[outputs]]]
{outs}
"""


def flow_text(mode, exprs):
    """exprs: [(rhs, text)] -> flow.cylc text."""
    lines = "\n".join(f"            {t} => {r}" for r, t in exprs)
    return FLOW.format(
        tz=f"    cycle point time zone = {DT_TZ}" if mode == "dt" else "",
        cyc="    cycling mode = integer" if mode == "int" else "",
        icp="1" if mode == "int" else DT_ICP,
        rec="P1" if mode == "int" else "P1D",
        lone=" & ".join(f"{t}?" for t in TASKS),
        lines=lines,
        tasks=", ".join(TASKS),
        outs="\n".join(f'            {k} = "{v}"' for k, v in CUSTOM.items()))


def mode_text(mode, text):
    """Offsets are written [-Pn] by the oracle (integer cycling); the datetime variant cycles daily."""
    return text if mode == "int" else re.sub(r'\[-P(\d+)\]', r'[-P\1D]', text)


def _point(mode, p):
    from cylc.flow.cycling.loader import get_point, get_interval
    if mode == "int":
        return get_point(str(p))
    base = get_point(DT_ICP)
    if p >= 1:
        return base + get_interval(f"P{p - 1}D")
    return base - get_interval(f"P{1 - p}D")


def _msg(o):
    return CUSTOM.get(o, o)


def classify(mode, atoms, pt, text):
    """Stable class of a failing case: which textual collision it contains (else the generic class)."""
    cond = '|' in text or '(' in text
    names = {a["t"] for a in atoms}
    aliased = re.findall(r'[\w-]+\[-P\d+\]:fail\?', text)
    if cond and len(aliased) != len(set(aliased)):
        return "repeated-offset-node-with-alias-qualifier"
    if cond and any(b.startswith(a + "-") for a in names for b in names):
        return "hyphenated-name-extends-task-name"
    for a, b in itertools.permutations(atoms, 2):
        if a["t"] == b["t"] and a["o"] == b["o"] and mode == "int":
            pa, pb = pt - a["off"], pt - b["off"]
            if pa == -pb and pa != 0:
                return "negative-point-twin-of-positive-point"
        if a["t"] == b["t"] and a["off"] == b["off"] and a["o"] != b["o"] and _msg(b["o"]).startswith(_msg(a["o"])):
            if cond:
                return "output-message-extends-other-message"
    return f"{mode}:general"


def _orders(deps, point):
    """Registration orders of the upstream outputs to try.  Dependency.task_triggers is built from a set, so its
    order is arbitrary (it changes with hash randomisation); the as-built order plus the two extreme orders
    (shortest / longest message first) are evaluated."""
    def key(tt):
        msg = f"{tt.get_point(point)}/{tt.task_name} {tt.output}"
        return (len(msg), msg)
    built = [d.task_triggers for d in deps]
    variants = [("as built", built)]
    for name, rev in (("shortest message first", False), ("longest message first", True)):
        v = [tuple(sorted(t, key=key, reverse=rev)) for t in built]
        if all(v != w for _, w in variants):
            variants.append((name, v))
    return variants


def eval_expr(cfg, mode, rhs, case, perm_rng, all_perms):
    """Evaluate one expression on the real objects.  Returns (mismatches, stats).
    case = {"text", "atoms": {idx: atom}, "truth": {pt: set(frozenset(idx))}}"""
    from cylc.flow.task_proxy import TaskProxy
    from cylc.flow.task_state import TaskState, TASK_STATUS_WAITING
    from cylc.flow.id import Tokens
    bad = []
    st = {"evals": 0, "points": 0, "preinit": 0, "negative": 0, "conditional": 0, "nontrivial": 0, "taskproxies": 0,
          "orders": 0}
    tdef = cfg.taskdefs[rhs]
    idxs = sorted(case["atoms"])
    for pt in sorted(case["truth"]):
        truth = case["truth"][pt]
        point = _point(mode, pt)
        toks = {}
        for i in idxs:
            a = case["atoms"][i]
            toks[i] = Tokens(cycle=str(_point(mode, pt - a["off"])), task=a["t"], task_sel=_msg(a["o"]))
        st["points"] += 1
        if any(pt - case["atoms"][i]["off"] < 1 for i in idxs):
            st["preinit"] += 1
        if mode == "int" and any(pt - case["atoms"][i]["off"] < 0 for i in idxs):
            st["negative"] += 1

        def report(kind, S, got, how):
            used_atoms = [case["atoms"][i] for i in idxs]
            cls = classify(mode, used_atoms, pt, case["text"])
            sat = sorted(f"{toks[i]['cycle']}/{toks[i]['task']}:{toks[i]['task_sel']}" for i in S)
            bad.append((cls, len(case["text"]),
                        f"[{mode}] '{mode_text(mode, case['text'])} => {rhs}' at point {point} (initial point "
                        f"{'1' if mode == 'int' else DT_ICP}), satisfied outputs {sat} ({how}): {kind}; the expression is "
                        f"{'TRUE' if frozenset(S) in truth else 'FALSE'} per TrigExpr.tla, code says {got!r}",
                        {"mode": mode, "text": case["text"], "pt": pt,
                         "atoms": {str(i): case["atoms"][i] for i in idxs},
                         "truth": {str(p): sorted(sorted(s) for s in t) for p, t in case["truth"].items()}}))

        try:
            itask = TaskProxy(Tokens('~verif/c13'), tdef, point)
            st["taskproxies"] += 1
        except Exception as e:     # noqa: BLE001
            report(f"TaskProxy construction raised {type(e).__name__}: {e}", (), None, "construction")
            continue
        is_cond = any(p.conditional_expression for p in itask.state.prerequisites)
        st["conditional"] += is_cond
        st["nontrivial"] += bool(is_cond or any(pt - case["atoms"][i]["off"] < 1 for i in idxs))

        def fresh():
            itask.state = TaskState(tdef, point, TASK_STATUS_WAITING, False)
            return itask

        def sat(it):
            return bool(all(p.is_satisfied() for p in it.state.prerequisites))

        deps = [d for seq, ds in tdef.dependencies.items() if seq.is_valid(point) for d in ds]
        built = [d.task_triggers for d in deps]
        perms = list(itertools.permutations(idxs))
        direct = []
        if len(perms) > 6:
            # four atoms: every subset in one call, plus a seeded sample of incremental orders (6 quick, 10 thorough)
            perms = perm_rng.sample(perms, 10 if all_perms else 6)
            direct = [S for r in range(len(idxs) + 1) for S in itertools.combinations(idxs, r)]
        else:
            direct = [tuple(idxs)]
        failed = False
        try:
            for oname, order in _orders(deps, point):
                st["orders"] += 1
                for d, t in zip(deps, order):
                    d.task_triggers = t
                how = f"upstream outputs registered {oname}"
                try:
                    # (1) outputs delivered in one satisfy_me call
                    for S in direct:
                        st["evals"] += 1
                        it = fresh()
                        it.satisfy_me([toks[i] for i in S])
                        got = sat(it)
                        if got != (frozenset(S) in truth):
                            report("wrong satisfaction", S, got, how + ", one call")
                            failed = True
                            break
                    # (2) incrementally; is_satisfied() is queried after every message (the cache must follow);
                    #     all orders of k atoms visit every subset
                    for perm in ([] if failed else perms):
                        it = fresh()
                        S = []
                        for i in (None,) + perm:
                            if i is not None:
                                it.satisfy_me([toks[i]])
                                S.append(i)
                            st["evals"] += 1
                            got = sat(it)
                            if got != (frozenset(S) in truth):
                                report("wrong satisfaction", tuple(S), got, how + f", incremental order {perm}")
                                failed = True
                                break
                        if failed:
                            break
                    # (3) the set of satisfied outputs can also shrink (cylc remove un-satisfies what the removed
                    #     instance had satisfied): satisfy everything one message at a time (querying in between),
                    #     then withdraw the upstream instances one by one; the verdict must follow the set
                    for perm in ([] if failed else perms[:3]):
                        it = fresh()
                        for i in perm:
                            it.satisfy_me([toks[i]])
                            sat(it)
                        S = list(perm)
                        for i in perm:
                            rid = f"{toks[i]['cycle']}/{toks[i]['task']}"
                            if not any(f"{toks[j]['cycle']}/{toks[j]['task']}" == rid for j in S):
                                continue
                            if pt - case["atoms"][i]["off"] < 1:
                                continue      # an instance before the initial point does not exist: nothing to remove
                            for pr in it.state.prerequisites:
                                pr.unset_naturally_satisfied(rid)
                            S = [j for j in S if f"{toks[j]['cycle']}/{toks[j]['task']}" != rid]
                            st["evals"] += 1
                            got = sat(it)
                            if got != (frozenset(S) in truth):
                                report("wrong satisfaction after an upstream instance was removed", tuple(S), got,
                                       how + f", all satisfied in order {perm}, then {rid} withdrawn")
                                failed = True
                                break
                        if failed:
                            break
                except Exception as e:     # noqa: BLE001
                    report(f"evaluation raised {type(e).__name__}", (), str(e)[-60:], how)
                    failed = True
                if failed:
                    break
        finally:
            for d, t in zip(deps, built):
                d.task_triggers = t
    return bad, st


def load_cfg(workdir, mode, exprs):
    from cylc.flow.config import WorkflowConfig
    from cylc.flow.scripts.validate import ValidateOptions
    os.makedirs(workdir, exist_ok=True)
    path = os.path.join(workdir, "flow.cylc")
    with open(path, "w") as f:
        f.write(flow_text(mode, exprs))
    return WorkflowConfig("c13", path, ValidateOptions())


def _merge(tot, st):
    for k, v in st.items():
        tot[k] = tot.get(k, 0) + v


def run_chunk(job):
    """job = (mode, chunk_id, [case], scratch, seed, all_perms) -> (bad, stats)."""
    import logging
    logging.disable(logging.CRITICAL)
    mode, cid, cases, scratch, seed, all_perms = job
    rng = random.Random(seed * 1000003 + cid)
    workdir = os.path.join(scratch, f"c13-{mode}-{cid}")
    named = [(f"r{i}", c) for i, c in enumerate(cases)]
    bad, tot = [], {"flows": 0}
    try:
        cfg = load_cfg(workdir, mode, [(r, mode_text(mode, c["text"])) for r, c in named])
        tot["flows"] += 1
        groups = [(cfg, named)]
    except Exception:     # noqa: BLE001  - find the offending expression(s) one by one
        groups = []
        for r, c in named:
            try:
                cfg = load_cfg(workdir, mode, [(r, mode_text(mode, c["text"]))])
                tot["flows"] += 1
                groups.append((cfg, [(r, c)]))
            except Exception as e:     # noqa: BLE001
                atoms = [c["atoms"][i] for i in sorted(c["atoms"])]
                cls = classify(mode, atoms, min(c["truth"]), c["text"])
                bad.append((cls, len(c["text"]),
                            f"[{mode}] legal trigger expression '{c['text']} => {r}' is rejected at load: "
                            f"{type(e).__name__}: {str(e)[:200]}",
                            {"mode": mode, "text": c["text"], "pt": min(c["truth"]),
                             "atoms": {str(i): c["atoms"][i] for i in sorted(c["atoms"])},
                             "truth": {str(p): sorted(sorted(s) for s in t) for p, t in c["truth"].items()}}))
    for cfg, items in groups:
        for r, c in items:
            b, st = eval_expr(cfg, mode, r, c, rng, all_perms)
            bad += b
            _merge(tot, st)
    # keep the shortest witness per class
    best = {}
    for cls, ln, text, rep in bad:
        if cls not in best or ln < best[cls][0]:
            best[cls] = (ln, text, rep)
    return [(cls, *v) for cls, v in best.items()], tot


def cases_from_states(states):
    """TLC states -> distinct expression cases (one per distinct text)."""
    out = {}
    for st in states:
        atoms = {i: dict(st["atoms"][i - 1]) for i in st["used"]}
        truth = {p: set(t) for p, t in st["truth"]}
        for style in ("min", "full"):
            text = st["txt"][style]
            out.setdefault((st["pool"], text), {"pool": st["pool"], "text": text, "atoms": atoms, "truth": truth})
    return list(out.values())


def run(ctx):
    states = oracle.enumerate_cases(ctx, "TrigExpr", None if ctx.quick else "TrigExprFull", timeout=1500, workers=2)
    cases = cases_from_states(states)
    cases.sort(key=lambda c: (c["pool"], c["text"]))
    dt_pools = {"offs", "wide", "eleven"} if ctx.quick else None
    jobs = []
    cid = 0
    for mode in ("int", "dt"):
        sel = [c for c in cases if mode == "int" or dt_pools is None or c["pool"] in dt_pools]
        for i in range(0, len(sel), CHUNK):
            jobs.append((mode, cid, sel[i:i + CHUNK], ctx.scratch, ctx.seed, not ctx.quick))
            cid += 1
    # fork workers without dragging the parsed TLC dump through their garbage collector (copy-on-write storms)
    import gc
    del states
    gc.collect()
    gc.freeze()
    try:
        results = common.parallel_map(run_chunk, jobs, procs=min(PROCS, os.cpu_count() or 1))
    finally:
        gc.unfreeze()
    tot = {}
    best = {}
    for bad, st in results:
        _merge(tot, st)
        for cls, ln, text, rep in bad:
            if cls not in best or ln < best[cls][0]:
                best[cls] = (ln, text, rep)
    for cls in sorted(best):
        ln, text, rep = best[cls]
        ctx.violation(f"satisfaction:{cls}", text, {"case": rep})
    n_expr = sum(len(j[2]) for j in jobs)
    samples = [{"pool": c["pool"], "lhs": c["text"],
                "true_on": {str(p): len(t) for p, t in sorted(c["truth"].items())}}
               for c in cases if len(c["atoms"]) == 3][:4]
    ctx.coverage["c13"] = {"expressions_loaded": n_expr, **tot}
    oracle.finish_cov(
        ctx, tot.get("points", 0), tot.get("nontrivial", 0),
        "every expression tree of depth <= 3 (pools of 3 atoms in quick, 4-5 in thorough; depth 2 over a 7-atom pool) "
        "enumerated by TLC from TrigExpr.tla, in two parenthesisation styles (distinct texts only), at evaluation points "
        "1,2,3 (1,11 for the 1-vs-11 pool; one point for pools without offsets), up to three registration orders of the "
        "upstream outputs, every satisfaction subset (all incremental orders for <= 3 atoms; all subsets in one call + "
        "sampled orders for 4); integer cycling and daily datetime cycling in time zone +0530.  A case = (mode, "
        "expression text, evaluation point); evaluations = satisfy_me/is_satisfied comparisons; non-trivial = cases "
        "whose real Prerequisite has a conditional (OR) expression or that have a pre-initial dependency",
        samples, exhaustive=True)
    ctx.coverage["evaluations"] = tot.get("evals", 0)
    ctx.assumptions += [
        "Every output in the generated graphs is marked optional ('?') so that arbitrary mixtures of outputs are legal; "
        "optionality does not enter prerequisite evaluation.",
        "Relative offsets only ([-Pn] / [-PnD]); absolute and initial-point-relative offsets ([^], [2]) are not generated.",
        "'&' binds tighter than '|' (conventional precedence; parenthesised renderings are checked as well).",
        "Prerequisites are driven through TaskProxy.satisfy_me with the tokens TaskPool.spawn_on_output would send "
        "(cycle, task, output message); the real TaskProxy constructor builds the prerequisites once per (expression, "
        "point), fresh TaskState objects are used to reset them between subsets.",
        "Dependency.task_triggers is built from a set, so the registration order of upstream outputs in a Prerequisite is "
        "arbitrary under hash randomisation; besides the as-built order (PYTHONHASHSEED=0) the harness re-orders it "
        "shortest-message-first and longest-message-first.",
    ]


def replay(ctx, data):
    import logging
    logging.disable(logging.CRITICAL)
    rep = data["replay"]["case"]
    case = {"text": rep["text"], "atoms": {int(i): a for i, a in rep["atoms"].items()},
            "truth": {int(p): {frozenset(s) for s in t} for p, t in rep["truth"].items()}}
    bad, st = run_chunk((rep["mode"], 0, [case], ctx.scratch, ctx.seed, True))
    for cls, ln, text, r in bad:
        ctx.violation(f"satisfaction:{cls}", text, {"case": r})
    ctx.coverage.update({"states": 1, "transitions": 1, "traces_validated_against_impl": st.get("evals", 0),
                         "samples": [rep["text"]]})
