"""Scheduler engine: properties decided by running the real Scheduler under generated workflows/schedules,
validating every recorded trace with TLC against spec/SchedTrace.tla (+ Graph.tla), and model-checking
spec/Sched.tla configurations."""
from __future__ import annotations
import json, os, time
from collections import Counter
from harness import common, tlc
from harness.sched import runner
from harness.engines import schedmt

# property -> scenario mix (name, weight, job options) and the model-checking configs that carry its invariants
PROPS = {
    "C01": dict(mix=[("plain", 0.55, {}),
                     # the "started" message of every job arrives last (a final failure is heard first); many children
                     # on :start, success often optional so that a failure is final
                     ("plain", 0.45, {"features": {"started": "always", "optional": "often", "retries": False},
                                      "mode": "complete_failfirst", "policy": {"started_last": True}})],
                mc=["MC_base", "MC_runahead:MC_runahead_live"]),
    "C02": dict(mix=[("plain", 0.4, {"features": {"retries": "always"}}),
                     ("plain", 0.2, {"features": {"retries": "always"}, "mode": "any"}),
                     ("plain", 0.2, {"features": {"retries": "always"}, "mode": "any_evict"}), ("faults", 0.2, {})], mc=["MC_retry"]),
    "C03": dict(mix=[("plain", 0.35, {}), ("plain", 0.35, {"mode": "any"}),
                     ("cmds", 0.3, {"kinds": ["reload"], "features": {"queues": "always"}, "stopreq": False})],
                mc=["MC_base", "MC_msgs:MC_msgs_live"]),
    "C04": dict(mix=[("plain", 0.5, {"features": {"max_fcp": 5, "future": True}}),
                     ("plain", 0.5, {"features": {"max_fcp": 5, "future": "always", "max_tasks": 3}})],
                mc=["MC_runahead", "MC_runahead:MC_runahead_live", "MC_future", "MC_future:MC_future_live"]),
    "C05": dict(mix=[("plain", 0.45, {"features": {"queues": "always", "max_tasks": 5}}),
                     ("cmds", 0.3, {"features": {"queues": "always"}, "kinds": ["trigger"]}),
                     # held tasks sitting in limited queues while others are released past them
                     ("hold", 0.25, {"features": {"queues": "always", "max_tasks": 5}})],
                mc=["MC_queue", "MC_base", "MC_trig:MC_trig2", "MC_trig:MC_trig_obs!", "MC_trig", "MC_trig:MC_trig_crash"]),
    "C07": dict(mix=[("plain", 0.3, {"features": {"future": True}}), ("stopcmds", 0.2, {}),
                     ("stopcmds", 0.5, {"stopkind": "point", "features": {"future": "always", "max_fcp": 6}})],
                mc=["MC_base", "MC_cmds:MC_cmds1"]),
    "C09": dict(mix=[("plain", 0.4, {}), ("faults", 0.6, {"features": {"retries": "always"}})], mc=["MC_msgs"]),
    "C10": dict(mix=[("faults", 0.5, {}), ("cmds", 0.5, {"kinds": ["trigger"], "dups": True,
                                                             "features": {"retries": "always", "queues": "always"}})], mc=["MC_msgs"]),
    "C11": dict(mix=[("plain", 0.5, {"mode": "any"}), ("plain", 0.5, {})], mc=["MC_base"]),
    "C26": dict(mix=[("plain", 0.3, {}), ("faults", 0.2, {}), ("cmds", 0.2, {}),
                     ("cmds", 0.3, {"kinds": ["reload_edit", "reload_edit", "trigger"], "features": {"future": "always", "max_tasks": 5}})],
                mc=["MC_base"]),
    "C06": dict(mix=[("hold", 1.0, {})], mc=["MC_cmds:MC_cmds1", "MC_cmds"]),
    "C43": dict(mix=[("stopcmds", 0.6, {}), ("stopcmds", 0.2, {"features": {"future": "always", "max_fcp": 6}}),
                     ("restart", 0.2, {})], mc=["MC_cmds:MC_cmds1", "MC_cmds"]),
    "C45": dict(mix=[("abstrig", 1.0, {})], mc=["MC_abs"]),
    "C46": dict(mix=[("warm", 1.0, {})], mc=["MC_warm"]),
    "C08": dict(mix=[("cmds", 0.5, {"kinds": ["trigger", "trigger", "set"]}),
                     ("cmds", 0.5, {"kinds": ["trigger", "set"], "restart": True})], mc=["MC_flows"]),
    "C27": dict(mix=[("cmds", 0.3, {"kinds": ["reload"]}), ("cmds", 0.45, {"kinds": ["remove_reload", "remove_reload", "reload"]}),
                     ("cmds", 0.25, {"kinds": ["set_reload"], "features": {"custom": "always"}})], mc=["MC_reload"]),
    "C28": dict(mix=[("cmds", 0.2, {"kinds": ["trigger"]}), ("cmds", 0.15, {"kinds": ["trigger_reload", "trigger", "reload"]}),
                     ("cmds", 0.2, {"kinds": ["group_trigger"]}),
                     ("cmds", 0.45, {"kinds": ["retrigger_failed", "retrigger_failed", "group_trigger"], "mode": "any",
                                     "features": {"custom": "always", "started": "always"}})], mc=["MC_trig:MC_trig2", "MC_trig", "MC_trig:MC_trig_crash"]),
    "C29": dict(mix=[("cmds", 1.0, {"kinds": ["set"]})], mc=["MC_trig:MC_trig2", "MC_trig"]),
    "C30": dict(mix=[("cmds", 1.0, {"kinds": ["remove", "remove", "trigger", "retrig_remove"]})], mc=["MC_remove"]),
    "C25": dict(mix=[("plain", 0.3, {"policy": {"datastore": True}}), ("faults", 0.2, {"policy": {"datastore": True}}),
                     ("cmds", 0.2, {"policy": {"datastore": True}}), ("hold", 0.15, {"policy": {"datastore": True}}),
                     # a status that goes A -> B -> A between two publications
                     ("cmds", 0.15, {"policy": {"datastore": True}, "kinds": ["flipflop"], "features": {"queues": "always"}})],
                mc=["MC_base"]),
    "C33": dict(mix=[("xtrig", 1.0, {})], mc=[]),
    "C32": dict(mix=[("expire", 1.0, {})], mc=[]),
    "C19": dict(mix=[("restart", 0.6, {}),
                     # hold list / hold point / stop point / stop task across restart, also twice, also after a reload
                     ("hold", 0.2, {}), ("stopcmds", 0.2, {})], mc=["MC_cmds:MC_cmds1", "MC_cmds", "MC_crash"]),
    "C20": dict(mix=[("crash", 1.0, {})], mc=["MC_crash:MC_crash_finding!", "MC_crash"]),
    "C31": dict(mix=[("plain", 0.4, {"features": {"sequential": "always"}}),
                     ("warm", 0.2, {"features": {"sequential": "always"}}),
                     # sequential tasks on several recurrences, warm start in between their points
                     ("warm", 0.4, {"features": {"sequential": "always", "recs": "many", "max_tasks": 3}})], mc=["MC_seq", "MC_base"]),
}
N_RUNS = {"quick": 96, "thorough": 1500}
SLOW_MC = {"MC_queue", "MC_seq", "MC_cmds", "MC_crash", "MC_trig", "MC_trig_crash"}     # > 30 s: thorough tier only

def _jobs(ctx, cfg, n):
    jobs = []
    rng = ctx.rng
    names = [m[0] for m in cfg["mix"]]
    weights = [m[1] for m in cfg["mix"]]
    for k in range(n):
        i = rng.choices(range(len(names)), weights)[0]
        job = {"seed": ctx.seed * 1_000_003 + k, "scratch": ctx.scratch, "scenario": names[i]}
        job.update(cfg["mix"][i][2])
        jobs.append(job)
    return jobs

def run(ctx, props_cfg=None):
    cfg = (props_cfg or PROPS)[ctx.prop]
    n = int(os.environ.get("VERIF_RUNS", N_RUNS[ctx.tier]))
    t0 = time.time()
    jobs = _jobs(ctx, cfg, n)
    runs = common.parallel_map(runner.one_run, jobs, procs=16)
    errs = [r for r in runs if "error" in r]
    if errs:
        raise common.MachineryError(f"{len(errs)} harness executions failed; first:\n{errs[0]['error']}")
    t_exec = time.time() - t0
    verdicts, states, trans = runner.validate(runs, ctx.scratch)
    t_tlc = time.time() - t0 - t_exec
    judge(ctx, runs, verdicts, jobs)
    cov = ctx.coverage
    cov["states"] = cov.get("states", 0) + states
    cov["transitions"] = cov.get("transitions", 0) + trans
    cov["traces_validated_against_impl"] = len(runs)
    cov["evaluations"] = len(runs)
    cov["exec_wall_s"], cov["tlc_trace_wall_s"] = round(t_exec, 1), round(t_tlc, 1)
    cov["checker_cmd"] = "tlc -workers 1 Run.tla (EXTENDS SchedTrace, TraceData) per chunk of recorded runs"
    model_check(ctx, cfg)
    schedmt.run_mt(ctx)
    ctx.assumptions += [
        "job runner, job messages, polls and the wall clock are simulated by the harness (harness/sched/env.py); "
        "the real Scheduler, task pool, events manager, job manager and sqlite DB code run unmodified from /repo",
        "instrumentation = external class-level wrappers (harness/sched/instrument.py), no source hook",
        "workflows are drawn from the fragment modelled by spec/Graph.tla: integer cycling, <=5 tasks, <=3 recurrences",
    ]

def judge(ctx, runs, verdicts, jobs):
    prop = ctx.prop
    clause_hits = Counter()
    divergences = Counter()
    nontrivial = 0
    ends = Counter()
    samples = []
    for r, v, job in zip(runs, verdicts, jobs):
        ends[r["end"]] += 1
        mine = {c for c in v["cov"] if c.startswith(prop + "_")}
        clause_hits.update(mine)
        if mine:
            nontrivial += 1
        for clause, idx in v["viol"]:
            if clause.startswith("Conf_"):
                divergences[clause] += 1
                if os.environ.get("VERIF_SHOW_DIV"):
                    print(f"  divergence {clause} seed={r['seed']} scenario={job['scenario']} event=#{idx} job={json.dumps({k: v2 for k, v2 in job.items() if k != 'scratch'})}")
                continue
            if not clause.startswith(prop + "_"):
                continue
            ev = next((e for e in r["events"] if e["i"] == idx), None)
            text = (f"clause {clause} false at event #{idx} ({ev['e'] if ev else '?'}) of run seed={r['seed']} "
                    f"scenario={job['scenario']} end={r['end']}; workflow {json.dumps(r['desc'])}")
            ctx.violation(clause, text, {"job": {k: v2 for k, v2 in job.items() if k != 'scratch'},
                                         "clause": clause, "event_index": idx, "event": _short(ev),
                                         "diag": v.get("diag"), "flow_cylc": r["flow"]})
        if len(samples) < 3:
            samples.append({"seed": r["seed"], "scenario": job["scenario"], "end": r["end"], "workflow": r["desc"],
                            "events": len(r["events"]), "launches": r["launches"][:12]})
    cov = ctx.coverage
    cov["distinct_nontrivial"] = nontrivial
    cov["rule"] = ("one case = one generated workflow + outcome table + environment schedule executed on the real "
                   "scheduler; non-trivial = TLC reported at least one of this property's clauses with a true "
                   "antecedent on that trace (cov set of SchedTrace.tla); seeds are distinct")
    cov["clause_hits"] = dict(sorted(clause_hits.items()))
    cov["run_ends"] = dict(ends)
    cov["divergences"] = dict(divergences)
    cov["samples"] = samples
    for c, k in divergences.items():
        ctx.notes.append(f"DIVERGENCE engine=sched clause={c} runs={k} (spec/harness to-do, not a property verdict)")

def _short(ev):
    if not ev:
        return None
    d = {k: v for k, v in ev.items() if k not in ("sync", "db")}
    return json.loads(json.dumps(d, default=str))

def model_check(ctx, cfg):
    """Model-check the design-level configurations that carry this property's invariants."""
    mcdir = os.path.join(tlc.SPEC_DIR, "mc")
    done = []
    for spec in cfg.get("mc", []):
        expect_violation = spec.endswith("!")      # a configuration that must reproduce a known finding / a recorded observation
        modname, _, cfgname = spec.rstrip("!").partition(":")
        name = cfgname or modname
        mod = os.path.join(mcdir, modname + ".tla")
        cfgp = os.path.join(mcdir, name + ".cfg")
        if not os.path.exists(mod) or not os.path.exists(cfgp):
            continue
        if ctx.quick and name in SLOW_MC:
            continue
        res = tlc.run_tlc(mod, cfgp, workers=16, timeout=600 if ctx.quick else 3000, heap="8g")
        if expect_violation:
            if res.ok or res.kind != "invariant":
                raise tlc.TLCError(f"{name}: the model no longer reproduces the known finding it is kept for "
                                   f"(ok={res.ok} kind={res.kind})\n{res.out[-1500:]}")
            done.append({"config": name, "distinct": res.distinct, "generated": res.generated, "depth": res.depth,
                         "wall_s": round(res.wall_s, 1), "expected_violation": res.violated})
            continue
        if not res.ok:
            # a failure of the spec alone is a machinery failure, never a verdict about the code
            raise tlc.TLCError(f"{name}: {res.kind} {res.violated}\n{res.out[-2500:]}")
        ctx.coverage["states"] = ctx.coverage.get("states", 0) + res.distinct
        ctx.coverage["transitions"] = ctx.coverage.get("transitions", 0) + res.generated
        done.append({"config": name, "distinct": res.distinct, "generated": res.generated, "depth": res.depth,
                     "wall_s": round(res.wall_s, 1)})
    ctx.coverage["model_configs"] = done

def replay(ctx, data):
    rep = data["replay"]
    if "mt" in rep:
        return schedmt.replay_mt(ctx, rep["mt"])
    job = dict(rep["job"])
    job["scratch"] = ctx.scratch
    r = runner.one_run(job)
    if "error" in r:
        raise common.MachineryError(r["error"])
    verdicts, states, trans = runner.validate([r], ctx.scratch)
    judge(ctx, [r], verdicts, [job])
    ctx.coverage.update({"states": states, "transitions": trans, "traces_validated_against_impl": 1, "evaluations": 1})
    for clause, idx in verdicts[0]["viol"]:
        print(f"  {clause} false at event #{idx}")
        for e in r["events"]:
            if idx - 6 <= e["i"] <= idx:
                print("   ", json.dumps(_short(e))[:600])
