r"""C39: workflow names / IDs that pass validation resolve strictly inside cylc-run and hold no reserved dir name.

Oracle = spec/oracle/Names.tla: names are token sequences over an alphabet of dangerous pieces; TLC computes for
every name the documented validity (Valid / ValidR), the POSIX-normalised resolution, StrictlyInside and
NoReservedComponent, and checks the safety theorem Valid => StrictlyInside (/\ NoReservedComponent) on the rules.
Replay (one-directional, as the property is stated): every name that the CODE accepts through
   validate_workflow_name(name)                              -> must be inside
   validate_workflow_name(name, check_reserved_names=True)   -> must be inside and reserved-free
   check_reserved_dir_names(name)                            -> must have no reserved component as written
   parse_id(name | ~user/name, constraint='mixed')           -> the workflow part must be inside
must be safe according to the oracle AND according to os.path.normpath containment of get_workflow_run_dir().
A name the oracle calls valid but cylc rejects (or vice versa, while safe) is only counted, never flagged.
"""
from __future__ import annotations
import os
from harness import oracle, tlc
from harness.common import MachineryError
from harness.tlaparse import to_py

def _enumerate(ctx, module, cfg=None, **kw):
    """enumerate_cases with one retry when the JVM dies without any TLC diagnostics (seen on an overloaded host).
    All cases are initial states, which TLC generates sequentially: 2 workers are faster than 16 on a busy host."""
    kw.setdefault("workers", 2)
    try:
        return oracle.enumerate_cases(ctx, module, cfg, **kw)
    except tlc.TLCError as e:
        if "error" in str(e).lower() or "timeout" in str(e):
            raise
        return oracle.enumerate_cases(ctx, module, cfg, **kw)

LOG_ALIASES = ["share", "work", "flow.cylc", "suite.rc"]      # reserved names the token "log" stands for

def escape_kind(text: str) -> str:
    if text.startswith("/"):
        return "absolute"
    n = os.path.normpath(text) if text else "."
    if n == ".":
        return "cylc-run-itself"
    if n == ".." or n.startswith("../"):
        return "parent"
    return "other"

def py_inside(path: str, base: str) -> bool:
    path = os.path.normpath(path)
    return path != base and path.startswith(base.rstrip(os.sep) + os.sep)

def reserved_components(text: str):
    import re
    from cylc.flow.workflow_files import WorkflowFiles
    return [c for c in os.path.normpath(text).split("/")
            if c in WorkflowFiles.RESERVED_NAMES or re.fullmatch(r"run\d+", c)]

class Checker:
    def __init__(self):
        from cylc.flow import workflow_files as wf
        from cylc.flow.exceptions import CylcError
        from cylc.flow.pathutil import get_cylc_run_dir, get_workflow_run_dir
        from cylc.flow.hostuserutil import get_user
        from cylc.flow.id_cli import parse_id_async
        import asyncio
        loop = asyncio.new_event_loop()          # one loop for all calls (asyncio.run per call costs 3x more)
        def parse_id(*a, **k):
            return loop.run_until_complete(parse_id_async(*a, **k))
        from cylc.flow.unicode_rules import WorkflowNameValidator
        self.wf, self.CylcError = wf, CylcError
        self.base = get_cylc_run_dir()
        self.run_dir = get_workflow_run_dir
        self.user = get_user()
        self.parse_id = parse_id
        self.validator = WorkflowNameValidator
        self.stats = {"accepted_validate": 0, "accepted_validate_reserved": 0, "accepted_reserved_check_alone": 0,
                      "accepted_parse_id": 0, "accepted_with_dotdot_component": 0, "accepted_with_slash": 0,
                      "oracle_valid": 0, "oracle_valid_but_code_rejects": 0, "code_accepts_but_oracle_invalid_yet_safe": 0,
                      "names_resolving_outside": 0, "names_with_reserved_component": 0}
        self.loose = []          # examples of code-accepted, documented-invalid, yet safe names
        self.strict = []         # examples of oracle-valid names rejected by the code

    def _accepts(self, fn, *a, **k):
        try:
            fn(*a, **k)
            return True
        except (self.CylcError, ValueError):
            return False

    def check(self, text, exp, index, tag=""):
        """exp: dict(valid, validR, inside, resfree, rawres). Returns list of (key, text)."""
        out = []
        st = self.stats
        wf = self.wf
        if not exp["inside"]:
            st["names_resolving_outside"] += 1
        if not exp["resfree"]:
            st["names_with_reserved_component"] += 1
        st["oracle_valid"] += exp["valid"]
        # character rules alone must not be weaker than the path rules need (only counted)
        a1 = self._accepts(wf.validate_workflow_name, text)
        a2 = self._accepts(wf.validate_workflow_name, text, check_reserved_names=True)
        a3 = self._accepts(wf.check_reserved_dir_names, text)
        st["accepted_validate"] += a1
        st["accepted_validate_reserved"] += a2
        st["accepted_reserved_check_alone"] += a3
        if a1:
            if ".." in text.split("/"):
                st["accepted_with_dotdot_component"] += 1
            if "/" in text:
                st["accepted_with_slash"] += 1
            resolved = self.run_dir(text)
            if not exp["inside"] or not py_inside(resolved, self.base):
                out.append((f"validate_workflow_name:accepted-escaping:{escape_kind(text)}",
                            f"validate_workflow_name({text!r}) passes, but the name resolves to {resolved!r} which is "
                            f"not strictly inside {self.base!r} (oracle: inside={exp['inside']})"))
            if not exp["valid"]:
                st["code_accepts_but_oracle_invalid_yet_safe"] += 1
                if len(self.loose) < 5:
                    self.loose.append(text)
        elif exp["valid"]:
            st["oracle_valid_but_code_rejects"] += 1
            if len(self.strict) < 5:
                self.strict.append(text)
        if a2:
            resolved = self.run_dir(text)
            if not exp["inside"] or not py_inside(resolved, self.base):
                out.append((f"validate_workflow_name-reserved:accepted-escaping:{escape_kind(text)}",
                            f"validate_workflow_name({text!r}, check_reserved_names=True) passes, but resolves to "
                            f"{resolved!r}, not strictly inside {self.base!r}"))
            bad = reserved_components(text)
            if not exp["resfree"] or bad:
                out.append((f"validate_workflow_name-reserved:accepted-reserved:{(bad or ['?'])[0].rstrip('0123456789')}{tag}",
                            f"validate_workflow_name({text!r}, check_reserved_names=True) passes, but the resolved name "
                            f"{os.path.normpath(text)!r} contains the reserved directory name(s) {bad}"))
        if a3 and exp["rawres"]:
            out.append((f"check_reserved_dir_names:accepted-reserved{tag}",
                        f"check_reserved_dir_names({text!r}) passes, but the name contains a reserved directory name"))
        # IDs
        for form, id_ in (("id", text), ("user-id", f"~{self.user}/{text}")):
            try:
                wid, _tokens, _ = self.parse_id(id_, constraint="mixed", infer_latest_runs=False)
            except (self.CylcError, ValueError, OSError):      # OSError: component longer than NAME_MAX
                continue
            st["accepted_parse_id"] += 1
            resolved = self.run_dir(wid)
            wexp = index.get(wid)
            if not py_inside(resolved, self.base) or (wexp is not None and not wexp["inside"]):
                out.append((f"parse_id:{form}:accepted-escaping:{escape_kind(wid)}",
                            f"parse_id({id_!r}) accepts workflow {wid!r}, which resolves to {resolved!r}, not strictly "
                            f"inside {self.base!r}"))
        return out

def _exp(st):
    return {k: st[k] for k in ("valid", "validR", "inside", "resfree", "rawres")}

def run(ctx):
    home = os.path.join(ctx.scratch, "home")
    os.makedirs(os.path.join(home, "cylc-run"), exist_ok=True)
    os.environ["HOME"] = home
    states = _enumerate(ctx, "Names", "Names" if ctx.quick else "Names_thorough", timeout=1500)
    states.sort(key=lambda s: (len(s["s"]), s["text"]))
    index = {s["text"]: _exp(s) for s in states}
    ck = Checker()
    n = 0
    samples = []
    for st in states:
        text, exp = st["text"], _exp(st)
        # oracle sanity: TLA+ normalisation == POSIX normpath for relative names
        if not text.startswith("/") and os.path.normpath(text or ".") != st["norm"]:
            raise MachineryError(f"Names.tla normalises {text!r} to {st['norm']!r}, os.path.normpath gives "
                                 f"{os.path.normpath(text or '.')!r}")
        n += 1
        for key, msg in ck.check(text, exp, index):
            ctx.violation(key, msg, {"name": text, "exp": exp})
        if "log" in st["s"] and "A250" not in st["s"]:     # (aliases have other lengths: keep the length-limit cases as is)
            for alias in LOG_ALIASES:          # same expectations under renaming of the reserved name
                t2 = "".join(alias if t == "log" else (t if t != "A250" else "a" * 250) for t in st["s"])
                n += 1
                for key, msg in ck.check(t2, exp, index, tag=f":{alias}"):
                    ctx.violation(key, msg, {"name": t2, "exp": exp})
        if len(samples) < 4 and exp["valid"] and ".." in st["text"].split("/") and len(st["s"]) in (5, 7):
            samples.append({"name": text, "resolves_to": st["norm"], "valid": True})
        if len(samples) < 5 and not exp["inside"] and len(st["s"]) == 3 and st["s"][0] == "a":
            samples.append({"name": text, "resolves_to": st["norm"], "inside": False})
    nontrivial = ck.stats["accepted_validate"]
    oracle.finish_cov(ctx, n, nontrivial,
                      "every token sequence enumerated by TLC from Names.tla (quick: length <= 3 over 17 tokens incl. '.', "
                      "'..', '/', '~', ' ', newline, 'é', ':', reserved names; length 4 over 9 core tokens; length 5 over "
                      "{a, .., /, ., log}; length 6-7 over {a, .., /}; 250-character prefix cases; thorough: one or two "
                      "tokens longer) + substitution of every other reserved name for 'log'; "
                      "non-trivial = names accepted by validate_workflow_name (the only ones the property constrains)",
                      samples, exhaustive=True)
    ctx.coverage.update(ck.stats)
    ctx.coverage["examples_code_accepts_documented_invalid_but_safe"] = ck.loose
    ctx.coverage["examples_oracle_valid_code_rejects"] = ck.strict
    ctx.coverage["oracle_invariants_checked_by_tlc"] = ["ValidImpliesInside", "ValidRImpliesSafe", "DepthWalkAgrees",
                                                        "NormKeepsReservedFree"]
    if ck.loose:
        ctx.notes.append(f"note C39: {ck.stats['code_accepts_but_oracle_invalid_yet_safe']} names are accepted by "
                         f"validate_workflow_name although the documented character rules exclude them (e.g. "
                         f"{ck.loose[:3]!r}); they resolve inside cylc-run, so the property is not violated")
    ctx.assumptions += ["containment is judged lexically (os.path.normpath of ~/cylc-run/<name>), symlinks inside cylc-run "
                        "are not followed",
                        "run-number inference (infer_latest_run) and source-path IDs (src=True) are not exercised; "
                        "parse_id is called with infer_latest_runs=False",
                        "environment-variable expansion in names ('$') is outside the alphabet"]

def replay(ctx, data):
    home = os.path.join(ctx.scratch, "home")
    os.makedirs(os.path.join(home, "cylc-run"), exist_ok=True)
    os.environ["HOME"] = home
    name, exp = data["replay"]["name"], data["replay"]["exp"]
    ck = Checker()
    for key, msg in ck.check(name, exp, {name: exp}):
        ctx.violation(key, msg, {"name": name, "exp": exp})
    ctx.coverage.update({"states": 1, "transitions": 1, "traces_validated_against_impl": 1, "samples": [name]})
