"""C23: universal identifiers round-trip.

Oracle = spec/oracle/Ids.tla: a tokens record over small alphabets (with the separator-adjacent characters legal in
each field) and Format / FormatPlain / relative / legacy forms transcribed from the documented ID grammar.  TLC
enumerates every legal token combination; for each one the harness checks on cylc.flow.id:
  format-then-parse   tokenise(Format(t)) == t (job zero-padded), also via Tokens(str)
  tokens-then-format  detokenise(t, selectors=True) == Format(t); detokenise(t) == FormatPlain(t); .id / str()
  parse-then-format   detokenise(tokenise(s), selectors=True) == s for the canonical string s = Format(t)
  relative/absolute   task part of the absolute ID == tokens of the relative ID ('//c/t/j', and 'c/t/j' with
                      relative=True); relative_id / relative_id_with_selectors / workflow_id
  Tokens              ==, !=, hash, duplicate (equal copy, distinct object, changed copy differs)
  legacy              legacy_tokenise / upgrade_legacy_ids of task.cycle[:sel] and cycle/task[:sel] == the new form
TLA+ contributes the grammar-as-oracle and the exhaustive enumeration only.
"""
from __future__ import annotations
from harness import oracle, tlc
from harness.tlaparse import to_py

def _enumerate(ctx, module, cfg=None, **kw):
    """enumerate_cases with one retry when the JVM dies without any TLC diagnostics (seen on an overloaded host).
    All cases are initial states, which TLC generates sequentially: 2 workers are faster than 16 on a busy host."""
    kw.setdefault("workers", 2)
    try:
        return oracle.enumerate_cases(ctx, module, cfg, **kw)
    except tlc.TLCError as e:
        if "error" in str(e).lower() or "timeout" in str(e):
            raise
        return oracle.enumerate_cases(ctx, module, cfg, **kw)

KEYS = ["user", "workflow", "workflow_sel", "cycle", "cycle_sel", "task", "task_sel", "job", "job_sel"]

def present(t):
    return {k: v for k, v in t.items() if v != ""}

def norm(tokens):
    """Tokens/dict -> {key: value} for non-empty values (None and missing are the same thing)."""
    return {k: tokens.get(k) for k in KEYS if tokens.get(k)}

def shape(t):
    """Stable class of a tokens record for violation keys: which tokens are present + special features."""
    lv = "job" if t["job"] else "task" if t["task"] else "cycle" if t["cycle"] else "workflow" if t["workflow"] else "user"
    form = "relative" if not (t["user"] or t["workflow"]) else "absolute"
    feats = []
    if any(t[k] for k in ("workflow_sel", "cycle_sel", "task_sel", "job_sel")):
        feats.append("sel")
    if "/" in t["workflow"]:
        feats.append("hier")
    if "~" in t["task"]:
        feats.append("tilde-task")
    if t["job"] and t["job"] not in ("NN",) and len(t["job"]) != 2:
        feats.append("unpadded-job")
    return ":".join([form, lv] + feats)

def check_case(st, prev=None):
    from cylc.flow.id import Tokens, tokenise, detokenise, legacy_tokenise, upgrade_legacy_ids
    t, padded = st["t"], st["padded"]
    full, plain, rel, relplain = st["full"], st["plain"], st["rel"], st["relplain"]
    sh = shape(t)
    out = []
    def bad(clause, msg):
        out.append((f"{clause}:{sh}", f"tokens {present(t)}: {msg}"))
    want = present(padded)

    # ---- format-then-parse
    try:
        parsed = tokenise(full)
    except ValueError as e:
        bad("format-parse:rejected", f"canonical ID {full!r} is rejected by tokenise: {e}")
        return out
    if norm(parsed) != want:
        bad("format-parse:different-tokens", f"tokenise({full!r}) = {norm(parsed)}, expected {want}")
    if norm(Tokens(full)) != want:
        bad("format-parse:Tokens-str", f"Tokens({full!r}) = {norm(Tokens(full))}, expected {want}")
    try:
        pp = norm(tokenise(plain))
        want_plain = {k: v for k, v in want.items() if not k.endswith("_sel")}
        if pp != want_plain:
            bad("format-parse:plain", f"tokenise({plain!r}) = {pp}, expected {want_plain}")
    except ValueError as e:
        bad("format-parse:rejected", f"canonical ID {plain!r} is rejected by tokenise: {e}")

    # ---- tokens-then-format
    tok = Tokens(**present(t))
    try:
        got_full = detokenise(tok, selectors=True)
        got_plain = detokenise(tok)
        if got_full != full:
            bad("tokens-format:selectors", f"detokenise(selectors=True) = {got_full!r}, grammar says {full!r}")
        if got_plain != plain:
            bad("tokens-format:plain", f"detokenise() = {got_plain!r}, grammar says {plain!r}")
        if tok.id != plain or str(tok) != plain:
            bad("tokens-format:id-property", f".id = {tok.id!r}, str = {str(tok)!r}, grammar says {plain!r}")
    except (ValueError, TypeError) as e:
        bad("tokens-format:error", f"detokenise raised {e!r}")

    # ---- parse-then-format of the canonical string
    back = detokenise(parsed, selectors=True)
    if back != full:
        bad("parse-format:canonical-not-stable", f"detokenise(tokenise({full!r}), selectors=True) = {back!r}")

    # ---- relative / absolute agreement on the task part
    if t["cycle"]:
        want_task = {k: v for k, v in want.items() if not (k.startswith("user") or k.startswith("workflow"))}
        try:
            r1 = norm(tokenise(rel))
            r2 = norm(tokenise(rel[2:], relative=True))
            r3 = norm(Tokens(rel[2:], relative=True))
        except ValueError as e:
            bad("relative:rejected", f"relative ID {rel!r} is rejected: {e}")
        else:
            if r1 != want_task or r2 != want_task or r3 != want_task:
                bad("relative:different-tokens", f"tokenise({rel!r}) = {r1}, tokenise({rel[2:]!r}, relative=True) = {r2}, "
                                                 f"expected {want_task}")
            if norm(parsed.task) != r1:
                bad("relative:absolute-disagrees", f"task part of {full!r} = {norm(parsed.task)} but {rel!r} = {r1}")
        if parsed.relative_id != relplain:
            bad("relative:relative_id", f"relative_id = {parsed.relative_id!r}, expected {relplain!r}")
        if parsed.relative_id_with_selectors != rel[2:]:
            bad("relative:relative_id_with_selectors",
                f"relative_id_with_selectors = {parsed.relative_id_with_selectors!r}, expected {rel[2:]!r}")
    if t["user"] or t["workflow"]:
        wf_only = {k: v for k, v in want.items() if k in ("user", "workflow")}
        exp_wid = ("~" + wf_only["user"] if "user" in wf_only else "") + \
                  ("/" if "user" in wf_only and "workflow" in wf_only else "") + wf_only.get("workflow", "")
        if parsed.workflow_id != exp_wid:
            bad("relative:workflow_id", f"workflow_id = {parsed.workflow_id!r}, expected {exp_wid!r}")

    # ---- Tokens equality / hash / duplicate
    tokp = Tokens(**want)
    if not (tokp == parsed) or (tokp != parsed) or hash(tokp) != hash(parsed):
        bad("tokens:eq-hash", f"Tokens(**{want}) and tokenise({full!r}) are not equal / hash differently")
    dup = tok.duplicate()
    if not (dup == tok) or dup != tok or hash(dup) != hash(tok) or dup is tok or type(dup) is not type(tok):
        bad("tokens:duplicate", "duplicate() is not an equal, distinct copy")
    lowest = "job" if t["job"] else "task" if t["task"] else "cycle" if t["cycle"] else "workflow" if t["workflow"] else "user"
    changed = tok.duplicate(**{lowest: t[lowest] + "x" if lowest != "job" else "99"})
    if changed == tok or not (changed != tok) or present(t) != norm(tok):
        bad("tokens:duplicate-change", f"duplicate({lowest}=...) equals the original, or the original was modified")
    for k in ("workflow", "cycle", "task", "job"):
        if t[k]:
            other = tok.duplicate(**{k + "_sel": (t[k + "_sel"] + "z")})
            if other == tok or not (other != tok):
                bad("tokens:selector-ignored-by-eq", f"tokens that differ only in {k}_sel compare equal")
            other = tok.duplicate(**{k: t[k] + "9" if k != "job" else "98"})
            if other == tok or not (other != tok):
                bad("tokens:distinct-equal", f"tokens that differ only in {k} compare equal")
    if prev is not None and present(prev["t"]) != present(t):
        other = Tokens(**present(prev["t"]))
        if other == tok or not (other != tok):
            bad("tokens:distinct-equal", f"compare equal to different tokens {present(prev['t'])}")

    # ---- legacy
    lg = st["legacy"]
    if lg["has"]:
        want_l = {k: v for k, v in want.items() if k in ("cycle", "task", "task_sel")}
        onechar = "one-char-cycle" if len(t["cycle"]) == 1 else "cycle"
        for form, text in (("task-dot-cycle", lg["dot"]), ("cycle-slash-task", lg["slash"])):
            try:
                got = {k: v for k, v in legacy_tokenise(text).items() if v}
            except ValueError:
                got = None
            if got is None:
                # (implies that upgrade_legacy_ids leaves the ID alone, so it would be read as a workflow ID)
                out.append((f"legacy:{form}:{onechar}:not-recognised",
                            f"legacy_tokenise({text!r}) raises ValueError and upgrade_legacy_ids('wf', {text!r}) = "
                            f"{upgrade_legacy_ids('wf', text)}; expected tokens {want_l}, upgraded form {lg['up']!r}"))
                continue
            if got != want_l:
                out.append((f"legacy:{form}:{onechar}:legacy_tokenise",
                            f"legacy_tokenise({text!r}) = {got}, expected {want_l}"))
            up = upgrade_legacy_ids("wf", text)
            if up != ["wf", lg["up"]]:
                out.append((f"legacy:{form}:{onechar}:not-upgraded",
                            f"upgrade_legacy_ids('wf', {text!r}) = {up}, expected ['wf', {lg['up']!r}]"))
            upr = upgrade_legacy_ids(text, relative=True)
            if upr != [lg["uprel"]]:
                out.append((f"legacy:{form}:{onechar}:not-upgraded-relative",
                            f"upgrade_legacy_ids({text!r}, relative=True) = {upr}, expected [{lg['uprel']!r}]"))
            elif norm(tokenise(upr[0], relative=True)) != want_l:
                out.append((f"legacy:{form}:{onechar}:upgraded-tokens",
                            f"{text!r} upgrades to {upr[0]!r} which parses to {norm(tokenise(upr[0], relative=True))}, "
                            f"expected {want_l}"))
    return out

def run(ctx):
    states = _enumerate(ctx, "Ids", "Ids" if ctx.quick else "Ids_thorough", timeout=1500)
    states.sort(key=lambda s: (sum(1 for v in s["t"].values() if v), s["full"]))
    n = nontrivial = nlegacy = npad = 0
    samples = []
    prev = None
    for st in states:
        n += 1
        t = st["t"]
        special = any(ch in (t["user"] + t["workflow"] + t["cycle"] + t["task"] + t["task_sel"]) for ch in "./~*+-%@")
        nontrivial += special
        nlegacy += st["legacy"]["has"]
        npad += st["padded"]["job"] != t["job"]
        if len(samples) < 3 and special and t["job_sel"] and t["user"] and t["workflow_sel"] and "/" in t["workflow"]:
            samples.append({"tokens": present(t), "id": st["full"]})
        if len(samples) < 5 and st["legacy"]["has"] and t["task_sel"]:
            samples.append({"legacy": [st["legacy"]["dot"], st["legacy"]["slash"]], "upgraded": st["legacy"]["up"]})
        for key, text in check_case(st, prev):
            ctx.violation(key, text, {"case": to_py(st)})
        prev = st
    oracle.finish_cov(ctx, n, nontrivial,
                      "every legal tokens record over the field alphabets of Ids.tla (user, hierarchical workflow, cycle "
                      "incl. ISO8601 with '-', '+', glob '*', '.', task with '.', '-+%@', '~', '*', selectors with '.', jobs "
                      "1, 12, 123, 007, NN) enumerated by TLC with its canonical ID strings; non-trivial = some field holds a "
                      "separator-adjacent character",
                      samples, exhaustive=True)
    ctx.coverage.update({"legacy_cases": nlegacy, "cases_with_unpadded_job": npad,
                         "oracle_invariants_checked_by_tlc": ["AbsEndsWithRel", "NoSelSame", "PadIdem"]})
    ctx.assumptions += ["tokens containing characters the grammar excludes from a field (':' in cycles, leading/trailing "
                        "blanks, newlines) are not valid identifier tokens and are not enumerated",
                        "tokens with gaps in the hierarchy (e.g. job without task, which detokenise renders as '*') are "
                        "not round-trippable by design and are excluded by Legal()",
                        "id_cli.py (CLI parsing of several IDs, filesystem inference) is not driven here"]

def replay(ctx, data):
    import copy
    st = copy.deepcopy(data["replay"]["case"])
    for key, text in check_case(st):
        ctx.violation(key, text, {"case": data["replay"]["case"]})
    ctx.coverage.update({"states": 1, "transitions": 1, "traces_validated_against_impl": 1, "samples": [st["full"]]})
