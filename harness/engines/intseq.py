"""C16: integer recurrences denote the clipped arithmetic progression minus exclusions.

Oracle = spec/oracle/IntSeq.tla.  One TLC state = one recurrence expression (string built in TLA+) with
initial / final cycle point, the expected point set inside the query window and the expected answers of
next / previous / first for every query point, start and stop.  Every state is replayed on
cylc.flow.cycling.integer.IntegerSequence.
"""
from __future__ import annotations
import os
from harness import oracle, tlc, common
from harness.tlaparse import to_py

NONE = -99
KIND_FLAG = {"fwd": None, "bwd": "bwd", "span": "span", "once": "once"}
EXCL_FLAG = {"none": None, "p1": "exclpt", "p2": "exclpt", "seq": "exclseq", "mix": "exclseq"}


def flags_of(st):
    """Input class of a case (from the oracle state only) - used to label findings, never to decide them."""
    cl, c = st["cls"], st["c"]
    fl = [KIND_FLAG[cl["kind"]], EXCL_FLAG[c["ex"]["kind"]]]
    fl += [k for k in ("low", "high", "empty", "nofcp", "exlow", "exhigh") if cl[k]]
    return frozenset(f for f in fl if f)


def _val(p):
    return NONE if p is None else int(p)


def _show(v):
    return "None" if v == NONE else str(v)


def check_case(st):
    """Replay one oracle state.  Returns list of (clause, text)."""
    from cylc.flow.cycling.integer import IntegerSequence, IntegerPoint
    c, expr = st["c"], st["expr"]
    icp = str(c["icp"])
    fcp = None if c["fcp"] == NONE else str(c["fcp"])
    n = len(st["next"])
    qlo = st["qlo"]
    ident = f"IntegerSequence({expr!r}, {icp!r}, {fcp!r})"
    try:
        seq = IntegerSequence(expr, icp, fcp)
    except Exception as e:  # the property says these forms are supported
        return [("rejected", f"{ident} raises {type(e).__name__}: {e}")]
    out = []

    def call(f, *a):
        try:
            return _val(f(*a))
        except Exception as e:  # noqa
            return f"raises {type(e).__name__}"

    try:
        got_pts = {q for q in range(qlo - 1, qlo + n + 1) if seq.is_valid(IntegerPoint(q))}
    except Exception as e:
        return [("points", f"{ident}.is_valid raises {type(e).__name__}: {e}")]
    exp_pts = set(st["pts"])
    if got_pts != exp_pts:
        return [("points", f"{ident}: is_valid holds on {sorted(got_pts)} within {qlo - 1}..{qlo + n}, "
                           f"the clipped progression minus exclusions is {sorted(exp_pts)}")]
    g = call(seq.get_start_point)
    if g != st["start"]:
        out.append(("start", f"{ident}.get_start_point() = {_show(g)}, expected {_show(st['start'])}"))
    g = call(seq.get_stop_point)
    if g != st["stop"]:
        out.append(("stop", f"{ident}.get_stop_point() = {_show(g)}, expected {_show(st['stop'])}"))
    lo, hi = st["start"], st["stop"]
    last = st["last"]
    seen = set()
    for i in range(n):
        q = qlo + i
        p = IntegerPoint(q)
        if lo == NONE:
            pos = "empty"
        elif q in exp_pts:
            pos = "in"
        elif q < lo:
            pos = "below"
        elif last != NONE and q > last:
            pos = "above"
        else:
            pos = "between"
        checks = [("next", "get_next_point", seq.get_next_point, st["next"][i]),
                  ("first", "get_first_point", seq.get_first_point, st["first"][i]),
                  ("nearest_prev", "get_nearest_prev_point", seq.get_nearest_prev_point, st["prev"][i])]
        if pos in ("in", "between"):
            # get_prev_point is specified "None if out of bounds": only asked inside the bounds
            checks.append(("prev", "get_prev_point", seq.get_prev_point, st["prev"][i]))
            checks.append(("on_sequence", "is_on_sequence", lambda x: int(bool(seq.is_on_sequence(x))),
                           int(q in exp_pts)))
        if pos == "in":
            checks.append(("next_on_sequence", "get_next_point_on_sequence", seq.get_next_point_on_sequence,
                           st["next"][i]))
        for name, meth, f, exp in checks:
            cl = f"{name}@{pos}"
            if cl in seen:      # already failed for this case and query class: one report is enough
                continue
            g = call(f, p)
            if g != exp:
                if cl not in seen:
                    seen.add(cl)
                    out.append((cl, f"{ident}.{meth}({q}) = {_show(g)}, expected {_show(exp)} "
                                    f"(points within {qlo - 1}..{qlo + n}: {sorted(exp_pts)})"))
    return out


def _prep(states, qlo):
    for st in states:
        st["qlo"] = qlo
        # last point of a bounded sequence (stop), NONE if unbounded or empty
        st["last"] = st["stop"]
    return states


def _work(chunk):
    # IntegerSequence recurses once per consecutive excluded point (far fewer than 120 here); a low limit makes a
    # non-terminating recursion in the code under test fail fast (reported as "raises RecursionError")
    import sys, inspect
    old = sys.getrecursionlimit()
    sys.setrecursionlimit(len(inspect.stack()) + 120)
    try:
        return [(i, check_case(st)) for i, st in chunk]
    finally:
        sys.setrecursionlimit(old)


def replay_states(states, found):
    """Replay all states; collect failures in found: clause -> {flags -> (text, state)} (first = shortest expression)."""
    order = sorted(range(len(states)), key=lambda i: (len(states[i]["expr"]), states[i]["expr"],
                                                       states[i]["c"]["icp"], states[i]["c"]["fcp"]))
    items = [(i, states[i]) for i in order]
    chunks = [items[k::16] for k in range(16)]
    results = {}
    for part in common.parallel_map(_work, [ch for ch in chunks if ch], procs=8):
        for i, bad in part:
            results[i] = bad
    n_checks = 0
    for i in order:
        st = states[i]
        n_checks += 3 + 5 * len(st["next"])
        for clause, text in results[i]:
            found.setdefault(clause, {}).setdefault(flags_of(st), (text, st))
    return n_checks


def report(ctx, found):
    """Report, per clause, the subset-minimal failing input classes (a class whose flags include those of an already
    reported class of the same clause is counted but not listed)."""
    subsumed = 0
    for clause in sorted(found):
        reported = []
        for fl in sorted(found[clause], key=lambda f: (len(f), sorted(f))):
            if any(r <= fl for r in reported):
                subsumed += 1
                continue
            reported.append(fl)
            text, st = found[clause][fl]
            key = f"{clause}:{'+'.join(sorted(fl)) or 'plain'}"
            ctx.violation(key, text, {"case": to_py(st)})
    if subsumed:
        ctx.notes.append(f"C16: {subsumed} further failing input classes are supersets of a reported class "
                         f"(same clause) and are not listed separately")


def _nontrivial(st):
    cl = st["cls"]
    return cl["low"] or cl["high"] or cl["exeff"]


def random_cases(ctx, n):
    """Random larger parameter values, rendered as a TLA+ set for IntSeq!ExtraCases."""
    rng = ctx.rng
    forms = ["s/Pk", "R/s/Pk", "Pk", "Rn/s/Pk", "Rn//Pk", "Pk/e", "R/Pk/e", "Rn/Pk/e", "Rn/Pk", "Rn/s/e", "R1", "R1/s",
             "R1//e"]
    has_s = {"s/Pk", "R/s/Pk", "Rn/s/Pk", "Rn/s/e", "R1/s"}
    has_e = {"Pk/e", "R/Pk/e", "Rn/Pk/e", "Rn/s/e", "R1//e"}
    has_k = {"s/Pk", "R/s/Pk", "Pk", "Rn/s/Pk", "Rn//Pk", "Pk/e", "R/Pk/e", "Rn/Pk/e", "Rn/Pk"}
    has_n = {"Rn/s/Pk", "Rn//Pk", "Rn/Pk/e", "Rn/Pk", "Rn/s/e"}

    def pt():
        if rng.random() < 0.35:
            return f"[rel |-> TRUE, v |-> {rng.randint(-12, 12)}]"
        return f"[rel |-> FALSE, v |-> {rng.randint(0, 60)}]"
    nopt = "[rel |-> FALSE, v |-> 0]"
    out = set()
    while len(out) < n:
        f = rng.choice(forms)
        icp = rng.randint(0, 40)
        fcp = NONE if rng.random() < 0.25 else icp + rng.randint(0, 25)
        r = rng.random()
        if r < 0.4:
            ex = f'[kind |-> "none", p1 |-> 0, p2 |-> 0, form |-> "-", s |-> {nopt}, k |-> 1, n |-> 1]'
        elif r < 0.6:
            a = rng.randint(0, 60)
            ex = f'[kind |-> "p1", p1 |-> {a}, p2 |-> 0, form |-> "-", s |-> {nopt}, k |-> 1, n |-> 1]'
        elif r < 0.7:
            a = rng.randint(0, 58)
            ex = (f'[kind |-> "p2", p1 |-> {a}, p2 |-> {a + rng.randint(1, 9)}, form |-> "-", s |-> {nopt}, '
                  f'k |-> 1, n |-> 1]')
        else:
            ef = rng.choice(["Pk", "s/Pk", "Rn/s/Pk"])
            es = nopt if ef == "Pk" else (pt() if ef == "s/Pk" else f"[rel |-> FALSE, v |-> {rng.randint(0, 60)}]")
            kind = "mix" if ef == "Pk" and rng.random() < 0.3 else "seq"
            ex = (f'[kind |-> "{kind}", p1 |-> {rng.randint(0, 60) if kind == "mix" else 0}, p2 |-> 0, form |-> "{ef}", '
                  f's |-> {es}, k |-> {rng.randint(2, 7)}, n |-> {rng.randint(2, 6) if ef == "Rn/s/Pk" else 1}]')
        out.add(f'[form |-> "{f}", s |-> {pt() if f in has_s else nopt}, e |-> {pt() if f in has_e else nopt}, '
                f'k |-> {rng.randint(1, 9) if f in has_k else 1}, n |-> {rng.randint(1, 12) if f in has_n else 1}, '
                f'icp |-> {icp}, fcp |-> {fcp}, ex |-> {ex}]')
    return sorted(out)


RAND_QLO, RAND_QHI, RAND_WLO, RAND_WHI = -3, 90, -6, 260


def run_random(ctx, n):
    cases = random_cases(ctx, n)
    mod = os.path.join(ctx.scratch, "IntSeqRand.tla")
    with open(mod, "w") as f:
        f.write("---- MODULE IntSeqRand ----\nEXTENDS IntSeq\n"
                f"R_QLo == {RAND_QLO}\nR_WLo == {RAND_WLO}\nR_Fcps == {{NONE}}\nR_Rel == {{0}}\n"
                "R_Cases == {\n  " + ",\n  ".join(cases) + "\n}\n====\n")
    cfg = os.path.join(ctx.scratch, "IntSeqRand.cfg")
    with open(cfg, "w") as f:
        f.write("SPECIFICATION Spec\nINVARIANT WindowWideEnough\nINVARIANT Consistent\nCONSTANTS\n"
                "  AbsPts = {0}\n  RelOffs <- R_Rel\n  Steps = {1}\n  Reps = {1}\n  Icps = {0}\n  Fcps <- R_Fcps\n"
                "  ExPts = {0}\n  ExSteps = {2}\n  ExAbs = {0}\n  ExRel = {0}\n"
                f"  QLo <- R_QLo\n  QHi = {RAND_QHI}\n  WLo <- R_WLo\n  WHi = {RAND_WHI}\n"
                "  ExtraCases <- R_Cases\n  UseBox = FALSE\n")
    res, states = tlc.dump_states(mod, cfg, timeout=900, workers=8)
    if not res.ok:
        raise tlc.TLCError(f"IntSeqRand did not check cleanly: {res.kind} {res.violated}\n{res.out[-2000:]}")
    cov = ctx.coverage
    cov["states"] = cov.get("states", 0) + res.distinct
    cov["transitions"] = cov.get("transitions", 0) + res.generated
    cov.setdefault("tlc_models", []).append({"module": "IntSeqRand (generated, seed %d)" % ctx.seed, "cfg": "generated",
                                             "distinct": res.distinct, "generated": res.generated,
                                             "wall_s": round(res.wall_s, 2)})
    return _prep(states, RAND_QLO)


def run(ctx):
    cfg = "IntSeq" if ctx.quick else "IntSeq_thorough"
    qlo = -2 if ctx.quick else -3
    states = _prep(oracle.enumerate_cases(ctx, "IntSeq", cfg, workers=8), qlo)
    found = {}
    evals = replay_states(states, found)
    n = len(states)
    nontrivial = sum(1 for st in states if _nontrivial(st))
    samples = [{"expr": st["expr"], "icp": st["c"]["icp"], "fcp": None if st["c"]["fcp"] == NONE else st["c"]["fcp"],
                "points_in_window": sorted(st["pts"]), "start": st["start"], "stop": st["stop"]}
               for st in states if st["cls"]["low"] and st["cls"]["high"] and st["cls"]["exeff"]][:4]
    if not ctx.quick:
        rstates = run_random(ctx, 1500)
        evals += replay_states(rstates, found)
        n += len(rstates)
        nontrivial += sum(1 for st in rstates if _nontrivial(st))
    report(ctx, found)
    oracle.finish_cov(ctx, n, nontrivial,
                      "every legal <<form (13 spellings of the forms in the property), start, end (absolute or +P/-P "
                      "relative), step, repetitions, initial point, final point or none, exclusion (none, 1-2 points, "
                      "exclusion sequence Pk | s/Pk | R2/s/Pk, point+sequence)>> in the box of IntSeq*.cfg, each with "
                      "every query point of the window; non-trivial = progression clipped at the initial or final "
                      "point, or an exclusion that removes a point"
                      + ("" if ctx.quick else "; plus seeded random larger values via IntSeq!ExtraCases"),
                      samples, exhaustive=True)
    ctx.coverage["evaluations"] = evals
    ctx.assumptions += [
        "get_prev_point is only asked for points inside the sequence bounds (its contract: 'None if out of bounds'); "
        "is_on_sequence is only compared with membership inside the bounds ('disregarding bounds' is not specified by C16)",
        "exclusion sequences with an implied or relative start are only generated where the first point of the main "
        "sequence is the initial cycle point (both readings of the documentation then agree)",
        "negative cycle points, zero/negative intervals and relative exclusion points are outside the domain",
    ]


def replay(ctx, data):
    st = data["replay"]["case"]
    st["pts"] = frozenset(st["pts"])
    for k in ("next", "prev", "first"):
        st[k] = tuple(st[k])
    for clause, text in _work([(0, st)])[0][1]:
        fl = flags_of(st)
        ctx.violation(f"{clause}:{'+'.join(sorted(fl)) or 'plain'}", text, {"case": data["replay"]["case"]})
    ctx.coverage.update({"states": 1, "transitions": 1, "traces_validated_against_impl": 1, "samples": [st["expr"]]})
