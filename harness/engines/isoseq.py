"""C17: datetime recurrences agree with brute-force enumeration, independently of the query history.

Oracle = spec/oracle/SeqApi.tla: a recurrence is an abstract finite ordered list with exclusion flags, every API
method is a pure function of the list, and the behaviours of the spec are query histories with the required
answers.  This engine binds each abstract list to concrete ISO 8601 recurrences (several spellings, exclusion points
/ sequences / truncated exclusions, four calendars, several time zones): the concrete ordered list is obtained by
iterating the underlying isodatetime recurrence (the property's own oracle), abstract instant 2i is its i-th point,
2i+1 an instant between.  Every history is replayed on ONE ISO8601Sequence object (so later calls see the caches
filled by earlier calls); every answer is compared with the answer TLC computed and with the answer of a fresh
object.  The calendar arithmetic is isodatetime's and is not re-derived in TLA+.
"""
from __future__ import annotations
import glob
import os
import re
from harness import oracle, tlc, tlaparse, common
from harness.tlaparse import to_py

CONFIGS = [("gregorian", "Z"), ("gregorian", "+0530"), ("360day", "Z"), ("365day", "-0300"), ("366day", "+0100"),
           ("gregorian", "-0800")]

# concrete recurrence families: start (local, no zone), step, an offset smaller than the step, step multiples
FAMILIES = [
    {"name": "6h-over-feb-end", "start": "20000228T1200", "step": "PT6H", "half": "PT3H", "mult": {2: "PT12H", 3: "PT18H"}},
    {"name": "1d-over-feb-end", "start": "20000227T0600", "step": "P1D", "half": "PT11H", "mult": {2: "P2D", 3: "P3D"}},
    {"name": "1m-over-year-end", "start": "20001115T0000", "step": "P1M", "half": "P10D", "mult": {2: "P2M", 3: "P3M"}},
    {"name": "1w", "start": "20011222T1830", "step": "P1W", "half": "P3DT2H", "mult": {2: "P2W", 3: "P3W"}},
    {"name": "90min", "start": "19991230T2130", "step": "PT1H30M", "half": "PT40M", "mult": {2: "PT3H", 3: "PT4H30M"}},
]
BOUNDED_FORMS = ["Rn/s/P", "Rn/P/e", "Rn/P", "Rn/s/e", "P/e", "Rn/+o/P", "Rn/P/-o", "Rn/T/P"]
UNBOUNDED_FORMS = ["s/P", "R/s/P", "P", "+o/P", "T", "R/T/P"]
ONE_FORMS = ["R1", "R1/s", "R1//e", "R1/+o", "Rn/s/P", "Rn/P"]
TZ_STYLES = ["assumed", "explicit", "utc"]


def setup(config):
    """Initialise cylc's datetime cycling globals for one (calendar, time zone) and drop every cache."""
    from cylc.flow.cycling import iso8601
    mode, tz = config
    iso8601.init(time_zone=tz, cycling_mode=mode)
    for f in (iso8601._point_parse, iso8601._interval_parse,
              iso8601.ISO8601Point._iso_point_add, iso8601.ISO8601Point._iso_point_cmp,
              iso8601.ISO8601Point._iso_point_sub_interval, iso8601.ISO8601Point._iso_point_sub_point,
              iso8601.ISO8601Interval._iso_interval_abs, iso8601.ISO8601Interval._iso_interval_add,
              iso8601.ISO8601Interval._iso_interval_cmp, iso8601.ISO8601Interval._iso_interval_sub,
              iso8601.ISO8601Interval._iso_interval_mul, iso8601.ISO8601Interval._iso_interval_nonzero):
        f.cache_clear()
    from metomi.isodatetime.data import Calendar
    assert Calendar.default().mode == mode


def spell(tp, style, config):
    """Write a TimePoint in one of three spellings of the same instant."""
    def ymdhm(x):
        h, mi, _ = x.get_hour_minute_second()
        return f"{int(x.year):04d}{int(x.month_of_year):02d}{int(x.day_of_month):02d}T{int(h):02d}{int(mi):02d}"
    if style == "utc":
        return ymdhm(tp.to_utc()) + "Z"
    from cylc.flow.cycling.iso8601 import point_parse
    base = ymdhm(point_parse(str(tp)))      # str() dumps in the configured cycle point time zone
    return base if style == "assumed" else base + config[1]


class Instance:
    """One concrete recurrence realising an abstract list [n, excl, bounded]."""

    def __init__(self, lst, config, pick):
        from cylc.flow.cycling.iso8601 import point_parse, interval_parse
        n, excl, bounded = lst["n"], sorted(lst["excl"]), lst["bounded"]
        self.lst, self.config = lst, config
        fam = FAMILIES[pick % len(FAMILIES)]
        pick //= len(FAMILIES)
        forms = (ONE_FORMS if n == 1 else BOUNDED_FORMS) if bounded else UNBOUNDED_FORMS
        form = forms[pick % len(forms)]
        pick //= len(forms)
        style = TZ_STYLES[pick % 3]
        pick //= 3
        if form == "T" and fam["step"] != "P1D":      # a bare truncated point implies a daily interval
            form = "R/T/P"
        if form == "Rn/s/e" and n < 2:
            form = "Rn/s/P"
        step, half = interval_parse(fam["step"]), interval_parse(fam["half"])
        s = point_parse(fam["start"])
        base = [s]
        for _ in range(n + 1):
            base.append(base[-1] + step)
        e = base[n - 1]
        S_, E_ = spell(s, style, config), spell(e, style, config)
        off = "PT1H"
        o = interval_parse(off)
        cs = ce = None
        h0, m0, _ = s.get_hour_minute_second()
        hh = f"T{int(h0):02d}" + (f"{int(m0):02d}" if int(m0) else "")
        if form == "Rn/s/P":
            main, cs = f"R{n}/{S_}/{fam['step']}", spell(s - step, style, config)
        elif form == "Rn/P/e":
            main, cs = f"R{n}/{fam['step']}/{E_}", spell(s - step, style, config)
        elif form == "Rn/P":
            main, cs, ce = f"R{n}/{fam['step']}", spell(s - step, style, config), E_
        elif form == "Rn/s/e":
            main = f"R{n}/{S_}/{spell(base[1], style, config)}"
        elif form == "P/e":
            main, cs = f"{fam['step']}/{E_}", spell(s + half, style, config)
        elif form == "Rn/+o/P":
            main, cs = f"R{n}/+{off}/{fam['step']}", spell(s - o, style, config)
        elif form == "Rn/P/-o":
            main, cs, ce = f"R{n}/{fam['step']}/-{off}", spell(s - step, style, config), spell(e + o, style, config)
        elif form == "Rn/T/P":
            main, cs = f"R{n}/{hh}/{fam['step']}", spell(s - o, style, config)
        elif form == "s/P":
            main = f"{S_}/{fam['step']}"
        elif form == "R/s/P":
            main = f"R/{S_}/{fam['step']}"
        elif form == "P":
            main, cs = fam["step"], S_
        elif form == "+o/P":
            main, cs = f"+{off}/{fam['step']}", spell(s - o, style, config)
        elif form == "T":
            main, cs = hh, spell(s - o, style, config)
        elif form == "R/T/P":
            main, cs = f"R/{hh}/{fam['step']}", spell(s - o, style, config)
        elif form == "R1":
            main, cs = "R1", S_
        elif form == "R1/s":
            main = f"R1/{S_}"
        elif form == "R1//e":
            main, cs, ce = f"R1//{E_}", spell(s - step, style, config), spell(e + step, style, config)
        elif form == "R1/+o":
            main, cs = f"R1/+{off}", spell(s - o, style, config)
        else:
            raise AssertionError(form)
        self.form, self.family, self.style = form, fam["name"], style
        # the points of the exclusion-free recurrence, by brute-force iteration (one more than listed)
        from cylc.flow.cycling.iso8601 import ISO8601Sequence
        base = []
        for tp in ISO8601Sequence(main, cs, ce).recurrence:
            base.append(tp)
            if len(base) > n + 1:
                break
        while len(base) < n + 2:
            base.append(base[-1] + step)
        exact_step = form != "Rn/s/e" or "M" not in fam["step"].split("T")[0]
        # ---- exclusions: realise the abstract excluded positions
        spellings = []
        if excl:
            other = TZ_STYLES[(TZ_STYLES.index(style) + 1) % 3]
            strs = [spell(base[i - 1], other if k % 2 else style, config) for k, i in enumerate(excl)]
            spellings.append(("points", "!" + (strs[0] if len(strs) == 1 else "(" + ",".join(strs) + ")")))
            # arithmetic pattern j, j+m, ... covering exactly excl within 1..n
            for m, mstr in fam["mult"].items():
                j = excl[0]
                if exact_step and excl == list(range(j, n + 1, m)):
                    p = spell(base[j - 1], style, config)
                    spellings.append(("sequence", f"!{p}/{mstr}"))
                    if j == 1 and form not in ("P/e",):
                        spellings.append(("sequence-implied-start", f"!{mstr}"))
                    if len(excl) >= 2:
                        spellings.append(("point+sequence",
                                          f"!({spell(base[j - 1], other, config)},"
                                          f"{spell(base[j - 1 + m], style, config)}/{mstr})"))
                    break
            if len(excl) == 1:
                spellings.append(("R1-sequence", f"!R1/{spell(base[excl[0] - 1], style, config)}"))
            # truncated exclusion (every day at hh:mm): usable when it selects exactly the excluded positions
            b = base[excl[0] - 1]
            hm = [tuple(int(v) for v in point_parse(str(x)).get_hour_minute_second()[:2]) for x in base]
            bh, bm = hm[excl[0] - 1]
            t = f"T{bh:02d}" + (f"{bm:02d}" if bm else "")
            hit = [k + 1 for k in range(n) if hm[k] == (bh, bm)]
            if hit == excl and fam["step"] in ("PT6H", "PT1H30M"):
                spellings.append(("truncated", f"!{t}"))
        self.excl_kind, ex = spellings[pick % len(spellings)] if spellings else ("none", "")
        self.expr, self.cs, self.ce = main + ex, cs, ce
        self.half = half
        self.points = None      # filled by materialise()

    def new(self):
        from cylc.flow.cycling.iso8601 import ISO8601Sequence
        return ISO8601Sequence(self.expr, self.cs, self.ce)

    def materialise(self):
        """The concrete ordered list: iterate the underlying recurrence (brute force)."""
        from cylc.flow.cycling.iso8601 import ISO8601Point
        seq = self.new()
        n, bounded = self.lst["n"], self.lst["bounded"]
        pts = []
        for tp in seq.recurrence:
            pts.append(tp)
            if len(pts) > n:
                break
        if bounded and len(pts) != n or not bounded and len(pts) <= n:
            raise RuntimeError(f"template {self.describe()} yields {len(pts)} points, wanted {n} "
                               f"({'bounded' if bounded else 'unbounded'})")
        pts = pts[:n]
        if any(not (a < b) for a, b in zip(pts, pts[1:])):
            raise RuntimeError(f"template {self.describe()}: recurrence not increasing")
        # which of them are excluded: directly from the exclusion spelling's meaning = abstract excl set; verify
        # independently of the sequence API by membership in the parsed exclusion object
        self.points = pts
        self.instants = {}
        for i, tp in enumerate(pts, 1):
            self.instants[2 * i] = tp
            self.instants[2 * i + 1] = tp + self.half
        self.instants[1] = pts[0] - self.half
        for t in list(self.instants):
            if t % 2 == 1 and t > 1 and t < 2 * n + 1 and not (self.instants[t] < self.instants[t + 1]):
                raise RuntimeError("half step not smaller than step")
        self.cpoints = {t: ISO8601Point(str(tp)) for t, tp in self.instants.items()}
        got_excl = {i for i in range(1, n + 1) if seq.exclusions and self.cpoints[2 * i] in seq.exclusions}
        if got_excl != set(self.lst["excl"]):
            # the exclusion spelling does not denote the intended set: a binding problem, not a verdict
            raise RuntimeError(f"template {self.describe()}: exclusions select {sorted(got_excl)}, "
                               f"intended {sorted(self.lst['excl'])}")
        return self

    def describe(self):
        return (f"ISO8601Sequence({self.expr!r}, {self.cs!r}, {self.ce!r}) "
                f"[calendar {self.config[0]}, time zone {self.config[1]}]")


METHODS = {
    "valid": "is_valid", "on_sequence": "is_on_sequence", "next": "get_next_point",
    "next_on_sequence": "get_next_point_on_sequence", "prev": "get_prev_point",
    "nearest_prev": "get_nearest_prev_point", "first": "get_first_point", "start": "get_start_point",
    "stop": "get_stop_point",
}


def ask(seq, inst, m, t):
    """Call the real method; return the abstract answer (instant number, 0 = None, 1/0 for booleans) or a string."""
    from cylc.flow.cycling.iso8601 import point_parse
    f = getattr(seq, METHODS[m])
    try:
        r = f() if m in ("start", "stop") else f(inst.cpoints[t])
    except Exception as e:  # noqa
        return f"raises {type(e).__name__}: {e}"[:160]
    if m in ("valid", "on_sequence"):
        return 1 if r else 0
    if r is None:
        return 0
    try:
        tp = point_parse(r.value)
    except Exception:  # noqa
        return f"ISO8601Point({r.value!r}) (not a parsable point)"
    for k, v in inst.instants.items():
        if v == tp:
            return k
    return f"{r.value} (not a listed instant)"


def show(inst, m, a):
    if isinstance(a, str):
        return a
    if m in ("valid", "on_sequence"):
        return str(bool(a))
    return "None" if a == 0 else str(inst.instants[a])


def qclass(lst, m, t):
    """Stable class of a query relative to the abstract list (for finding keys)."""
    n, excl = lst["n"], set(lst["excl"])
    if m == "stop":
        k = 0
        while k < n and (n - k) in excl:
            k += 1
        return "all-excluded" if k == n else f"last-{min(k, 2)}{'+' if k >= 2 else ''}-excluded" if k else "last-valid"
    if m == "start":
        k = 0
        while k < n and (k + 1) in excl:
            k += 1
        return "all-excluded" if k == n else f"first-{min(k, 2)}{'+' if k >= 2 else ''}-excluded" if k else "first-valid"
    if t == 1:
        a = "before-first"
    elif t == 2 * n + 1:
        a = "after-last"
    elif t % 2:
        a = "between"
    else:
        a = "on-excluded" if t // 2 in excl else "on-valid"
    return a + ("/excl" if excl else "")


def replay_group(args):
    """Worker: one (config) group of histories.  Returns list of (key, text, replay)."""
    config, jobs = args
    setup(config)
    out = []
    inst_cache, fresh_cache = {}, {}
    for lst, pick, hist in jobs:
        ikey = (lst["n"], tuple(sorted(lst["excl"])), lst["bounded"], pick)
        if ikey not in inst_cache:
            inst_cache[ikey] = Instance(lst, config, pick).materialise()
            fresh_cache[ikey] = {}
        inst, fresh = inst_cache[ikey], fresh_cache[ikey]
        warm = inst.new()
        trail = []
        for call in hist:
            m, t, exp = call["m"], call["t"], call["ans"]
            if (m, t) not in fresh:
                fresh[(m, t)] = ask(inst.new(), inst, m, t)
            got_fresh = fresh[(m, t)]
            got_warm = ask(warm, inst, m, t)
            arg = "" if m in ("start", "stop") else str(inst.instants[t])
            where = f"{inst.describe()}.{METHODS[m]}({arg})"
            rep = {"list": {"n": lst["n"], "excl": sorted(lst["excl"]), "bounded": lst["bounded"]},
                   "config": list(config), "pick": pick, "history": [dict(c) for c in hist]}
            if got_fresh != exp:
                out.append((f"{METHODS[m]}:meaning:{qclass(lst, m, t)}",
                            f"{where} = {show(inst, m, got_fresh)} on a fresh object; the ordered list "
                            f"{[str(p) for p in inst.points]} minus excluded positions {sorted(lst['excl'])} "
                            f"requires {show(inst, m, exp)}", rep))
            elif got_warm != exp:
                out.append((f"{METHODS[m]}:history:{qclass(lst, m, t)}",
                            f"{where} = {show(inst, m, got_warm)} after the calls {trail}, but "
                            f"{show(inst, m, exp)} on a fresh object (and by the ordered list)", rep))
            trail.append(f"{METHODS[m]}({arg})")
    return out


def distribute(histories, per_list_instances, seed):
    """Assign every history a config and a concrete instance (deterministic)."""
    groups = {c: [] for c in CONFIGS}
    counters = {}
    # TLC's dump order depends on worker scheduling: fix an order, the binding is derived from it
    histories = sorted(histories, key=lambda x: (x[0]["n"], sorted(x[0]["excl"]), x[0]["bounded"],
                                                 [(c["m"], c["t"]) for c in x[1]]))
    for lst, hist in histories:
        lk = (lst["n"], tuple(sorted(lst["excl"])), lst["bounded"])
        k = counters.get(lk, 0)
        counters[lk] = k + 1
        config = CONFIGS[k % len(CONFIGS)]
        base = (hash_list(lk) + seed * 7919) % 100003
        pick = base + ((k // len(CONFIGS)) % per_list_instances) * 37
        groups[config].append((lst, pick, hist))
    return groups


def hash_list(lk):
    n, excl, bounded = lk
    return n * 1009 + sum(1 << i for i in excl) * 31 + (17 if bounded else 0)


def leaves(states):
    """Maximal histories among the enumerated ones (prefixes are replayed as part of their extensions)."""
    hs = [(st["lst"], tuple(tlaparse.freeze(c) for c in st["hist"])) for st in states]
    prefixes = set()
    for lst, h in hs:
        if h:
            prefixes.add((tlaparse.freeze(lst), h[:-1]))
    return [(lst, h) for lst, h in hs if h and (tlaparse.freeze(lst), h) not in prefixes]


def simulate(ctx, cfg, num, depth):
    """Random deep histories from TLC's simulation mode (deterministic: one worker, fixed seed)."""
    mod = os.path.join(oracle.ORACLE_DIR, "SeqApi.tla")
    cfgp = os.path.join(oracle.ORACLE_DIR, cfg + ".cfg")
    d = os.path.join(ctx.scratch, f"sim-{cfg}")
    os.makedirs(d, exist_ok=True)
    res = tlc.run_tlc(mod, cfgp, workers=1, timeout=900, scratch=ctx.scratch,
                      extra=["-seed", str(1000 + ctx.seed), "-simulate", f"file={d}/tr,num={num}", "-depth", str(depth)])
    if res.kind is not None:
        raise tlc.TLCError(f"SeqApi simulation reported {res.kind} {res.violated}\n{res.out[-1500:]}")
    out = []
    for fn in sorted(glob.glob(os.path.join(d, "tr_*"))):
        txt = open(fn).read()
        last = re.split(r"^STATE_\d+ ==\s*$", txt, flags=re.M)[-1]
        body = last.split("\n\n")[0].split("=====")[0].strip()
        st = tlaparse.parse_conj(body)
        if st["hist"]:
            out.append((st["lst"], tuple(st["hist"])))
    cov = ctx.coverage
    cov.setdefault("tlc_models", []).append({"module": "SeqApi", "cfg": cfg + " (-simulate)", "traces": len(out),
                                             "depth": depth, "wall_s": round(res.wall_s, 2)})
    cov["states"] = cov.get("states", 0) + sum(len(h) + 1 for _, h in out)
    cov["transitions"] = cov.get("transitions", 0) + sum(len(h) for _, h in out)
    return out


def run(ctx):
    cfg = "SeqApi" if ctx.quick else "SeqApi_thorough"
    states = oracle.enumerate_cases(ctx, "SeqApi", cfg, workers=8)
    hists = leaves(states)
    hists += simulate(ctx, "SeqApi_sim", 400 if ctx.quick else 4000, 10 if ctx.quick else 14)
    groups = distribute(hists, 6 if ctx.quick else 40, ctx.seed)
    jobs = []
    for config, items in groups.items():
        # split every config group in two to use more processes; each part re-initialises the calendar itself
        half = (len(items) + 1) // 2
        for part in (items[:half], items[half:]):
            if part:
                jobs.append((config, part))
    results = common.parallel_map(replay_group, jobs, procs=8)
    found = {}
    for part in results:
        for key, text, rep in part:
            found.setdefault(key, []).append((text, rep))
    for key in sorted(found):
        text, rep = min(found[key], key=lambda x: (len(x[1]["history"]), len(x[0]), x[0]))
        ctx.violation(key, f"{text}   [{len(found[key])} failing replays in this class]", rep)
    n_calls = sum(len(h) for _, h in hists)
    nontrivial = sum(1 for lst, h in hists if lst["excl"] and len(h) >= 2)
    samples = []
    for config, items in list(groups.items())[:3]:
        if items:
            lst, pick, h = items[len(items) // 2]
            setup(config)
            inst = Instance(lst, config, pick)
            samples.append({"list": to_py(lst), "instance": inst.describe(), "history": [to_py(c) for c in h][:4]})
    oracle.finish_cov(ctx, len(hists), nontrivial,
                      "every abstract list (n points, any subset excluded, bounded or a prefix of an unbounded recurrence) "
                      "x every history of calls of SeqApi*.cfg (all but the last call from the cache-filling methods, last "
                      "call any method and argument class) + random deep histories from TLC -simulate; each bound "
                      "round-robin to 6 calendar/time-zone configurations and to concrete recurrence spellings "
                      "(5 families x 8/6/6 formats x 3 time-zone spellings x exclusion spellings); non-trivial = "
                      "list has exclusions and history has >= 2 calls",
                      samples, exhaustive=True)
    ctx.coverage["evaluations"] = 2 * n_calls
    ctx.coverage["histories"] = len(hists)
    ctx.coverage["exhaustive"] = False
    ctx.coverage["exhaustive_note"] = ("abstract lists x histories are enumerated exhaustively up to the bounds of the cfg; "
                                       "the binding to concrete recurrences/calendars is a fixed deterministic sample")
    ctx.assumptions += [
        "the concrete ordered list is obtained by iterating the isodatetime TimeRecurrence built by CylcTimeParser "
        "(the property's own oracle); calendar arithmetic is not re-derived",
        "get_prev_point / get_next_point_on_sequence are only asked with points of the underlying recurrence",
        "ISO8601Sequence does not clip to the final cycle point (the scheduler does); unbounded recurrences are "
        "checked on a finite prefix whose last point is valid",
    ]


def replay(ctx, data):
    r = data["replay"]
    lst = {"n": r["list"]["n"], "excl": frozenset(r["list"]["excl"]), "bounded": r["list"]["bounded"]}
    for key, text, rep in replay_group((tuple(r["config"]), [(lst, r["pick"], r["history"])])):
        ctx.violation(key, text, rep)
    ctx.coverage.update({"states": 1, "transitions": len(r["history"]), "traces_validated_against_impl": 1,
                         "samples": [r]})
